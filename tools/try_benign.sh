#!/bin/sh
# tools/try_benign.sh <dir with patch.diff> : apply a behaviour-preserving refactoring to a scratch copy and run every check
d=$1
s=$(mktemp -d /tmp/benign-XXXX)
cp -r /repo/beanquery $s/ && (cd $s && patch -p1 -s < $d/patch.diff) || { echo "PATCH FAILED"; rm -rf $s; exit 2; }
for p in $(cd /verif && /venv/bin/python -c "from bqsa import props; print(' '.join(sorted(props.PROPS)))"); do
  out=$(cd /verif && ./check $p --repo $s --no-evidence 2>&1); rc=$?
  if [ $rc -ne 0 ]; then
    echo "$p exit=$rc"
    echo "$out" | grep -B1 '^VIOLATION' | grep -v '^VIOLATION' | grep -v '^--' | cut -c1-330 | head -6
    echo "$out" | grep -A12 '^ANALYSIS-ERROR' | cut -c1-250 | head -14
  fi
done
rm -rf $s
