"""tools/corpus.py module:rule [module:rule ...] : run rule functions on every benign refactoring (expect silence) and on
every seeded change (show what fires).  Development aid."""
import concurrent.futures, glob, importlib, json, os, shutil, subprocess, sys, tempfile
sys.path.insert(0, '/verif')

def run(args):
    kind, name, patch, specs = args
    d = tempfile.mkdtemp(prefix='corpus-', dir='/tmp')
    try:
        shutil.copytree('/repo/beanquery', d + '/beanquery', ignore=shutil.ignore_patterns('__pycache__', '*_test.py'))
        if patch:
            r = subprocess.run(['patch', '-p1', '-s', '-f', '-i', patch], cwd=d, capture_output=True, text=True)
            if r.returncode:
                return kind, name, ['PATCH-FAILED']
        from bqsa.loader import Program, AnalysisError
        P = Program(d)
        out = []
        fns = []
        for spec in specs:
            if spec in ('ALL', 'ALLT'):
                from bqsa import props
                seen = set()
                for pid, pd in sorted(props.PROPS.items()):
                    for f in pd['quick'] + (pd.get('thorough', []) if spec == 'ALLT' else []):
                        if f not in seen:
                            seen.add(f)
                            fns.append((f.__name__, f))
            else:
                mod, fn = spec.split(':')
                fns.append((fn, getattr(importlib.import_module('bqsa.rules.' + mod), fn)))
        for fn, f in fns:
            try:
                rs = f(P)
                for r in (rs if isinstance(rs, list) else [rs]):
                    for f in r.findings:
                        out.append(f'{r.rule} {f.construct.split(":")[-1][:40]} [{f.detail[:40]}]')
            except AnalysisError as e:
                out.append(f'EXIT2 {fn}: {str(e)[:110]}')
            except Exception as e:
                out.append(f'CRASH {fn}: {type(e).__name__} {str(e)[:100]}')
        return kind, name, out
    finally:
        shutil.rmtree(d, ignore_errors=True)

specs = sys.argv[1:]
jobs = [('clean', 'HEAD', None, specs)]
for p in sorted(glob.glob('/verif/selftest/benign/*.diff')):
    jobs.append(('benign', os.path.basename(p)[:-5], p, specs))
for d in sorted(glob.glob('/verif/seeded/*/')) + sorted(glob.glob('/tmp/seeds3/*/*/')):
    if os.path.exists(d + 'patch.diff'):
        jobs.append(('seed', d.rstrip('/').split('/')[-1] if 'seeded' in d else '/'.join(d.rstrip('/').split('/')[-2:]), d + 'patch.diff', specs))
base = set(run(jobs[0])[2])
print(f'HEAD: {len(base)} findings (known findings and the like); only differences are shown below')
with concurrent.futures.ProcessPoolExecutor(max_workers=14) as ex:
    for kind, name, out in ex.map(run, jobs[1:]):
        out = set(out) - base
        if kind in ('benign', 'clean'):
            if out:
                print(f'!! {kind} {name}:', ' | '.join(sorted(out)))
        elif out:
            print(f'   seed {name}:', ' | '.join(sorted(out))[:300])
        elif kind == 'seed':
            print(f'?? seed {name}: MISSED')
print('done')
