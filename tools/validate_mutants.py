"""tools/validate_mutants.py [PROP ...]: run the pinned test suite on every (non-twin) mutant scratch copy.

A mutant is *realistic* when the suite still passes with it (241 passed, the 14 pre-existing render failures);
results go to selftest/manifest.json.  Development aid, not part of any check."""
import concurrent.futures, json, os, shutil, subprocess, sys, tempfile
sys.path.insert(0, '/verif')
from bqsa import battery

def one(m):
    d = tempfile.mkdtemp(prefix='bqsa-val-', dir='/tmp')
    try:
        shutil.copytree('/repo/beanquery', d + '/beanquery', ignore=shutil.ignore_patterns('__pycache__'))
        for f in ('pyproject.toml',):
            shutil.copy('/repo/' + f, d)
        if not battery.apply_mutant(m, d):
            return m['prop'], m['name'], 'skipped'
        r = subprocess.run(['/venv/bin/python', '-m', 'pytest', '-q', '-p', 'no:cacheprovider', '-x', '--deselect',
                            'beanquery/query_render_test.py', '-q'], cwd=d, capture_output=True, text=True, timeout=600)
        last = r.stdout.strip().splitlines()[-1] if r.stdout.strip() else r.stderr.strip()[-200:]
        return m['prop'], m['name'], last
    finally:
        shutil.rmtree(d, ignore_errors=True)

props = set(sys.argv[1:])
specs = [m for m in battery.load_specs() if not m.get('twin') and (not props or m['prop'] in props)]
out = {}
with concurrent.futures.ProcessPoolExecutor(max_workers=12) as ex:
    for prop, name, res in ex.map(one, specs):
        out.setdefault(prop, {})[name] = res
path = '/verif/selftest/manifest.json'
old = json.load(open(path)) if os.path.exists(path) else {}
old.update(out)
json.dump(old, open(path, 'w'), indent=1, sort_keys=True)
bad = [(p, n, r) for p, d in out.items() for n, r in d.items() if 'passed' not in r or 'failed' in r]
print(len(specs), 'mutants;', len(bad), 'caught by the existing suite (or broken):')
for b in bad: print('  ', *b)
