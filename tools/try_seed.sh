#!/bin/sh
# tools/try_seed.sh <dir with patch.diff + demo.py> [--no-suite] : confirm a seeded change and run every claimed check on it
d=$1; shift
nosuite=$1
wt=/tmp/seedwt-$$
git -C /repo worktree add -q $wt HEAD || exit 2
trap "git -C /repo worktree remove --force $wt" EXIT
echo "== demo on unmodified checkout"; (cd $wt && /venv/bin/python $d/demo.py $wt >/dev/null 2>&1); echo "exit=$?"
(cd $wt && git apply $d/patch.diff) || { echo "PATCH DOES NOT APPLY"; exit 2; }
echo "== demo with the change"; (cd $wt && /venv/bin/python $d/demo.py $wt 2>&1 | tail -3); (cd $wt && /venv/bin/python $d/demo.py $wt >/dev/null 2>&1); echo "exit=$?"
if [ "$nosuite" != "--no-suite" ]; then
  echo "== suite with the change"; (cd $wt && /venv/bin/python -m pytest -q -p no:cacheprovider -n 8 2>&1 | tail -1)
fi
echo "== checks on the changed tree"
for p in $(cd /verif && /venv/bin/python -c "from bqsa import props; print(' '.join(sorted(props.PROPS)))"); do
  out=$(cd /verif && ./check $p --repo $wt --no-evidence 2>&1); rc=$?
  echo "$p exit=$rc $(echo "$out" | grep -c '^VIOLATION') violations"
  echo "$out" | grep -B1 '^VIOLATION' | grep -v '^VIOLATION' | grep -v '^--' | cut -c1-260 | head -4
  echo "$out" | grep '^ANALYSIS-ERROR' | cut -c1-200 | head -2
done
