"""tools/try_patch.py <patch.diff> [...] : apply each patch to a scratch copy of /repo's package and run every claimed check
(quick tier, no battery); prints per patch the rules that fire beyond the known findings, or exit-2 reasons."""
import concurrent.futures, json, os, shutil, subprocess, sys, tempfile
sys.path.insert(0, '/verif')


def run(patch):
    s = tempfile.mkdtemp(prefix='trypatch-', dir='/tmp')
    try:
        shutil.copytree('/repo/beanquery', s + '/beanquery', ignore=shutil.ignore_patterns('__pycache__'))
        r = subprocess.run(['patch', '-p1', '-s', '-f', '-i', patch], cwd=s, capture_output=True, text=True)
        if r.returncode:
            return patch, 'PATCH-FAILED ' + r.stdout[:200]
        from bqsa import props
        out = {}
        for p in sorted(props.PROPS):
            fj = os.path.join(s, f'f-{p}.json')
            r = subprocess.run(['./check', p, '--repo', s, '--no-evidence', '--no-battery', '--findings-json', fj], cwd='/verif',
                               capture_output=True, text=True)
            if r.returncode == 1:
                out[p] = sorted({f"{x['rule']}[{x['detail'][:30]}]" for x in json.load(open(fj)) if not x.get('known')})
            elif r.returncode:
                out[p] = ['EXIT2: ' + ' | '.join(l[:160] for l in r.stdout.splitlines() if l.startswith('ANALYSIS-ERROR'))]
        return patch, out
    finally:
        shutil.rmtree(s, ignore_errors=True)


if __name__ == '__main__':
    with concurrent.futures.ProcessPoolExecutor(max_workers=6) as ex:
        for patch, out in ex.map(run, sys.argv[1:]):
            print(patch, '->', out if out else 'SILENT')
