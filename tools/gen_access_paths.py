"""tools/gen_access_paths.py : print the access summaries of the ledger-table columns of /repo as computed today, merged with the
meanings on record (tables/access_paths.json).  Development aid: the output is reviewed by hand before it replaces the table."""
import json, sys
sys.path.insert(0, '/verif')
from bqsa.loader import Program
from bqsa import registry
from bqsa.rules.sx_tables import access_summary
P = Program('/repo')
reg = registry.get(P)
old = json.load(open('/verif/tables/access_paths.json'))
out = {}
for fq in ('beanquery.query_env:EntriesTable', 'beanquery.query_env:PostingsTable'):
    tn = reg.table_info[fq].name
    for name, c in reg.tables[fq].items():
        if c.kind != 'func':
            continue
        key = f'{tn}.{name}'
        if key not in old:
            continue
        out[key] = {**access_summary(P, c.impl), 'meaning': old[key]['meaning']}
json.dump(out, sys.stdout, indent=1)
