"""Regenerate MANIFEST.json from bqsa/props.py and tables/not_applicable.json (run by hand, result committed)."""
import json, sys, subprocess
sys.path.insert(0, '/verif')
from bqsa import props
allp = [json.loads(l)['id'] for l in open('/verif/properties.jsonl')]
na = json.load(open('/verif/tables/not_applicable.json'))
fixes = subprocess.run(['git', '-C', '/repo', 'log', '--format=%H %s', '22c33c4..HEAD'], capture_output=True, text=True).stdout.splitlines()
METHOD = [   # rule module prefix -> the deciding method, as it goes into the technique field
    ('sx_', 'path-sensitive abstract interpretation of the anchored functions over uninterpreted terms (bqsa/symex.py), obligations stated over the events and result terms of every path'),
    ('dtype', 'abstract type interpretation of every registered implementation against its announced signature (bqsa/absint.py)'),
    ('evalnodes', 'null-flow abstract interpretation and result-term comparison of every operator implementation'),
    ('state_rules', 'whole-package write census: an effect analysis classifying the lifetime of the receiver of every store and mutator call (bqsa/effects.py)'),
    ('grammar_rules', 'analyses of the TatSu grammar model: translation validation of the generated parser, precedence matrix, automata equivalence of lexical classes, derivation-path enumeration, clause-language comparison'),
    ('compiler_rules', 'structural rules over the resolved syntax tree and call graph of the compiler (raise sites, handler exhaustiveness, exception tree) and abstract type interpretation of its guards'),
    ('eqfaith', 'slot census of the evaluator classes plus term interpretation of EvalNode.__eq__'),
    ('cursor_rules', 'module-constant and sibling rules over the DB-API layer'),
    ('table_rules', 'access-path comparison of every table column against the recorded attribute paths'),
    ('clause_rules', 'field-flow and call-order rules over the statement expansions'),
    ('library_rules', 'definition comparison of the scalar function library'),
    ('executor', 'finite-domain interpretation of the executor loops'),
    ('aggregates', 'finite-domain interpretation of the aggregate classes'),
]


def technique(spec):
    mods = []
    for f in spec['quick'] + spec.get('thorough', []):
        m = f.__module__.rsplit('.', 1)[-1]
        for pre, text in METHOD:
            if m.startswith(pre) and text not in mods:
                mods.append(text)
    return 'static analysis (nothing is executed, no solver): ' + '; '.join(mods)


checks = []
for pid in allp:
    spec = props.PROPS.get(pid)
    if not spec:
        continue
    checks.append({
        "property_id": pid,
        "quick_cmd": f"./check {pid} --tier quick",
        "thorough_cmd": f"./check {pid} --tier thorough",
        "evidence_file": f"evidence/{pid}.json",
        "replay_cmd_template": f"./check {pid} --replay {{path}}",
        "engine": "bqsa",
        "level_claimed": {"category": spec['level'], "text": spec['explanation'], "design_ref": f"DESIGN.md §3 {pid}"},
        "level_note": "; ".join(spec['assumptions']),
        "technique": technique(spec),
    })
m = {
    "version": 1,
    "setup_cmd": "true",
    "hooks": {"guard": "BEANQUERY_VERIF",
              "enable": "none: the checks read /repo's sources; no instrumentation exists in /repo",
              "baseline_off_cmd": "cd /repo && /venv/bin/python -m pytest -ra -q -p no:cacheprovider --timeout=900 --continue-on-collection-errors",
              "source_commits": [], "add_only": True},
    "engines": [{"name": "bqsa", "path": "bqsa/", "serves_properties": [c['property_id'] for c in checks],
                 "kind_free_text": "repository-specific static analysis: resolved program model, registries reconstructed from "
                                   "syntax (with an import witness), abstract type interpretation, effect census, finite-domain "
                                   "interpretation, grammar model and translation validation"}],
    "checks": checks,
    "notes": "fix: commits in /repo (genuine defects repaired, see known_findings.txt): " + "; ".join(f.split()[0][:7] for f in fixes),
    "not_applicable": [{"property_id": p, "reason": na.get(p, "check not built yet (build in progress)")}
                       for p in allp if p not in props.PROPS],
}
json.dump(m, open('/verif/MANIFEST.json', 'w'), indent=1)
print(len(checks), 'checks;', len(m['not_applicable']), 'not applicable')
