import sys
pid = sys.argv[1]
prop = open(f'/tmp/prop-{pid}.txt').read()
print(f"""You are testing how well a semantic property of the Python project `beanquery` (a SQL-like query language over Beancount ledgers) is protected. You work ONLY inside the git worktree /tmp/wt-{pid} (a checkout of the project; the package is in /tmp/wt-{pid}/beanquery). Do not read or write anything under /verif or /repo. The interpreter to use is /venv/bin/python (it has beancount, tatsu, pytest, hypothesis installed; there is no network).

The property:

{prop}

Your task: produce TWO different, independent source changes to beanquery (each one a small realistic edit of the kind a developer could make by mistake or during a refactoring - not sabotage that obviously disables a feature) such that each change:
 1. BREAKS the property above for some inputs, while
 2. the package still imports and the EXISTING test suite still passes exactly as before: run `cd /tmp/wt-{pid} && /venv/bin/python -m pytest -q -p no:cacheprovider -x --deselect beanquery/query_render_test.py -n 4` before and after (query_render_test.py has 14 pre-existing failures unrelated to anything; every other test must pass with your change), and
 3. needs something SPECIFIC to manifest: an unusual input, a particular combination of clauses / operand types / NULL positions, a multi-step sequence of operations, or two cooperating sites that each look fine alone. Changes that ordinary everyday queries would expose at once are not wanted.

For each change also write a demonstration: a small standalone Python program `demo.py` that takes the path of a beanquery checkout as its first argument (do `sys.path.insert(0, sys.argv[1])` before importing beanquery), builds a small ledger in memory (e.g. with `beancount.loader.load_string` and `beanquery.connect('beancount:', entries=entries, errors=errors, options=options)`) or a user table, runs the queries and exits with status 1 (printing what went wrong) when the property is violated and 0 when it holds. The demo must exit 0 on the unmodified checkout and 1 with your change applied. Verify both yourself (use `git diff > /tmp/seed-{pid}/tmp.patch; git checkout -- .` and `git apply` - do NOT use `git stash`: the stash is shared with other worktrees that other people are using).

Deliverables - write them to /tmp/seed-{pid}/a/ and /tmp/seed-{pid}/b/ (one directory per change):
  patch.diff   - `git diff` of the change (relative to the unmodified worktree, applicable with `git apply` at the repository root)
  demo.py      - the demonstration program
  notes.txt    - 5-10 lines: what the change is, why it breaks the property, what exactly is needed for it to manifest, and the commands you ran with their results (test suite result before/after, demo exit status before/after)
Leave the worktree clean (`git checkout -- .`) when you are done. Make the two changes genuinely different from each other (different functions / mechanisms). In your final answer, summarise the two changes in a few lines each.""")
