#!/bin/sh
wt=/tmp/bwt-$$
git -C /repo worktree add -q $wt HEAD || exit 2
for p in W1 W2 W3 W4 W5 W6; do for r in r1 r2 r3 r4; do
  (cd $wt && git apply /tmp/seed-$p/$r/patch.diff) || { echo "$p-$r PATCH FAIL"; continue; }
  echo "$p-$r $(cd $wt && /venv/bin/python -m pytest -q -p no:cacheprovider -n 4 2>&1 | tail -1)"
  (cd $wt && git checkout -q -- . && git clean -fdq)
done; done
git -C /repo worktree remove --force $wt
