#!/bin/sh
# usage: tryall.sh C11 C19 ... : try a/b patches of each in parallel
for c in "$@"; do for s in a b; do echo /tmp/seed-$c/$s/patch.diff; done; done | xargs -P 6 -I{} sh -c '/venv/bin/python -B /verif/tools/try_patch.py {} 2>&1 | tail -1 | cut -c1-500'
