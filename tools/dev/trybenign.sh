#!/bin/sh
# usage: trybenign.sh S4 S5 ... : run every check on each r1..r4 patch
for c in "$@"; do for s in r1 r2 r3 r4; do [ -f /tmp/seed-$c/$s/patch.diff ] && echo /tmp/seed-$c/$s/patch.diff; done; done | xargs -P 6 -I{} sh -c '/venv/bin/python -B /verif/tools/try_patch.py {} 2>&1 | tail -1 | cut -c1-600'
