"""tools/add_missing_floors.py : for every (property, rule) that discharges instances on the current tree and has no floor yet, record the
current count as its floor.  Existing floors are never changed here (lowering one is a deliberate, reviewed edit)."""
import json, re, subprocess, sys
sys.path.insert(0, '/verif')
from bqsa import props
f = '/verif/tables/floors.json'
d = json.load(open(f))
for tier in ('quick', 'thorough'):
    for p in sorted(props.PROPS):
        out = subprocess.run(['./check', p, '--tier', tier, '--no-evidence', '--no-battery'], cwd='/verif', capture_output=True, text=True).stdout
        for m in re.finditer(r'rule (R-[A-Z0-9-]+): (\d+) instances discharged', out):
            rule, n = m.group(1), int(m.group(2))
            fl = d.setdefault(p, {})
            if rule not in fl and ('thorough:' + rule) not in fl and n > 0:
                key = rule if tier == 'quick' else 'thorough:' + rule
                fl[key] = n
                print('added', p, key, n)
json.dump(d, open(f, 'w'), indent=1)
