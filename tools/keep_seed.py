"""tools/keep_seed.py <src dir> <id> <property> <initially-caught: yes|no|exit2> : confirm a seeded change and keep it under seeded/<id>/."""
import json, os, shutil, subprocess, sys, tempfile
src, sid, prop, initially = sys.argv[1:5]
dst = f'/verif/seeded/{sid}'
os.makedirs(dst, exist_ok=True)
wt = tempfile.mkdtemp(prefix='seedwt-', dir='/tmp')
os.rmdir(wt)
subprocess.run(['git', '-C', '/repo', 'worktree', 'add', '-q', wt, 'HEAD'], check=True)
try:
    def demo():
        return subprocess.run(['/venv/bin/python', f'{src}/demo.py', wt], cwd=wt, capture_output=True, text=True).returncode
    before = demo()
    subprocess.run(['git', 'apply', f'{src}/patch.diff'], cwd=wt, check=True)
    after = demo()
    suite = subprocess.run(['/venv/bin/python', '-m', 'pytest', '-q', '-p', 'no:cacheprovider', '-n', '8'], cwd=wt,
                           capture_output=True, text=True).stdout.strip().splitlines()[-1]
    checks = {}
    from_props = subprocess.run(['/venv/bin/python', '-c', "from bqsa import props; print(' '.join(sorted(props.PROPS)))"],
                                cwd='/verif', capture_output=True, text=True).stdout.split()
    for p in from_props:
        fj = f'/tmp/findings-{os.getpid()}-{p}.json'
        r = subprocess.run(['./check', p, '--repo', wt, '--no-evidence', '--no-battery', '--findings-json', fj], cwd='/verif', capture_output=True, text=True)
        if r.returncode:
            rules = sorted({x['rule'] for x in json.load(open(fj)) if not x.get('known')}) if os.path.exists(fj) else ['ANALYSIS-ERROR']
            checks[p] = {'exit': r.returncode, 'rules': rules}
        if os.path.exists(fj):
            os.remove(fj)
finally:
    subprocess.run(['git', '-C', '/repo', 'worktree', 'remove', '--force', wt])
assert before == 0 and after == 1, (before, after)
assert '241 passed' in suite and '14 failed' in suite, suite
for f in ('patch.diff', 'demo.py'):
    shutil.copy(f'{src}/{f}', dst)
notes = open(f'{src}/notes.txt').read() if os.path.exists(f'{src}/notes.txt') else ''
meta = {
    'id': sid, 'breaks_property': prop, 'origin': 'independent sub-agent given only the property text and a scratch worktree',
    'needs_to_manifest': notes.strip(),
    'confirmed': {'demo_exit_unmodified': before, 'demo_exit_with_change': after, 'suite_with_change': suite,
                  'commands': [f'git worktree add <wt> HEAD; python demo.py <wt>; git apply patch.diff; python demo.py <wt>; '
                               f'python -m pytest -q -p no:cacheprovider -n 8', './check <P> --repo <wt> --no-evidence for every claimed P']},
    'caught_when_first_tried': initially,
    'caught_now_by': checks,
}
json.dump(meta, open(f'{dst}/meta.json', 'w'), indent=1)
print(sid, 'kept; caught by', {k: v['rules'] for k, v in checks.items()})
