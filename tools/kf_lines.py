"""Print the findings of a property in known_findings.txt syntax (to be triaged by hand, never used at run time)."""
import sys
sys.path.insert(0, '/verif')
from bqsa.main import run_property
prop = sys.argv[1]
code, results = run_property(prop, 'quick', sys.argv[2] if len(sys.argv) > 2 else '/repo', evidence=False, quiet=True)
for r in results:
    for f in r.findings:
        print(f'finding: property={prop} rule={f.rule} construct={f.construct} detail={f.detail} :: {f.message}')
