"""tools/reverify_seeds.py : run every claimed check on every kept seeded change (scratch copies) and refresh
`caught_now_by` in seeded/<id>/meta.json; prints the seeds that the property's own check no longer catches."""
import concurrent.futures, glob, json, os, shutil, subprocess, sys, tempfile
sys.path.insert(0, '/verif')


def run(d):
    meta = json.load(open(d + 'meta.json'))
    s = tempfile.mkdtemp(prefix='reseed-', dir='/tmp')
    try:
        shutil.copytree('/repo/beanquery', s + '/beanquery', ignore=shutil.ignore_patterns('__pycache__'))
        r = subprocess.run(['patch', '-p1', '-s', '-f', '-i', d + 'patch.diff'], cwd=s, capture_output=True, text=True)
        if r.returncode:
            return meta['id'], None, 'PATCH-FAILED'
        from bqsa import props
        checks = {}
        for p in sorted(props.PROPS):
            fj = os.path.join(s, f'findings-{p}.json')
            r = subprocess.run(['./check', p, '--repo', s, '--no-evidence', '--no-battery', '--findings-json', fj], cwd='/verif', capture_output=True, text=True)
            if r.returncode:
                rules = sorted({x['rule'] for x in json.load(open(fj)) if not x.get('known')}) if os.path.exists(fj) else ['ANALYSIS-ERROR']
                checks[p] = {'exit': r.returncode, 'rules': rules}
        meta['caught_now_by'] = checks
        json.dump(meta, open(d + 'meta.json', 'w'), indent=1)
        own = meta['breaks_property']
        return meta['id'], checks, None if checks.get(own, {}).get('exit') == 1 else f'NOT CAUGHT by {own}'
    finally:
        shutil.rmtree(s, ignore_errors=True)


if __name__ == '__main__':
    dirs = sorted(glob.glob('/verif/seeded/*/'))
    if sys.argv[1:]:
        dirs = [d for d in dirs if any(a in d for a in sys.argv[1:])]      # only the seeds whose id contains one of the words given
    with concurrent.futures.ProcessPoolExecutor(max_workers=14) as ex:
        for sid, checks, problem in ex.map(run, dirs):
            print(('!! ' if problem else '   ') + sid, problem or {k: v['rules'] for k, v in checks.items()})
