"""Rule results, known findings, evidence and violation files."""
from __future__ import annotations

import dataclasses
import json
import os
import re
import time

VERIF = os.path.dirname(os.path.dirname(os.path.abspath(__file__)))


@dataclasses.dataclass
class Finding:
    rule: str
    construct: str          # module:qualname (stable name of the construct)
    detail: str             # short stable discriminator within the construct
    message: str            # human explanation, may contain anything
    where: str = ''         # file:line (diagnostic only, never a key)
    path: str = ''          # for path rules: entry -> offending exit

    def key(self, prop):
        return (prop, self.rule, self.construct, self.detail)


@dataclasses.dataclass
class RuleResult:
    rule: str
    instances: list = dataclasses.field(default_factory=list)   # obligations examined (dicts/strings)
    findings: list = dataclasses.field(default_factory=list)
    infos: list = dataclasses.field(default_factory=list)
    unresolved: int = 0
    exhaustive: bool = False

    def ok(self, what):
        self.instances.append(what)

    def fail(self, construct, detail, message, where='', path=''):
        self.findings.append(Finding(self.rule, construct, detail, message, where, path))

    def info(self, msg):
        self.infos.append(msg)


# ----------------------------------------------------------------------
_KF_RE = re.compile(r'^finding:\s+property=(\S+)\s+rule=(\S+)\s+construct=(\S+)\s+detail=(\S+)\s*::\s*(.*)$')


def load_known_findings(path=None):
    path = path or os.path.join(VERIF, 'known_findings.txt')
    known = {}
    if not os.path.exists(path):
        return known
    with open(path, encoding='utf-8') as f:
        for line in f:
            line = line.rstrip('\n')
            m = _KF_RE.match(line)
            if m:
                known[(m.group(1), m.group(2), m.group(3), m.group(4))] = m.group(5)
    return known


def load_floors():
    with open(os.path.join(VERIF, 'tables', 'floors.json'), encoding='utf-8') as f:
        return json.load(f)


def write_violation(prop, n, finding, repo):
    d = os.path.join(VERIF, 'evidence', f'{prop}.violations')
    os.makedirs(d, exist_ok=True)
    p = os.path.join(d, f'{n}.json')
    with open(p, 'w', encoding='utf-8') as f:
        json.dump({'property': prop, 'repo': repo, **dataclasses.asdict(finding)}, f, indent=1)
    return p


def clear_violations(prop):
    d = os.path.join(VERIF, 'evidence', f'{prop}.violations')
    if os.path.isdir(d):
        for fn in os.listdir(d):
            os.unlink(os.path.join(d, fn))
        os.rmdir(d)


def validate_evidence(ev):
    """Structural validation against EVIDENCE.schema.json (hand-rolled; /venv has no jsonschema)."""
    for k in ('property_id', 'tier', 'seed', 'level', 'coverage', 'wall_s'):
        assert k in ev, f'evidence lacks {k}'
    assert ev['tier'] in ('quick', 'thorough')
    assert isinstance(ev['seed'], int)
    cov = ev['coverage']
    if ev['level'] == 'other':
        assert isinstance(cov.get('explanation'), str) and cov['explanation'].strip()
    if ev['level'] == 'translation_validation':
        assert cov.get('programs', 0) >= 1 and cov.get('disagreements_checked', -1) >= 0 and cov.get('samples')
    assert isinstance(cov.get('samples', [0]), list) and len(cov.get('samples', [0])) >= 1
    for k in ('evaluations', 'distinct_nontrivial', 'obligations', 'discharged'):
        if k in cov:
            assert isinstance(cov[k], int) and cov[k] >= 0


def write_evidence(prop, tier, level, results, program_stats, explanation, assumptions,
                   wall_s, nviol, known_printed, extra=None, repo='/repo'):
    obligations = sum(len(r.instances) + len(r.findings) for r in results)
    discharged = sum(len(r.instances) for r in results)
    distinct = set()
    samples = []
    per_rule = {}
    for r in results:
        insts = [i if isinstance(i, str) else json.dumps(i, sort_keys=True, default=str) for i in r.instances]
        distinct.update((r.rule, i) for i in insts)
        per_rule[r.rule] = {'instances': len(r.instances), 'violations': len(r.findings),
                            'unresolved': r.unresolved, 'exhaustive': r.exhaustive,
                            'infos': r.infos[:20]}
        for i in r.instances[:3]:
            samples.append({'rule': r.rule, 'instance': i})
        for f in r.findings[:5]:
            samples.append({'rule': r.rule, 'violation': dataclasses.asdict(f)})
    cov = {
        'explanation': explanation,
        'evaluations': max(obligations, 1),
        'distinct_nontrivial': len(distinct),
        'rule': 'one evaluation = one rule instance (a construct of the source tree matched by a rule and '
                'decided); distinct = distinct (rule, construct) pairs; every instance is non-trivial in '
                'that a rule only instantiates on constructs that carry the obligation',
        'obligations': obligations,
        'discharged': discharged,
        'samples': samples[:40] or [{'note': 'no instances'}],
        'analysed': program_stats,
        'per_rule': per_rule,
        'known_findings_printed': known_printed,
        'exhaustive': all(r.exhaustive for r in results) if results else False,
    }
    if extra:
        cov.update(extra)
    ev = {
        'property_id': prop,
        'tier': tier,
        'seed': int(os.environ.get('VERIF_SEED', '0') or 0),
        'level': level,
        'coverage': cov,
        'assumptions': assumptions,
        'wall_s': round(wall_s, 3),
        'violations': nviol,
        'repo': repo,
        'generated_at': time.strftime('%Y-%m-%dT%H:%M:%SZ', time.gmtime()),
    }
    validate_evidence(ev)
    os.makedirs(os.path.join(VERIF, 'evidence'), exist_ok=True)
    p = os.path.join(VERIF, 'evidence', f'{prop}.json')
    with open(p, 'w', encoding='utf-8') as f:
        json.dump(ev, f, indent=1, default=str)
    return p
