"""./check <property> --tier quick|thorough [--repo DIR] [--replay FILE]"""
from __future__ import annotations

import argparse
import json
import os
import sys
import time
import traceback

from . import report
from .loader import Program, AnalysisError


def run_property(prop, tier, repo, evidence=True, only_rule=None, quiet=False, battery=True):
    from . import props
    spec = props.PROPS.get(prop)
    if spec is None:
        print(f'ANALYSIS-ERROR unknown or unclaimed property {prop}')
        return 2
    t0 = time.time()
    P = Program(repo)
    stats = P.stats()
    rules = list(spec['quick'])
    if tier == 'thorough':
        rules += list(spec.get('thorough', []))
    if only_rule:
        rules = [r for r in rules if r.__name__ == only_rule or getattr(r, 'rule_name', '') == only_rule]
    results = []
    analysis_errors = []
    for rule in rules:
        try:
            res = rule(P)
        except AnalysisError as exc:
            # a rule that cannot read the code gives no verdict; the others still do
            analysis_errors.append(f'{getattr(rule, "__name__", rule)}: {exc}')
            continue
        results.extend(res if isinstance(res, list) else [res])

    floors = report.load_floors().get(prop, {})
    if not only_rule:
        seen = {}
        for r in results:
            # a rule that reports something is not blind: floors guard the silent case
            seen[r.rule] = seen.get(r.rule, 0) + len(r.instances) + (10 ** 6 if r.findings else 0)
        for rule_name, floor in floors.items():
            if rule_name.startswith('thorough:'):
                if tier != 'thorough':
                    continue
                rule_name = rule_name.split(':', 1)[1]
            if seen.get(rule_name, 0) < floor and not analysis_errors:
                analysis_errors.append(
                    f'rule {rule_name} matched {seen.get(rule_name, 0)} instances, fewer than the floor '
                    f'{floor} confirmed by hand: the rule has gone (partly) blind')

    extra = {}
    if spec['level'] == 'translation_validation':
        regen = [r for r in results if r.rule == 'R-REGEN']
        extra['programs'] = sum(len(r.instances) + len(r.findings) for r in regen)
        extra['disagreements_checked'] = sum(len(r.findings) for r in regen)
    if tier == 'thorough' and battery and not only_rule:
        from . import battery as bat
        extra['mutant_battery'] = bat.run_for_property(prop, repo)

    known = report.load_known_findings()
    report.clear_violations(prop) if evidence else None
    nviol = 0
    known_printed = []
    if not quiet:
        print(f'# {prop} tier={tier} repo={repo} modules={stats["modules"]} functions={stats["functions"]} '
              f'classes={stats["classes"]} digest={stats["source_digest"]}')
    for r in results:
        if not quiet:
            print(f'  rule {r.rule}: {len(r.instances)} instances discharged, {len(r.findings)} failed'
                  + (f', {r.unresolved} unresolved' if r.unresolved else '')
                  + (' [exhaustive]' if r.exhaustive else ''))
            for i in r.infos:
                print(f'    INFO {i}')
        for f in r.findings:
            k = f.key(prop)
            if k in known:
                line = f'KNOWN-FINDING: property={prop} rule={f.rule} construct={f.construct} detail={f.detail} :: {known[k]}'
                print(line)
                known_printed.append(line)
                continue
            nviol += 1
            path = report.write_violation(prop, nviol, f, repo) if evidence else '-'
            print(f'  {f.where} {f.rule} {f.construct} [{f.detail}]: {f.message}' + (f' (path: {f.path})' if f.path else ''))
            print(f'VIOLATION property={prop} replay={path}')
    for msg in analysis_errors:
        print(f'ANALYSIS-ERROR {msg}')
    wall = time.time() - t0
    if analysis_errors and not nviol:
        # no verdict: do not leave an evidence file that says "held"
        return 2
    if evidence:
        report.write_evidence(prop, tier, spec['level'], results, stats, spec['explanation'],
                              spec['assumptions'], wall, nviol, known_printed, extra=extra, repo=repo)
    if not quiet:
        print(f'# {prop}: {"VIOLATED" if nviol else "held"} '
              f'({sum(len(r.instances) for r in results)} obligations discharged, {nviol} violations, '
              f'{len(known_printed)} known findings) in {wall:.2f}s')
    return (1 if nviol else 0), results


def main(argv=None):
    ap = argparse.ArgumentParser(prog='check')
    ap.add_argument('prop')
    ap.add_argument('--tier', default=os.environ.get('VERIF_TIER', 'quick'), choices=['quick', 'thorough'])
    ap.add_argument('--repo', default='/repo')
    ap.add_argument('--replay')
    ap.add_argument('--no-evidence', action='store_true')
    ap.add_argument('--no-battery', action='store_true')
    ap.add_argument('--rule')
    ap.add_argument('--findings-json', help='write the findings of this run as JSON (self-test use)')
    args = ap.parse_args(argv)
    try:
        only_rule = args.rule
        if args.replay:
            with open(args.replay, encoding='utf-8') as f:
                v = json.load(f)
            only_rule = v['rule']
            print(f'# replaying rule {v["rule"]} on {v["construct"]} [{v["detail"]}]')
        out = run_property(args.prop, args.tier, args.repo,
                           evidence=not (args.no_evidence or args.replay or os.path.abspath(args.repo) != '/repo'),
                           only_rule=only_rule, battery=not args.no_battery)
        if isinstance(out, int):
            return out
        code, results = out
        if args.findings_json:
            import dataclasses
            with open(args.findings_json, 'w', encoding='utf-8') as f:
                known = report.load_known_findings()
                json.dump([dict(dataclasses.asdict(x), known=x.key(args.prop) in known) for r in results for x in r.findings], f)
        if args.replay:
            hit = [x for r in results for x in r.findings
                   if (x.rule, x.construct, x.detail) == (v['rule'], v['construct'], v['detail'])]
            print('REPRODUCED' if hit else 'NOT-REPRODUCED')
            return 1 if hit else 0
        return code
    except AnalysisError as exc:
        print(f'ANALYSIS-ERROR {exc}')
        return 2
    except Exception:  # a crash of the checker is never a verdict
        print('ANALYSIS-ERROR checker raised:')
        traceback.print_exc(file=sys.stdout)
        return 2


if __name__ == '__main__':
    sys.exit(main())
