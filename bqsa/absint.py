"""Abstract type interpreter over function bodies of the package.

Domain: finite sets of *type atoms* (real class objects of the libraries
beanquery is typed against, plus synthetic classes for package classes), with
a little structure (fixed tuples, homogeneous collections, records) and TOP.

Transfer functions for Python's own operators, attributes, methods and
whitelisted library callables are obtained by applying the primitive to a
fixed set of representative sample values of each atom (never any beanquery
code): the union of observed result types is the abstract result and the
observed exception classes are recorded as effects.  TypeError/AttributeError
observed for *every* sample combination of an atom combination is a definite
type error for that combination.

The interpreter is flow sensitive with refinement on `is None`, truthiness,
`isinstance`, equality with constants and early exits, and memoises summaries
of package functions.  Anything it does not understand evaluates to TOP and
TOP never produces a report.
"""
from __future__ import annotations

import ast
import copy as _copy
import dataclasses
import datetime
import decimal
import itertools
import operator
import re
import textwrap
import typing
from decimal import Decimal

from dateutil.relativedelta import relativedelta, weekday as rd_weekday
from beancount.core import data, amount, position, inventory, convert, prices, getters
from beancount.core import account as bc_account
from beancount.core import account_types as bc_account_types
from beancount.core.compare import hash_entry
from beancount.core.number import ZERO

from .loader import FuncInfo, ClassInfo, AnalysisError

NoneT = type(None)


class _Top:
    def __repr__(self):
        return 'TOP'


TOP = _Top()


class Val:
    """An opaque non-NULL value (result of evaluating an operand node)."""


@dataclasses.dataclass(frozen=True)
class Obj:
    obj: object


@dataclasses.dataclass
class Tup:
    items: tuple


@dataclasses.dataclass
class Coll:
    kind: type
    elem: object
    key: object = None


@dataclasses.dataclass
class Struct:
    name: str
    fields: dict
    pytype: object = None
    default: object = None     # value of unknown attributes (None -> TOP)
    cls: object = None         # ClassInfo: methods resolve to bound package functions


@dataclasses.dataclass
class Meth:
    base: object
    name: str


@dataclasses.dataclass
class Fn:
    fi: FuncInfo
    closure: dict = dataclasses.field(default_factory=dict)
    bound: object = None


@dataclasses.dataclass(frozen=True)
class NodeRef:
    tag: str
    result: object = None     # abstract result of evaluating the node (default: NULL or an opaque value)


def A(*ts):
    return frozenset(ts)


def is_atoms(v):
    return isinstance(v, frozenset)


def atoms_of(v):
    """Flatten a value to a frozenset of type atoms, or TOP."""
    if v is TOP:
        return TOP
    if is_atoms(v):
        return v
    if isinstance(v, Tup):
        return A(tuple)
    if isinstance(v, Coll):
        return A(v.kind)
    if isinstance(v, Struct):
        return A(v.pytype) if v.pytype is not None else TOP
    if isinstance(v, Obj):
        if isinstance(v.obj, type) or callable(v.obj) or isinstance(v.obj, type(re)):
            return TOP
        return A(type(v.obj))
    if isinstance(v, NodeRef):
        return TOP
    return TOP


def join(a, b):
    if a is TOP or b is TOP:
        return TOP
    if isinstance(a, Tup) and isinstance(b, Tup) and len(a.items) == len(b.items):
        return Tup(tuple(join(x, y) for x, y in zip(a.items, b.items)))
    if isinstance(a, Coll) and isinstance(b, Coll) and a.kind is b.kind:
        return Coll(a.kind, join(a.elem, b.elem), a.key)
    if isinstance(a, Struct) and isinstance(b, Struct) and a.name == b.name:
        return a
    if isinstance(a, Obj) and isinstance(b, Obj) and a.obj is b.obj:
        return a
    if isinstance(a, Fn) and isinstance(b, Fn) and a.fi is b.fi:
        return a
    x, y = atoms_of(a), atoms_of(b)
    if x is TOP or y is TOP:
        return TOP
    return x | y


def join_all(vs):
    out = None
    for v in vs:
        out = v if out is None else join(out, v)
    return out if out is not None else A()


# ----------------------------------------------------------------------
# sample values

_A1 = amount.Amount(Decimal('1.5'), 'USD')
_A2 = amount.Amount(Decimal('-3'), 'EUR')
_C1 = position.Cost(Decimal('2'), 'USD', datetime.date(2020, 1, 1), None)
_P1 = position.Position(_A1, _C1)
_P2 = position.Position(_A2, None)
_POSTING = data.Posting('Assets:A', _A1, _C1, None, None, {'filename': 'f', 'lineno': 1})
_POSTING2 = data.Posting('Income:B', _A2, None, _A1, '!', None)
_TXN = data.Transaction({'filename': 'f', 'lineno': 1}, datetime.date(2020, 1, 1), '*', 'p', 'n',
                        frozenset({'t'}), frozenset(), [_POSTING, _POSTING2])
_META = {'filename': 'f', 'lineno': 1}
_OPEN = data.Open(_META, datetime.date(2020, 1, 1), 'Assets:A', ['USD'], None)
_CLOSE = data.Close(_META, datetime.date(2021, 1, 1), 'Assets:A')
_COMMODITY = data.Commodity(_META, datetime.date(2020, 1, 1), 'USD')

SAMPLES = {
    int: [3, 0, -2],
    bool: [True, False],
    Decimal: [Decimal('1.5'), Decimal('0'), Decimal('-2.25')],
    str: ['abc', '', '12'],
    datetime.date: [datetime.date(2020, 2, 3), datetime.date(1999, 12, 31)],
    datetime.datetime: [datetime.datetime(2020, 2, 3, 4, 5)],
    datetime.timedelta: [datetime.timedelta(days=1), datetime.timedelta(0)],
    relativedelta: [relativedelta(days=2), relativedelta(months=1)],
    amount.Amount: [_A1, _A2],
    position.Position: [_P1, _P2],
    position.Cost: [_C1],
    inventory.Inventory: [inventory.Inventory([_P1]), inventory.Inventory()],
    set: [{'a'}, set()],
    frozenset: [frozenset({'a'}), frozenset()],
    list: [['a'], []],
    tuple: [('a',), ()],
    dict: [{'a': 1}, {}],
    data.Transaction: [_TXN],
    data.Posting: [_POSTING, _POSTING2],
    data.Open: [_OPEN],
    data.Close: [_CLOSE],
    data.Commodity: [_COMMODITY],
    NoneT: [None],
    re.Match: [re.search('(a)', 'a')],
    object: [object()],
    float: [1.5],
    data.Booking: [data.Booking.STRICT],
}
# extra values only fed to whitelisted conversion callables (never to operators)
EDGE_SAMPLES = {
    int: [2 ** 40, 10 ** 11],
    Decimal: [Decimal('NaN'), Decimal('Infinity')],
    str: ['2020-01-02', 'x', '1.5'],
}
for _cls in (data.Price, data.Balance, data.Note, data.Event, data.Document, data.Query, data.Pad, data.Custom):
    pass   # directive records other than Transaction are typed through annotations only

# Invariants of *loaded* (booked) ledgers that beancount's annotations do not express: the loader
# completes every posting, so units is never missing and cost is a Cost (CostSpec only exists before booking).
FIELD_INVARIANTS = {
    (data.Posting, 'units'): frozenset({amount.Amount}),
    (data.Posting, 'cost'): frozenset({position.Cost, NoneT}),
}

KIND = {set: 'coll', frozenset: 'coll', list: 'coll', tuple: 'coll'}


def conforms(t, decl):
    """Is a value of exact type `t` acceptable for a column/function declared `decl`?"""
    if t is NoneT or decl is object:
        return True
    if t is Val:
        return True
    if KIND.get(t) and KIND.get(decl):
        return True
    # a package-defined tag class for plain dicts (sources.beancount.Metadata announces dict values)
    if t is dict and isinstance(decl, type) and issubclass(decl, dict) and \
            getattr(decl, '__module__', '').startswith('beanquery'):
        return True
    # BQL keeps booleans and integers apart (separate overloads, renderers, literals); Python does not: a bool under a column announced
    # as int prints as True / False and names pivot blocks `True/x`
    if t is bool and decl is int:
        return False
    # a datetime is a date for isinstance only: it neither compares with nor subtracts from the dates of the ledger (TypeError),
    # and renders with a time of day
    if t is datetime.datetime and decl is datetime.date:
        return False
    try:
        return issubclass(t, decl)
    except TypeError:
        return False


_TRUTH = {}


def truthiness(t):
    """-> (can be true, can be false, exception class name raised by bool() or None) for values of atom t."""
    if t in _TRUTH:
        return _TRUTH[t]
    if t is NoneT:
        r = (False, True, None)
    elif t is Val:
        r = (True, True, None)
    else:
        ss = samples_for(t)
        if ss is None:
            r = (True, True, None)
        else:
            can_t = can_f = False
            exc = None
            for x in ss:
                try:
                    if x:
                        can_t = True
                    else:
                        can_f = True
                except Exception as e:   # noqa: BLE001
                    exc = type(e).__name__
            if exc and not (can_t or can_f):
                can_t = can_f = True
            r = (can_t or not can_f, can_f, exc)
    _TRUTH[t] = r
    return r


def samples_for(t, edge=False):
    if t in SAMPLES:
        return SAMPLES[t] + (EDGE_SAMPLES.get(t, []) if edge else [])
    for base in getattr(t, '__mro__', ())[1:]:
        if base in SAMPLES and base is not object:
            # synthetic subclasses (Metadata(dict)) behave like their base for Python's operators
            return SAMPLES[base]
    return None


# ----------------------------------------------------------------------
# effects

@dataclasses.dataclass(frozen=True)
class Raised:
    exc: str            # exception class name
    what: str           # primitive description
    atoms: tuple        # operand atom names
    definite: bool      # raised for every sample of this atom combination
    lineno: int = 0


TYPE_ERRORS = ('TypeError', 'AttributeError')

# exception class hierarchy by name, for `except` matching
_GUARD = '?guard:'


def _is_guard_expr(e):
    """A type or NULL test over names and attribute paths only (no calls besides isinstance), whose
    value can be stored in a local and tested later with the same meaning."""
    if isinstance(e, ast.UnaryOp) and isinstance(e.op, ast.Not):
        return _is_guard_expr(e.operand)
    if isinstance(e, ast.BoolOp):
        return all(_is_guard_expr(v) for v in e.values)
    def plain(x):
        while isinstance(x, ast.Attribute):
            x = x.value
        return isinstance(x, ast.Name)
    if isinstance(e, ast.Call) and isinstance(e.func, ast.Name) and e.func.id == 'isinstance' and len(e.args) == 2 \
            and not e.keywords:
        return plain(e.args[0]) and all(plain(x) for x in (e.args[1].elts if isinstance(e.args[1], ast.Tuple) else [e.args[1]]))
    if isinstance(e, ast.Compare) and len(e.ops) == 1 and isinstance(e.ops[0], (ast.Is, ast.IsNot)) \
            and isinstance(e.comparators[0], ast.Constant) and e.comparators[0].value is None:
        return plain(e.left)
    return False


def exc_matches(name, handler_names):
    cls = _EXC.get(name)
    for h in handler_names:
        if h == name:
            return True
        hc = _EXC.get(h)
        if cls is not None and hc is not None and issubclass(cls, hc):
            return True
    return False


import builtins as _b
_EXC = {n: getattr(_b, n) for n in dir(_b) if isinstance(getattr(_b, n), type) and issubclass(getattr(_b, n), BaseException)}
_EXC['InvalidOperation'] = decimal.InvalidOperation
_EXC['DecimalException'] = decimal.DecimalException
_EXC['error'] = re.error
_EXC['ParserError'] = ValueError


# ----------------------------------------------------------------------
# library knowledge that cannot be sampled (needs ledger state) -- the trusted table

def _const(*ts):
    return lambda it, args, kw, node: A(*ts)


def _ident(i):
    return lambda it, args, kw, node: args[i] if len(args) > i else TOP


CALL_TABLE = {
    convert.get_units: _const(amount.Amount),
    convert.get_cost: _const(amount.Amount),
    convert.get_weight: _const(amount.Amount),
    convert.get_value: _const(amount.Amount),
    convert.convert_position: _const(amount.Amount),
    convert.convert_amount: _const(amount.Amount),
    bc_account.root: _const(str),
    bc_account.parent: _const(str, NoneT),
    bc_account.leaf: _const(str, NoneT),
    hash_entry: _const(str),
    bc_account_types.get_account_sign: _const(int),
    bc_account_types.get_account_sort_key: lambda it, a, k, n: Tup((A(int), A(str))),
    prices.get_price: lambda it, a, k, n: Tup((A(datetime.date, NoneT), A(Decimal, NoneT))),
    getters.get_entry_accounts: lambda it, a, k, n: Coll(set, A(str)),
    re.search: _const(re.Match, NoneT),
    re.match: _const(re.Match, NoneT),
    re.fullmatch: _const(re.Match, NoneT),
    re.sub: _const(str),
    re.subn: lambda it, a, k, n: Tup((A(str), A(int))),
    re.split: lambda it, a, k, n: Coll(list, A(str, NoneT)),
    # one string per match without groups or with one group, a tuple of strings with several groups
    re.findall: lambda it, a, k, n: Coll(list, A(str, tuple)),
    textwrap.shorten: _const(str),
    _copy.copy: _ident(0),
    datetime.datetime.strptime: _const(datetime.datetime),
    datetime.date.today: _const(datetime.date),
    datetime.datetime.today: _const(datetime.datetime),
    datetime.datetime.now: _const(datetime.datetime),
    datetime.datetime.utcnow: _const(datetime.datetime),
    operator.not_: _const(bool),
    sorted: lambda it, a, k, n: Coll(list, a[0].elem if a and isinstance(a[0], Coll) else TOP),
    any: _const(bool),
    all: _const(bool),
    isinstance: _const(bool),
    issubclass: _const(bool),
    filter: lambda it, a, k, n: Coll(list, (frozenset(x for x in a[1].elem if x is not NoneT)
                                            if len(a) > 1 and isinstance(a[1], Coll) and is_atoms(a[1].elem)
                                            and isinstance(a[0], frozenset) and a[0] == A(NoneT) else
                                            (a[1].elem if len(a) > 1 and isinstance(a[1], Coll) else TOP))),
    repr: _const(str),
    str: _const(str),
    bool: _const(bool),
    type: lambda it, a, k, n: TOP,
}
try:
    import dateutil.parser as _dp
    CALL_TABLE[_dp.parse] = _const(datetime.datetime)
except ImportError:   # pragma: no cover
    pass

# value-dependent exceptions of library callables that cannot be sampled
CALL_RAISES = {
    datetime.datetime.strptime: ('ValueError',),
    re.search: ('error',), re.match: ('error',), re.fullmatch: ('error',), re.sub: ('error',), re.findall: ('error',),
    re.compile: ('error',),
}

# primitives that may be applied to sample values (pure, total in time)
CALL_SAMPLED = {int, len, abs, round, Decimal, float, datetime.date, datetime.timedelta,
                operator.contains, operator.add, operator.sub, operator.mul, operator.truediv, operator.mod,
                operator.eq, operator.ne, operator.lt, operator.le, operator.gt, operator.ge, operator.neg,
                position.Position, amount.Amount, hash}
EDGE_CALLS = {int, Decimal, datetime.date, float}

# constructors whose result is simply an instance (not sampled: need structured arguments)
CONSTRUCTS = {inventory.Inventory, relativedelta, rd_weekday, list, tuple, set, dict, frozenset}

METHODS_SAMPLED = {
    'upper', 'lower', 'strip', 'rstrip', 'lstrip', 'split', 'startswith', 'endswith', 'format', 'join',
    'strftime', 'weekday', 'isoweekday', 'isocalendar', 'total_seconds', 'date', 'group', 'groups',
    'is_empty', 'get_currency_units', 'currencies', 'keys', 'values', 'items', 'copy', 'get_positions',
    'get', 'replace', 'isoformat', 'toordinal', 'quantize', 'normalize', 'as_tuple', '__neg__',
}
METHOD_TABLE = {
    (inventory.Inventory, 'reduce'): _const(inventory.Inventory),
    (inventory.Inventory, 'add_position'): _const(NoneT, tuple),
    (inventory.Inventory, 'add_amount'): _const(NoneT, tuple),
    (inventory.Inventory, 'add_inventory'): _const(inventory.Inventory),
}

_BINOPS = {ast.Add: operator.add, ast.Sub: operator.sub, ast.Mult: operator.mul, ast.Div: operator.truediv,
           ast.Mod: operator.mod, ast.FloorDiv: operator.floordiv, ast.Pow: None}
_CMPOPS = {ast.Lt: operator.lt, ast.Gt: operator.gt, ast.LtE: operator.le, ast.GtE: operator.ge,
           ast.Eq: operator.eq, ast.NotEq: operator.ne,
           ast.In: lambda a, b: a in b, ast.NotIn: lambda a, b: a not in b}


class Frame:
    def __init__(self):
        self.returns = []    # list of (value, node)
        self.raises = set()  # Raised
        self.explicit_raises = []   # (class name, node)
        self.unknown = 0


class Interp:
    """One interpreter per analysis run; hooks let rules observe calls."""

    def __init__(self, P, reg=None, call_hook=None, max_depth=6):
        self.P = P
        self.reg = reg
        self.call_hook = call_hook
        self.summaries = {}
        self.depth = 0
        self.max_depth = max_depth
        self.log = set()
        self.sample_cache = {}

    # ------------------------------------------------------------------ sampling
    def sample(self, what, f, argvals, frame, node=None, edge=False, kw=None):
        sets = []
        for v in argvals:
            a = atoms_of(v)
            if a is TOP:
                return TOP
            sets.append(sorted(a, key=lambda t: t.__name__))
        out = set()
        for combo in itertools.product(*sets):
            if Val in combo:
                return TOP
            key = (what, combo, edge, tuple(sorted((kw or {}).items())) if kw else None)
            if key in self.sample_cache:
                types_, excs = self.sample_cache[key]
            else:
                pools = [samples_for(t, edge) for t in combo]
                if any(p is None for p in pools):
                    return TOP
                types_, excs, n = set(), {}, 0
                for vals in itertools.product(*pools):
                    n += 1
                    try:
                        vals = [(_copy.copy(x) if isinstance(x, (inventory.Inventory, list, set, dict)) else x) for x in vals]
                        r = f(*vals)
                        types_.add(type(r))
                    except RecursionError:
                        raise
                    except BaseException as e:   # noqa: BLE001 - the primitive's behaviour is the datum
                        excs[type(e).__name__] = excs.get(type(e).__name__, 0) + 1
                excs = {k: (v == n) for k, v in excs.items()}
                self.sample_cache[key] = (types_, excs)
            names = tuple(t.__name__ for t in combo)
            for k, definite in excs.items():
                frame.raises.add(Raised(k, what, names, definite and not types_, getattr(node, 'lineno', 0)))
            out |= types_
        return frozenset(out)

    # ------------------------------------------------------------------ expressions
    def ev(self, e, env, frame):
        m = getattr(self, 'e_' + type(e).__name__, None)
        if m is None:
            frame.unknown += 1
            return TOP
        return m(e, env, frame)

    def path_of(self, e):
        parts = []
        while isinstance(e, ast.Attribute):
            parts.append(e.attr)
            e = e.value
        if isinstance(e, ast.Name):
            parts.append(e.id)
            return '.'.join(reversed(parts))
        return None

    def e_Constant(self, e, env, frame):
        return A(type(e.value))

    def e_Name(self, e, env, frame):
        if e.id in env:
            return env[e.id]
        g = env.get('__globals__')
        if g is not None:
            v = g(e.id)
            if v is not None:
                return v
        if hasattr(_b, e.id):
            return Obj(getattr(_b, e.id))
        frame.unknown += 1
        return TOP

    def e_JoinedStr(self, e, env, frame):
        for v in e.values:
            if isinstance(v, ast.FormattedValue):
                self.ev(v.value, env, frame)
        return A(str)

    def e_Tuple(self, e, env, frame):
        return Tup(tuple(self.ev(x, env, frame) for x in e.elts))

    def e_List(self, e, env, frame):
        return Coll(list, join_all([self.ev(x, env, frame) for x in e.elts]) if e.elts else A())

    def e_Set(self, e, env, frame):
        return Coll(set, join_all([self.ev(x, env, frame) for x in e.elts]))

    def e_Dict(self, e, env, frame):
        return Coll(dict, join_all([self.ev(x, env, frame) for x in e.values]) if e.values else A())

    def _comp(self, e, env, frame, kind, elt):
        env = dict(env)
        for gen in e.generators:
            it = self.ev(gen.iter, env, frame)
            self.bind_target(gen.target, self.elem_of(it, frame, gen.iter), env)
            for cond in gen.ifs:
                self.ev(cond, env, frame)
                env, _ = self.refine(cond, env, frame)
                if env is None:
                    return Coll(kind, A())
        return Coll(kind, self.ev(elt, env, frame))

    def e_ListComp(self, e, env, frame):
        return self._comp(e, env, frame, list, e.elt)

    def e_SetComp(self, e, env, frame):
        return self._comp(e, env, frame, set, e.elt)

    def e_GeneratorExp(self, e, env, frame):
        return self._comp(e, env, frame, list, e.elt)

    def e_DictComp(self, e, env, frame):
        return self._comp(e, env, frame, dict, e.value)

    def e_IfExp(self, e, env, frame):
        self.truth_test(self.ev(e.test, env, frame), frame, e.test)
        t_env, f_env = self.refine(e.test, env, frame)
        vals = []
        if t_env is not None:
            vals.append(self.ev(e.body, t_env, frame))
        if f_env is not None:
            vals.append(self.ev(e.orelse, f_env, frame))
        return join_all(vals)

    def e_BinOp(self, e, env, frame):
        l, r = self.ev(e.left, env, frame), self.ev(e.right, env, frame)
        f = _BINOPS.get(type(e.op))
        if f is None:
            return TOP
        if isinstance(e.op, ast.Mod) and atoms_of(l) == A(str):
            return A(str)
        return self.sample(type(e.op).__name__, f, [l, r], frame, e)

    def e_UnaryOp(self, e, env, frame):
        v = self.ev(e.operand, env, frame)
        if isinstance(e.op, ast.Not):
            return A(bool)
        if isinstance(e.op, ast.USub):
            return self.sample('neg', operator.neg, [v], frame, e)
        if isinstance(e.op, ast.UAdd):
            return self.sample('pos', operator.pos, [v], frame, e)
        return TOP

    def e_BoolOp(self, e, env, frame):
        vals = []
        cur = env
        for i, x in enumerate(e.values):
            if cur is None:
                break
            v = self.ev(x, cur, frame)
            last = i == len(e.values) - 1
            if not last:
                self.truth_test(v, frame, x)
            t_env, f_env = self.refine(x, cur, frame)
            if isinstance(e.op, ast.And):
                # value escapes here only when falsy (or last)
                vals.append(v if last else self._falsy_part(v))
                cur = t_env
            else:
                vals.append(v if last else self._truthy_part(v))
                cur = f_env
        return join_all(vals)

    @staticmethod
    def _falsy_part(v):
        a = atoms_of(v)
        if a is TOP:
            return TOP
        return frozenset(t for t in a if truthiness(t)[1])

    @staticmethod
    def _truthy_part(v):
        a = atoms_of(v)
        if a is TOP:
            return TOP
        return frozenset(t for t in a if truthiness(t)[0])

    def truth_test(self, v, frame, node=None):
        """Record the effect of using `v` in a boolean context (Inventory.__bool__ raises)."""
        a = atoms_of(v)
        if a is TOP:
            return
        for t in a:
            exc = truthiness(t)[2]
            if exc:
                frame.raises.add(Raised(exc, 'bool()', (t.__name__,), True, getattr(node, 'lineno', 0)))

    def e_Compare(self, e, env, frame):
        l = self.ev(e.left, env, frame)
        for op, c in zip(e.ops, e.comparators):
            r = self.ev(c, env, frame)
            if isinstance(op, (ast.Is, ast.IsNot)):
                l = r
                continue
            f = _CMPOPS[type(op)]
            la, ra = atoms_of(l), atoms_of(r)
            if isinstance(op, (ast.Eq, ast.NotEq)):
                l = r
                continue
            if isinstance(op, (ast.In, ast.NotIn)) and ra is not TOP and NoneT in ra:
                frame.raises.add(Raised('TypeError', type(op).__name__, ('NoneType',), True, e.lineno))
            self.sample(type(op).__name__, f, [l, r], frame, e)
            l = r
        return A(bool)

    def e_Attribute(self, e, env, frame):
        p = self.path_of(e)
        if p is not None and p in env:
            return env[p]
        base = self.ev(e.value, env, frame)
        return self.getattr_value(base, e.attr, frame, e)

    def getattr_value(self, base, attr, frame, node=None):
        if base is TOP:
            return TOP
        if isinstance(base, Obj):
            try:
                o = getattr(base.obj, attr)
            except AttributeError:
                # a class synthesised from the package's source stands for the real one, whose body binds the name (enum members,
                # class constants)
                if isinstance(base.obj, type) and self._source_class_has(base.obj, attr):
                    return TOP
                frame.raises.add(Raised('AttributeError', f'.{attr}', (type(base.obj).__name__,), True,
                                        getattr(node, 'lineno', 0)))
                return TOP
            return Obj(o)
        if isinstance(base, Struct):
            if attr in base.fields:
                return base.fields[attr]
            if base.cls is not None:
                m = self.P.find_method(base.cls, attr)
                if isinstance(m, FuncInfo):
                    if any(isinstance(d, ast.Name) and d.id == 'singledispatchmethod' for d in m.node.decorator_list):
                        return TOP
                    if any(isinstance(d, ast.Name) and d.id == 'staticmethod' for d in m.node.decorator_list):
                        return Fn(m, {})          # no receiver is passed
                    return Fn(m, {}, base)
            if base.pytype is not None:
                return self.getattr_value(A(base.pytype), attr, frame, node)
            return base.default if base.default is not None else TOP
        if isinstance(base, Tup):
            return Meth(base, attr)
        if isinstance(base, Coll):
            return Meth(base, attr)
        if isinstance(base, (Fn, Meth, NodeRef)):
            return TOP
        out = []
        for t in sorted(base, key=lambda t: t.__name__):
            if t is Val:
                return TOP
            if t is NoneT:
                frame.raises.add(Raised('AttributeError', f'.{attr}', ('NoneType',), True, getattr(node, 'lineno', 0)))
                continue
            if t is type:
                return TOP          # some class, which one is not known: its attributes (enum members, class constants) are not either
            hints = {}
            try:
                hints = typing.get_type_hints(t)
            except Exception:   # noqa: BLE001
                pass
            if (t, attr) in FIELD_INVARIANTS:
                out.append(FIELD_INVARIANTS[(t, attr)])
                continue
            if attr in hints:
                out.append(self.from_hint(hints[attr]))
                continue
            ss = samples_for(t)
            if ss is None:
                if hasattr(t, attr) or self._source_class_has(t, attr):
                    return TOP
                frame.raises.add(Raised('AttributeError', f'.{attr}', (t.__name__,), True, getattr(node, 'lineno', 0)))
                continue
            try:
                v = getattr(ss[0], attr)
            except AttributeError:
                frame.raises.add(Raised('AttributeError', f'.{attr}', (t.__name__,), True, getattr(node, 'lineno', 0)))
                continue
            if callable(v) and not isinstance(v, type):
                return Meth(base, attr)
            out.append(A(type(v)))
        return join_all(out) if out else A()

    def _source_class_has(self, t, attr):
        """A class synthesised from the package's source: does it (or a base) bind the attribute in its body, list it in __slots__,
        define it as a method or property, or assign `self.<attr>` in any of its methods?"""
        work, seen = [t], set()
        while work:
            c = work.pop()
            if c in seen:
                continue
            seen.add(c)
            work.extend(c.__bases__)
            ci = self.reg.synth_info.get(c)
            if ci is None:
                continue
            if attr in ci.methods:
                return True
            for n in ast.walk(ci.node):
                if isinstance(n, ast.Attribute) and n.attr == attr and isinstance(n.ctx, ast.Store) and isinstance(n.value, ast.Name) \
                        and n.value.id in ('self', 'cls'):
                    return True
                if isinstance(n, (ast.Assign, ast.AnnAssign)):
                    tg = n.targets if isinstance(n, ast.Assign) else [n.target]
                    if any(isinstance(x, ast.Name) and x.id == attr for x in tg) and n in ci.node.body:
                        return True
                    if any(isinstance(x, ast.Name) and x.id == '__slots__' for x in tg) and n.value is not None and \
                            any(isinstance(e, ast.Constant) and e.value == attr for e in ast.walk(n.value)):
                        return True
        return False

    def from_hint(self, h):
        o = typing.get_origin(h)
        if o is typing.Union:
            return join_all([self.from_hint(a) for a in typing.get_args(h)])
        if o is not None:
            args = typing.get_args(h)
            if o in (list, set, frozenset) and args:
                return Coll(o, self.from_hint(args[0]))
            if o is dict and len(args) == 2:
                return Coll(dict, self.from_hint(args[1]))
            if o is tuple and args and Ellipsis not in args:
                return Tup(tuple(self.from_hint(a) for a in args))
            h = o
        if h is typing.Any:
            return TOP
        if h is NoneT or h is None:
            return A(NoneT)
        if isinstance(h, type):
            if h is object:
                return TOP
            return A(h)
        return TOP

    def elem_of(self, v, frame, node=None):
        if isinstance(v, Coll):
            if v.kind is dict:
                return v.key if v.key is not None else TOP
            return v.elem
        if isinstance(v, Tup):
            return join_all(v.items) if v.items else A()
        a = atoms_of(v)
        if a is TOP:
            return TOP
        out = []
        for t in a:
            if t is NoneT:
                frame.raises.add(Raised('TypeError', 'iter', ('NoneType',), True, getattr(node, 'lineno', 0)))
            elif t is str:
                out.append(A(str))
            elif t is inventory.Inventory:
                out.append(A(position.Position))
            elif t in (int, bool, Decimal, datetime.date):
                frame.raises.add(Raised('TypeError', 'iter', (t.__name__,), True, getattr(node, 'lineno', 0)))
            else:
                return TOP
        return join_all(out) if out else A()

    def e_Subscript(self, e, env, frame):
        base = self.ev(e.value, env, frame)
        if isinstance(e.slice, ast.Slice):
            for x in (e.slice.lower, e.slice.upper, e.slice.step):
                if x is not None:
                    self.ev(x, env, frame)
            a = atoms_of(base)
            if a is not TOP and a <= {str, list, tuple}:
                return base if not isinstance(base, Tup) else A(tuple)
            return TOP
        idx = self.ev(e.slice, env, frame)
        if isinstance(base, Tup) and isinstance(e.slice, ast.Constant) and isinstance(e.slice.value, int):
            try:
                return base.items[e.slice.value]
            except IndexError:
                frame.raises.add(Raised('IndexError', 'subscript', ('tuple',), True, e.lineno))
                return A()
        if isinstance(base, Tup):
            return join_all(base.items)
        if isinstance(base, Coll):
            if base.kind is dict:
                frame.raises.add(Raised('KeyError', 'subscript', ('dict',), False, e.lineno))
            elif base.kind in (list, tuple):
                frame.raises.add(Raised('IndexError', 'subscript', (base.kind.__name__,), False, e.lineno))
            else:
                frame.raises.add(Raised('TypeError', 'subscript', (base.kind.__name__,), True, e.lineno))
            return base.elem
        if isinstance(base, Struct):
            if isinstance(e.slice, ast.Constant) and e.slice.value in base.fields:
                return base.fields[e.slice.value]
            return base.default if base.default is not None else TOP
        a = atoms_of(base)
        if a is TOP:
            return TOP
        out = []
        for t in sorted(a, key=lambda t: (t is not NoneT, t.__name__)):
            if t is NoneT:
                frame.raises.add(Raised('TypeError', 'subscript', ('NoneType',), True, e.lineno))
            elif t is str:
                out.append(A(str))
                frame.raises.add(Raised('IndexError', 'subscript', ('str',), False, e.lineno))
            elif isinstance(t, type) and issubclass(t, dict):
                frame.raises.add(Raised('KeyError', 'subscript', (t.__name__,), False, e.lineno))
                return TOP
            elif t in (list, tuple):
                frame.raises.add(Raised('IndexError', 'subscript', (t.__name__,), False, e.lineno))
                return TOP
            elif t in (int, bool, Decimal, datetime.date, set, frozenset):
                frame.raises.add(Raised('TypeError', 'subscript', (t.__name__,), True, e.lineno))
            else:
                return TOP
        return join_all(out) if out else A()

    def e_Lambda(self, e, env, frame):
        return TOP

    def e_Starred(self, e, env, frame):
        return self.ev(e.value, env, frame)

    def e_NamedExpr(self, e, env, frame):
        v = self.ev(e.value, env, frame)
        return v

    # ------------------------------------------------------------------ calls
    def e_Call(self, e, env, frame):
        f = self.ev(e.func, env, frame)
        args = []
        star = False
        starred = []
        for a in e.args:
            if isinstance(a, ast.Starred):
                star = True
                starred.append(self.ev(a.value, env, frame))
            else:
                args.append(self.ev(a, env, frame))
        kw = {k.arg: self.ev(k.value, env, frame) for k in e.keywords}
        if self.call_hook is not None:
            r = self.call_hook(self, e, f, args + starred, kw, env, frame)
            if r is not None:
                return r
        if star:
            return self.call_value(f, None, kw, frame, e)
        return self.call_value(f, args, kw, frame, e)

    def call_value(self, f, args, kw, frame, node):
        if f is TOP:
            return TOP
        if isinstance(f, NodeRef):
            return f.result if f.result is not None else A(NoneT, Val)
        if isinstance(f, Fn):
            if args is None:
                return TOP
            if f.bound is not None:
                args = [f.bound] + list(args)
            return self.call_function(f.fi, args, kw, frame, node, f.closure)
        if isinstance(f, Meth):
            return self.call_method(f, args or [], kw, frame, node)
        if isinstance(f, Obj):
            o = f.obj
            try:
                hash(o)
            except TypeError:
                return TOP
            if args is None:
                if isinstance(o, type):
                    return A(o)
                return TOP
            if o in CALL_RAISES:
                for x in CALL_RAISES[o]:
                    frame.raises.add(Raised(x, getattr(o, '__name__', str(o)), (), False, getattr(node, 'lineno', 0)))
            if o in (bool, operator.not_) and args:
                # bool(x) and operator.not_(x) use the truth value of x: whatever a boolean context does for its type
                # (Inventory.__bool__ raises) they do too
                self.truth_test(args[0], frame, node)
            if o in CALL_TABLE:
                return CALL_TABLE[o](self, args, kw, node)
            if o in CALL_SAMPLED:
                if kw:
                    names = sorted(kw)
                    return self.sample(getattr(o, '__name__', str(o)) + '(**' + ','.join(names) + ')',
                                       lambda *xs, _o=o, _n=len(args), _names=names: _o(*xs[:_n], **dict(zip(_names, xs[_n:]))),
                                       list(args) + [kw[n] for n in names], frame, node, edge=o in EDGE_CALLS)
                return self.sample(getattr(o, '__name__', str(o)) + '()', o, args, frame, node, edge=o in EDGE_CALLS)
            if o in CONSTRUCTS:
                if o in (list, tuple, set, frozenset) and args:
                    el = self.elem_of(args[0], frame, node)
                    return Coll(o, el)
                return A(o) if o is not rd_weekday else TOP
            if isinstance(o, type):
                return A(o)
            try:
                h = typing.get_type_hints(o).get('return')
            except Exception:   # noqa: BLE001
                h = None
            if h is not None:
                return self.from_hint(h)
            frame.unknown += 1
            return TOP
        a = atoms_of(f)
        if a is not TOP and a and all(t in (NoneT, int, str, bool, Decimal, datetime.date) for t in a):
            for t in a:
                frame.raises.add(Raised('TypeError', 'call', (t.__name__,), True, getattr(node, 'lineno', 0)))
            return A()
        return TOP

    def call_method(self, m, args, kw, frame, node):
        base, name = m.base, m.name
        if isinstance(base, Coll):
            if base.kind is dict:
                if name == 'get':
                    d = args[1] if len(args) > 1 else A(NoneT)
                    return join(base.elem, d)
                if name == 'items':
                    return Coll(list, Tup((base.key if base.key is not None else TOP, base.elem)))
                if name == 'values':
                    return Coll(list, base.elem)
                if name == 'keys':
                    return Coll(list, base.key if base.key is not None else TOP)
            if name in ('append', 'add', 'extend', 'update', 'sort', 'clear', 'insert', 'remove', 'discard'):
                return A(NoneT)
            if name == 'copy':
                return base
            if name == 'index':
                frame.raises.add(Raised('ValueError', '.index', (base.kind.__name__,), False, getattr(node, 'lineno', 0)))
                return A(int)
            if name == 'pop':
                return base.elem
            return TOP
        if isinstance(base, Tup):
            return TOP
        a = atoms_of(base)
        if a is TOP:
            return TOP
        out = []
        for t in sorted(a, key=lambda t: t.__name__):
            if t is NoneT:
                frame.raises.add(Raised('AttributeError', f'.{name}', ('NoneType',), True, getattr(node, 'lineno', 0)))
                continue
            if t is Val:
                return TOP
            key = next(((c, name) for c in getattr(t, '__mro__', (t,)) if (c, name) in METHOD_TABLE), None)
            if key is not None:
                out.append(METHOD_TABLE[key](self, args, kw, node))
                continue
            if isinstance(t, type) and issubclass(t, dict) and name == 'get':
                out.append(TOP)
                continue
            if name == 'join' and t is str:
                out.append(A(str))
                if args:
                    el = self.elem_of(args[0], frame, node)
                    ea = atoms_of(el)
                    if ea is not TOP:
                        for x in ea:
                            if x is not str and x is not Val:
                                frame.raises.add(Raised('TypeError', '.join', (x.__name__,), True,
                                                        getattr(node, 'lineno', 0)))
                continue
            if name in METHODS_SAMPLED:
                r = self.sample(f'{t.__name__}.{name}', lambda o, *xs, _n=name: getattr(o, _n)(*xs),
                                [A(t)] + list(args), frame, node)
                out.append(r)
                continue
            frame.unknown += 1
            return TOP
        return join_all(out) if out else A()

    # interprocedural ---------------------------------------------------
    def call_function(self, fi: FuncInfo, args, kw, frame, node, closure=None):
        params = fi.params
        a = fi.node.args
        if a.vararg or a.kwarg:
            return TOP
        env = self.new_env(fi, closure)
        defaults = a.defaults
        fd = len(params) - len(defaults)
        for i, p in enumerate(params):
            if i < len(args):
                env[p] = args[i]
            elif p in kw:
                env[p] = kw[p]
            elif i >= fd:
                env[p] = self.ev(defaults[i - fd], self.new_env(fi, closure), Frame())
            else:
                env[p] = TOP
        key = (id(fi.node), repr(sorted((k, repr(v)) for k, v in env.items() if not k.startswith('__'))))
        if key in self.summaries:
            res, raises = self.summaries[key]
        else:
            if self.depth >= self.max_depth:
                return TOP
            self.summaries[key] = (TOP, set())   # recursion guard
            self.depth += 1
            try:
                sub = self.run_function(fi, env)
            finally:
                self.depth -= 1
            res = join_all([v for v, _ in sub.returns]) if sub.returns else A(NoneT)
            raises = set(sub.raises)
            self.summaries[key] = (res, raises)
        frame.raises |= raises
        return res

    def new_env(self, fi: FuncInfo, closure=None):
        module = fi.module
        P = self.P
        closure = dict(closure or {})
        for k, orig in (getattr(fi, 'bound', None) or {}).items():
            closure.setdefault(k, Fn(orig))          # a decorator's wrapper closed over the function it decorates

        def globals_lookup(name, _m=module):
            if name in closure:
                return closure[name]
            return self.global_value(_m, name, fi)
        return {'__globals__': globals_lookup, '__fi__': fi}

    def global_value(self, module, name, scope=None):
        # enclosing function scopes are handled by closures; here: module globals & imports
        if name in module.imports or name in module.classes or name in module.toplevel_funcs or name in module.assigns:
            d = module.dotted(ast.Name(id=name, ctx=ast.Load()))
            return self.dotted_value(d, module)
        return None

    def dotted_value(self, d, module=None):
        if d is None:
            return None
        if d.split('.')[0] == self.P.PACKAGE:
            tgt = self.P.lookup(d)
            if isinstance(tgt, FuncInfo):
                return Fn(tgt)
            if isinstance(tgt, ClassInfo):
                if self.reg is not None:
                    return Obj(self.reg.synth(tgt))
                return TOP
            if isinstance(tgt, tuple) and tgt[0] == 'assign':
                m, expr = tgt[1], tgt[2]
                # parser.ast: `Name = node('Name', 'field ...')` manufactures a dataclass
                if (isinstance(expr, ast.Call) and isinstance(expr.func, ast.Name) and expr.func.id == 'node'
                        and len(expr.args) == 2 and all(isinstance(a, ast.Constant) for a in expr.args)
                        and self.reg is not None):
                    key = f'{m.name}:{expr.args[0].value}'
                    if key not in self.reg._synth:
                        base = m.classes.get('Node')
                        bases = (self.reg.synth(base),) if base is not None else (object,)
                        t = type(expr.args[0].value, bases, {'__module__': m.name})
                        t.__annotations__ = {f: typing.Any for f in expr.args[1].value.split()}
                        self.reg._synth[key] = t
                    return Obj(self.reg._synth[key])
                fr = Frame()
                return self.ev(expr, {'__globals__': lambda n, _m=m: self.global_value(_m, n)}, fr)
            # a package module: attribute access resolves further
            if tgt is not None and hasattr(tgt, 'imports'):
                return PkgModule(self, tgt)
            return TOP
        if d.startswith('builtins.'):
            o = getattr(_b, d.split('.', 1)[1], None)
            return Obj(o) if o is not None else None
        o = self.P.pyobj(d)
        if o is None:
            return TOP
        return Obj(o)

    def run_function(self, fi: FuncInfo, env):
        frame = Frame()
        self.exec_block(fi.node.body, env, frame)
        return frame

    # ------------------------------------------------------------------ refinement
    def refine(self, test, env, frame):
        """-> (env if test true | None if impossible, env if false | None)."""
        t, f = dict(env), dict(env)
        if isinstance(test, ast.UnaryOp) and isinstance(test.op, ast.Not):
            a, b = self.refine(test.operand, env, frame)
            return b, a
        # a test stored in a local first: `ok = isinstance(x, T)` ... `if ok:` refines as the stored test does
        if isinstance(test, ast.Name) and isinstance(env.get(_GUARD + test.id), ast.AST):
            return self.refine(env[_GUARD + test.id], env, Frame())
        # NULL gates over a whole list: any(x is None for x in L) / all(x is not None for x in L) / None in L
        gate = self._list_null_gate(test)
        if gate is not None:
            name, nonnull_when = gate
            lst = env.get(name)
            if isinstance(lst, Coll) and is_atoms(lst.elem) and NoneT in lst.elem:
                self.ev(test, env, frame)
                clean = Coll(lst.kind, lst.elem - {NoneT}, lst.key)
                if nonnull_when:
                    t[name] = clean
                else:
                    f[name] = clean
                return t, f
        if isinstance(test, ast.BoolOp):
            if isinstance(test.op, ast.And):
                cur = env
                fs = []
                for x in test.values:
                    if cur is None:
                        break
                    a, b = self.refine(x, cur, frame)
                    if b is not None:
                        fs.append(b)
                    cur = a
                fenv = self.join_envs(fs) if fs else None
                return cur, fenv
            cur = env
            ts = []
            for x in test.values:
                if cur is None:
                    break
                a, b = self.refine(x, cur, frame)
                if a is not None:
                    ts.append(a)
                cur = b
            tenv = self.join_envs(ts) if ts else None
            return tenv, cur
        if isinstance(test, ast.Compare) and len(test.ops) == 1:
            p = self.path_of(test.left)
            op = test.ops[0]
            c = test.comparators[0]
            if p is not None:
                v = self.ev(test.left, env, Frame())
                va = atoms_of(v)
                if isinstance(c, ast.Constant) and c.value is None and isinstance(op, (ast.Is, ast.IsNot)) and va is not TOP:
                    isn = va & {NoneT}
                    notn = self._minus(v, NoneT)
                    a, b = (isn, notn) if isinstance(op, ast.Is) else (notn, isn)
                    t[p], f[p] = a, b
                    return (t if atoms_of(a) is TOP or atoms_of(a) else None), (f if atoms_of(b) is TOP or atoms_of(b) else None)
                if isinstance(c, ast.Constant) and isinstance(op, (ast.Is, ast.IsNot)) and c.value in (True, False) \
                        and va is not TOP:
                    yes = va & {bool}
                    a, b = (yes, v) if isinstance(op, ast.Is) else (v, yes)
                    t[p], f[p] = a, b
                    return (t if a else None), f
                if isinstance(op, (ast.In, ast.NotIn)) and va is not TOP and isinstance(c, (ast.Set, ast.Tuple, ast.List)) \
                        and c.elts and all(isinstance(x, ast.Constant) for x in c.elts):
                    # x in {constants}: in the true branch x has the type of one of the constants (numbers compare across types)
                    num = {int, bool, Decimal, float}
                    ctypes = {type(x.value) for x in c.elts}
                    keep = frozenset(x for x in va if x in ctypes or (x in num and ctypes & num) or x is Val)
                    if isinstance(op, ast.In):
                        t[p] = keep
                        return (t if keep else None), f
                    f[p] = keep
                    return t, (f if keep else None)
                if isinstance(op, ast.Eq) and va is not TOP:
                    cv = atoms_of(self.ev(c, env, Frame()))
                    if cv is not TOP and isinstance(c, ast.Constant):
                        # x == const : in the true branch x has the constant's type (or a numeric relative)
                        num = {int, bool, Decimal, float}
                        keep = frozenset(x for x in va if x in cv or (x in num and cv & num) or x is Val)
                        t[p] = keep
                        return (t if keep else None), f
            return t, f
        if isinstance(test, ast.Call) and isinstance(test.func, ast.Name) and test.func.id == 'isinstance' \
                and len(test.args) == 2:
            p = self.path_of(test.args[0])
            if p is not None:
                v = self.ev(test.args[0], env, Frame())
                va = atoms_of(v)
                cls_ = self.ev(test.args[1], env, Frame())
                classes = None
                if isinstance(cls_, Obj) and isinstance(cls_.obj, type):
                    classes = (cls_.obj,)
                elif isinstance(cls_, Tup) and all(isinstance(i, Obj) and isinstance(i.obj, type) for i in cls_.items):
                    classes = tuple(i.obj for i in cls_.items)
                if classes and va is not TOP:
                    yes = frozenset(x for x in va if x is not NoneT and x is not Val and issubclass(x, classes))
                    no = va - yes
                    t[p], f[p] = yes, no
                    return (t if yes else None), (f if no else None)
                if classes and va is TOP:
                    t[p] = frozenset(classes)
                    return t, f
            return t, f
        p = self.path_of(test)
        if p is not None:
            v = self.ev(test, env, Frame())
            va = atoms_of(v)
            if va is not TOP and not isinstance(v, (Tup, Coll, Struct)):
                tv = self._truthy_part(va)
                fv = self._falsy_part(va)
                t[p], f[p] = tv, fv
                return (t if tv else None), (f if fv else None)
            if isinstance(v, Tup):
                return t, (f if not v.items else None)
        return t, f

    @staticmethod
    def _minus(v, t):
        if is_atoms(v):
            return v - {t}
        return v

    def join_envs(self, envs):
        envs = [e for e in envs if e is not None]
        if not envs:
            return None
        out = {}
        keys = set().union(*[set(e) for e in envs])
        for k in keys:
            if k.startswith(_GUARD):
                vals = [e.get(k) for e in envs]
                if all(v is vals[0] for v in vals):
                    out[k] = vals[0]
                continue
            if k.startswith('__'):
                out[k] = envs[0].get(k)
                continue
            vals = [e[k] for e in envs if k in e]
            if len(vals) < len(envs):
                if '.' in k:
                    continue       # a path refinement not valid on every branch
                out[k] = TOP
                continue
            out[k] = join_all(vals)
        return out

    # ------------------------------------------------------------------ statements
    def bind_target(self, tgt, v, env):
        if isinstance(tgt, ast.Name):
            env[tgt.id] = v
            for k in [k for k in env if k.startswith(tgt.id + '.')]:
                del env[k]
            for k in [k for k in env if k.startswith(_GUARD)]:
                if k == _GUARD + tgt.id or any(isinstance(n, ast.Name) and n.id == tgt.id for n in ast.walk(env[k])):
                    del env[k]
        elif isinstance(tgt, (ast.Tuple, ast.List)):
            if isinstance(v, Tup) and len(v.items) == len(tgt.elts):
                for x, xv in zip(tgt.elts, v.items):
                    self.bind_target(x, xv, env)
            elif isinstance(v, Coll):
                for x in tgt.elts:
                    self.bind_target(x, v.elem, env)
            else:
                for x in tgt.elts:
                    self.bind_target(x, TOP, env)
        elif isinstance(tgt, ast.Attribute):
            p = self.path_of(tgt)
            if p is not None:
                env[p] = v
                for k in [k for k in env if k.startswith(_GUARD)]:
                    if any(self.path_of(n) == p for n in ast.walk(env[k]) if isinstance(n, ast.Attribute)):
                        del env[k]
        elif isinstance(tgt, ast.Starred):
            self.bind_target(tgt.value, TOP, env)

    def exec_block(self, body, env, frame):
        for st in body:
            if env is None:
                return None
            env = self.stmt(st, env, frame)
        return env

    def stmt(self, st, env, frame):
        m = getattr(self, 's_' + type(st).__name__, None)
        if m is None:
            frame.unknown += 1
            return env
        return m(st, env, frame)

    def s_Return(self, st, env, frame):
        frame.returns.append((self.ev(st.value, env, frame) if st.value is not None else A(NoneT), st))
        return None

    def s_Raise(self, st, env, frame):
        name = None
        if st.exc is not None:
            e = st.exc.func if isinstance(st.exc, ast.Call) else st.exc
            name = ast.unparse(e).split('.')[-1]
            if isinstance(st.exc, ast.Call):
                for a in st.exc.args:
                    self.ev(a, env, frame)
        frame.explicit_raises.append((name, st))
        frame.raises.add(Raised(name or 'reraise', 'raise', (), False, st.lineno))
        return None

    def s_Expr(self, st, env, frame):
        self.ev(st.value, env, frame)
        return env

    def s_Pass(self, st, env, frame):
        return env

    def s_Assert(self, st, env, frame):
        self.ev(st.test, env, frame)
        t, _ = self.refine(st.test, env, frame)
        return t

    def s_Assign(self, st, env, frame):
        v = self.ev(st.value, env, frame)
        env = dict(env)
        for tg in st.targets:
            if isinstance(tg, ast.Subscript):
                self.ev(tg.value, env, frame)
                continue
            self.bind_target(tg, v, env)
        if len(st.targets) == 1 and isinstance(st.targets[0], ast.Name) and _is_guard_expr(st.value):
            env[_GUARD + st.targets[0].id] = st.value
        return env

    def s_AnnAssign(self, st, env, frame):
        if st.value is None:
            return env
        v = self.ev(st.value, env, frame)
        env = dict(env)
        self.bind_target(st.target, v, env)
        return env

    def s_AugAssign(self, st, env, frame):
        cur = self.ev(st.target, env, frame) if not isinstance(st.target, ast.Subscript) else TOP
        r = self.ev(st.value, env, frame)
        f = _BINOPS.get(type(st.op))
        v = self.sample(type(st.op).__name__, f, [cur, r], frame, st) if f else TOP
        env = dict(env)
        if not isinstance(st.target, ast.Subscript):
            self.bind_target(st.target, v, env)
        return env

    def s_If(self, st, env, frame):
        self.truth_test(self.ev(st.test, env, frame), frame, st.test)
        t, f = self.refine(st.test, env, frame)
        a = self.exec_block(st.body, t, frame) if t is not None else None
        b = self.exec_block(st.orelse, f, frame) if f is not None else None
        return self.join_envs([a, b])

    def s_For(self, st, env, frame):
        it = self.ev(st.iter, env, frame)
        el = self.elem_of(it, frame, st.iter)
        cur = dict(env)
        out_envs = [env]
        for _ in range(3):
            e2 = dict(cur)
            self.bind_target(st.target, el, e2)
            lf = _LoopFrame(frame)
            e3 = self.exec_block(st.body, e2, lf)
            ends = [x for x in [e3] + lf.continues if x is not None]
            out_envs.extend(lf.breaks)
            if not ends:
                break
            nxt = self.join_envs([cur] + ends)
            if self._env_eq(nxt, cur):
                cur = nxt
                break
            cur = nxt
        else:
            cur = self._widen(cur, env)
        # NULL-gate idiom: `for x in L: if x is None: return ...` proves L's elements non-NULL afterwards
        out_envs.append(cur)
        res = self.join_envs(out_envs)
        if res is not None:
            self._null_gate(st, env, res)
        if st.orelse:
            res = self.exec_block(st.orelse, res, frame)
        return res

    @staticmethod
    def _list_null_gate(test):
        """(list name, True if the list is NULL-free when the test is true / False when it is false) or None."""
        if isinstance(test, ast.Call) and isinstance(test.func, ast.Name) and test.func.id in ('any', 'all') and len(test.args) == 1 \
                and isinstance(test.args[0], (ast.GeneratorExp, ast.ListComp)) and len(test.args[0].generators) == 1:
            c = test.args[0]
            g = c.generators[0]
            if g.ifs or not (isinstance(g.target, ast.Name) and isinstance(g.iter, ast.Name)):
                return None
            e = c.elt
            if isinstance(e, ast.Compare) and len(e.ops) == 1 and isinstance(e.left, ast.Name) and e.left.id == g.target.id \
                    and isinstance(e.comparators[0], ast.Constant) and e.comparators[0].value is None:
                if test.func.id == 'any' and isinstance(e.ops[0], ast.Is):
                    return g.iter.id, False
                if test.func.id == 'all' and isinstance(e.ops[0], ast.IsNot):
                    return g.iter.id, True
            return None
        if isinstance(test, ast.Compare) and len(test.ops) == 1 and isinstance(test.left, ast.Constant) and test.left.value is None \
                and isinstance(test.comparators[0], ast.Name):
            if isinstance(test.ops[0], ast.In):
                return test.comparators[0].id, False
            if isinstance(test.ops[0], ast.NotIn):
                return test.comparators[0].id, True
        return None

    def _null_gate(self, st, env0, env_after):
        if not (isinstance(st.iter, ast.Name) and isinstance(st.target, ast.Name)):
            return
        lst = env_after.get(st.iter.id)
        if not isinstance(lst, Coll) or not is_atoms(lst.elem) or NoneT not in lst.elem:
            return
        for s in st.body:
            if (isinstance(s, ast.If) and isinstance(s.test, ast.Compare) and len(s.test.ops) == 1
                    and isinstance(s.test.ops[0], ast.Is) and isinstance(s.test.left, ast.Name)
                    and s.test.left.id == st.target.id and isinstance(s.test.comparators[0], ast.Constant)
                    and s.test.comparators[0].value is None
                    and s.body and isinstance(s.body[-1], (ast.Return, ast.Raise))):
                env_after[st.iter.id] = Coll(lst.kind, lst.elem - {NoneT}, lst.key)
                return
            if isinstance(s, ast.If):
                continue
            break

    def s_While(self, st, env, frame):
        cur = dict(env)
        outs = []
        for _ in range(3):
            self.ev(st.test, cur, frame)
            t, f = self.refine(st.test, cur, frame)
            if f is not None and not (isinstance(st.test, ast.Constant) and st.test.value):
                outs.append(f)
            if t is None:
                break
            lf = _LoopFrame(frame)
            e3 = self.exec_block(st.body, t, lf)
            outs.extend(lf.breaks)
            ends = [x for x in [e3] + lf.continues if x is not None]
            if not ends:
                break
            nxt = self.join_envs([cur] + ends)
            if self._env_eq(nxt, cur):
                break
            cur = nxt
        else:
            cur = self._widen(cur, env)
            self.ev(st.test, cur, frame)
            t, f = self.refine(st.test, cur, frame)
            if t is not None:
                lf = _LoopFrame(frame)
                self.exec_block(st.body, t, lf)
                outs.extend(lf.breaks)
            if f is not None and not (isinstance(st.test, ast.Constant) and st.test.value):
                outs.append(f)
        return self.join_envs(outs) if outs else None

    def _env_eq(self, a, b):
        ka = {k for k in a if not k.startswith('__')}
        kb = {k for k in b if not k.startswith('__')}
        if ka != kb:
            return False
        return all(repr(a[k]) == repr(b[k]) for k in ka)

    def _widen(self, cur, base):
        out = dict(cur)
        for k in cur:
            if not k.startswith('__') and (k not in base or repr(base[k]) != repr(cur[k])):
                out[k] = TOP
        return out

    def s_Break(self, st, env, frame):
        if hasattr(frame, 'breaks'):
            frame.breaks.append(env)
        return None

    def s_Continue(self, st, env, frame):
        if hasattr(frame, 'continues'):
            frame.continues.append(env)
        return None

    def s_Try(self, st, env, frame):
        inner = _TryFrame(frame)
        a = self.exec_block(st.body, env, inner)
        outs = [a]
        handled_any = False
        for h in st.handlers:
            if h.type is None:
                names = ['BaseException']
            elif isinstance(h.type, ast.Tuple):
                names = [ast.unparse(x).split('.')[-1] for x in h.type.elts]
            else:
                names = [ast.unparse(h.type).split('.')[-1]]
                # `except failures:` where the classes come in through a variable (a parameter bound to a tuple of exception classes)
                if isinstance(h.type, ast.Name) and h.type.id in env:
                    v = env[h.type.id]
                    objs = list(v.items) if isinstance(v, Tup) else [v]
                    got = [getattr(o.obj, '__name__', None) for o in objs if isinstance(o, Obj) and isinstance(getattr(o, 'obj', None), type)
                           and issubclass(o.obj, BaseException)]
                    if got and len(got) == len(objs):
                        names = got
            caught = {r for r in inner.raises if exc_matches(r.exc, names)}
            inner.raises -= caught
            inner.caught.append((names, caught, h))
            henv = dict(env)
            if h.name:
                henv[h.name] = TOP
            # the body may have been interrupted anywhere: locals assigned in it are unknown
            for n in ast.walk(ast.Module(body=st.body, type_ignores=[])):
                if isinstance(n, ast.Name) and isinstance(n.ctx, ast.Store):
                    henv[n.id] = TOP
            outs.append(self.exec_block(h.body, henv, frame))
            handled_any = True
        frame.raises |= inner.raises
        frame.returns.extend(inner.returns)
        frame.explicit_raises.extend(inner.explicit_raises)
        frame.unknown += inner.unknown
        if hasattr(frame, 'try_log'):
            frame.try_log.append(inner)
        else:
            frame.try_log = [inner]
        res = self.join_envs(outs)
        if st.orelse and a is not None:
            res = self.join_envs([self.exec_block(st.orelse, a, frame)] + outs[1:])
        if st.finalbody:
            res = self.exec_block(st.finalbody, res if res is not None else dict(env), frame) if res is not None \
                else (self.exec_block(st.finalbody, dict(env), frame) and None)
        return res

    def s_With(self, st, env, frame):
        fi = env.get('__fi__')
        if len(st.items) == 1 and isinstance(st.items[0].context_expr, ast.Call) and st.items[0].optional_vars is None and fi is not None \
                and fi.module.dotted(st.items[0].context_expr.func) == 'contextlib.suppress' and not st.items[0].context_expr.keywords:
            # `with contextlib.suppress(E1, E2): body` is `try: body  except (E1, E2): pass`
            c = st.items[0].context_expr
            h = ast.ExceptHandler(type=ast.Tuple(elts=list(c.args), ctx=ast.Load()), name=None, body=[ast.Pass()])
            t = ast.Try(body=st.body, handlers=[h], orelse=[], finalbody=[])
            ast.copy_location(t, st)
            ast.copy_location(h, st)
            ast.fix_missing_locations(t)
            return self.s_Try(t, env, frame)
        env = dict(env)
        for item in st.items:
            v = self.ev(item.context_expr, env, frame)
            if item.optional_vars is not None:
                self.bind_target(item.optional_vars, TOP, env)
        return self.exec_block(st.body, env, frame)

    def s_FunctionDef(self, st, env, frame):
        env = dict(env)
        fi = env.get('__fi__')
        target = None
        if fi is not None:
            target = fi.module.functions.get(f'{fi.qualname}.<locals>.{st.name}')
        if target is not None:
            clos = {k: v for k, v in env.items() if not k.startswith('__')}
            env[st.name] = Fn(target, clos)
        else:
            env[st.name] = TOP
        return env

    def s_ClassDef(self, st, env, frame):
        env = dict(env)
        env[st.name] = TOP
        return env

    def s_Delete(self, st, env, frame):
        return env

    def s_Global(self, st, env, frame):
        return env

    def s_Nonlocal(self, st, env, frame):
        return env

    def s_Import(self, st, env, frame):
        return env

    def s_ImportFrom(self, st, env, frame):
        return env


class _LoopFrame(Frame):
    """Shares effect sets with the enclosing frame; collects break/continue environments."""

    def __init__(self, outer):
        self.returns = outer.returns
        self.raises = outer.raises
        self.explicit_raises = outer.explicit_raises
        self.outer = outer
        self.breaks = []
        self.continues = []

    @property
    def unknown(self):
        return self.outer.unknown

    @unknown.setter
    def unknown(self, v):
        self.outer.unknown = v

    @property
    def try_log(self):
        if not hasattr(self.outer, 'try_log'):
            self.outer.try_log = []
        return self.outer.try_log


class _TryFrame(Frame):
    def __init__(self, outer):
        super().__init__()
        self.outer = outer
        self.caught = []
        if isinstance(outer, _LoopFrame):
            self.breaks = outer.breaks
            self.continues = outer.continues


class PkgModule:
    """A module of the package used as a value (`query_compile.FUNCTIONS`)."""

    def __init__(self, it, module):
        self.it = it
        self.module = module


def _pkgmodule_getattr(self, base, attr, frame, node=None, _orig=Interp.getattr_value):
    if isinstance(base, PkgModule):
        v = base.it.global_value(base.module, attr)
        return v if v is not None else TOP
    return _orig(self, base, attr, frame, node)


Interp.getattr_value = _pkgmodule_getattr
