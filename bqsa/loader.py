"""The resolved program: modules, imports, classes (with MRO), functions.

Pure syntax: nothing of beanquery is imported here.  Third-party *type
objects* (decimal.Decimal, datetime.date, beancount record classes, ...) can
be materialised with :func:`Program.pyobj` because the abstract interpreter
answers subclass questions with the real MROs of the libraries beanquery is
typed against.
"""
from __future__ import annotations

import ast
import dataclasses
import hashlib
import importlib
import os
from typing import Optional


class AnalysisError(Exception):
    """The analyser cannot do its job (anchor vanished, unsupported shape)."""


@dataclasses.dataclass
class FuncInfo:
    module: 'Module'
    qualname: str
    node: ast.FunctionDef
    parent: object  # ClassInfo | FuncInfo | None

    @property
    def name(self):
        return self.node.name

    @property
    def fq(self):
        return f'{self.module.name}:{self.qualname}'

    @property
    def params(self):
        a = self.node.args
        return [x.arg for x in a.posonlyargs + a.args]

    def __hash__(self):
        return hash(self.fq) ^ id(self.node)

    def __eq__(self, other):
        return self is other


class WrappedFuncInfo(FuncInfo):
    """The function object a plain decorator of the package leaves in place of the one it decorates: the nested function the decorator
    returns, with the decorator's parameter bound to the decorated function (`bound`).  It answers to the name of the function it wraps
    (functools.wraps or not, that is the function the registries and the reports are about)."""

    def __init__(self, inner: FuncInfo, bound: dict, wrapped: FuncInfo, via: FuncInfo):
        FuncInfo.__init__(self, inner.module, inner.qualname, inner.node, inner.parent)
        self.bound = bound
        self.wrapped = wrapped
        self.via = via

    @property
    def name(self):
        return self.wrapped.name

    @property
    def fq(self):
        return f'{self.wrapped.fq}@{self.via.name}'

    def __hash__(self):
        return hash(self.fq) ^ id(self.node)

    def __eq__(self, other):
        return self is other


@dataclasses.dataclass
class ClassInfo:
    module: 'Module'
    qualname: str
    node: ast.ClassDef
    parent: object  # FuncInfo | ClassInfo | None
    methods: dict = dataclasses.field(default_factory=dict)
    attrs: dict = dataclasses.field(default_factory=dict)   # class-level name -> value expr (last wins)

    @property
    def name(self):
        return self.node.name

    @property
    def fq(self):
        return f'{self.module.name}:{self.qualname}'

    def __hash__(self):
        return id(self.node)

    def __eq__(self, other):
        return self is other


class Module:
    def __init__(self, name, path, source):
        self.name = name
        self.path = path
        self.source = source
        self.tree = ast.parse(source, filename=path)
        self.imports = {}      # local name -> dotted target
        self.functions = {}    # qualname -> FuncInfo (all, including nested and methods)
        self.classes = {}      # qualname -> ClassInfo (all, including nested)
        self.toplevel_funcs = {}   # name -> [FuncInfo, ...] in definition order (redefinitions kept)
        self.assigns = {}      # module-level name -> value expr (last wins)
        self._collect()

    # ------------------------------------------------------------------
    def _collect(self):
        pkg = self.name.rsplit('.', 1)[0] if not self.path.endswith('__init__.py') else self.name
        for st in ast.walk(self.tree):
            if isinstance(st, ast.Import):
                for a in st.names:
                    if a.asname:
                        self.imports[a.asname] = a.name
                    else:
                        self.imports[a.name.split('.')[0]] = a.name.split('.')[0]
            elif isinstance(st, ast.ImportFrom):
                base = st.module or ''
                if st.level:
                    parts = pkg.split('.')
                    parts = parts[:len(parts) - (st.level - 1)]
                    base = '.'.join(parts + ([st.module] if st.module else []))
                for a in st.names:
                    self.imports[a.asname or a.name] = f'{base}.{a.name}'
        self._walk_body(self.tree.body, '', None)
        for st in self.tree.body:
            if isinstance(st, ast.Assign):
                for t in st.targets:
                    if isinstance(t, ast.Name):
                        self.assigns[t.id] = st.value
            elif isinstance(st, ast.AnnAssign) and isinstance(st.target, ast.Name) and st.value is not None:
                self.assigns[st.target.id] = st.value

    def _walk_body(self, body, prefix, parent):
        for st in body:
            self._walk_stmt(st, prefix, parent)

    def _walk_stmt(self, st, prefix, parent):
        if isinstance(st, (ast.FunctionDef, ast.AsyncFunctionDef)):
            qn = prefix + st.name
            # redefinitions (e.g. two `filename` column accessors) get a suffix
            key = qn
            n = 2
            while key in self.functions:
                key = f'{qn}#{n}'
                n += 1
            fi = FuncInfo(self, key, st, parent)
            self.functions[key] = fi
            if parent is None:
                self.toplevel_funcs.setdefault(st.name, []).append(fi)
            if isinstance(parent, ClassInfo):
                parent.methods[st.name] = fi
            self._walk_body(st.body, key + '.<locals>.', fi)
        elif isinstance(st, ast.ClassDef):
            qn = prefix + st.name
            key = qn
            n = 2
            while key in self.classes:
                key = f'{qn}#{n}'
                n += 1
            ci = ClassInfo(self, key, st, parent)
            self.classes[key] = ci
            for s in st.body:
                if isinstance(s, ast.Assign):
                    for t in s.targets:
                        if isinstance(t, ast.Name):
                            ci.attrs[t.id] = s.value
                elif isinstance(s, ast.AnnAssign) and isinstance(s.target, ast.Name):
                    ci.attrs[s.target.id] = s.value if s.value is not None else s.annotation
            self._walk_body(st.body, key + '.', ci)
        elif isinstance(st, (ast.If, ast.For, ast.While, ast.With, ast.Try)):
            for field in ('body', 'orelse', 'finalbody'):
                self._walk_body(getattr(st, field, []) or [], prefix, parent)
            for h in getattr(st, 'handlers', []) or []:
                self._walk_body(h.body, prefix, parent)

    # ------------------------------------------------------------------
    def dotted(self, expr) -> Optional[str]:
        """Resolve a Name/Attribute chain to a dotted global name, or None."""
        parts = []
        e = expr
        while isinstance(e, ast.Attribute):
            parts.append(e.attr)
            e = e.value
        if not isinstance(e, ast.Name):
            return None
        head = e.id
        rest = list(reversed(parts))
        if head in self.imports:
            return '.'.join([self.imports[head]] + rest)
        if head in self.classes or head in self.toplevel_funcs or head in self.assigns:
            return '.'.join([self.name, head] + rest)
        return '.'.join(['builtins', head] + rest)


class Program:
    """All non-test modules of the package under ``<repo>/beanquery``."""

    PACKAGE = 'beanquery'

    def __init__(self, repo='/repo'):
        self.repo = os.path.abspath(repo)
        self.modules = {}
        root = os.path.join(self.repo, self.PACKAGE)
        if not os.path.isdir(root):
            raise AnalysisError(f'package directory {root} not found')
        for dirpath, dirnames, filenames in os.walk(root):
            dirnames[:] = sorted(d for d in dirnames if d not in ('__pycache__', 'tests'))
            for fn in sorted(filenames):
                if not fn.endswith('.py') or fn.endswith('_test.py'):
                    continue
                path = os.path.join(dirpath, fn)
                rel = os.path.relpath(path, self.repo)[:-3].replace(os.sep, '.')
                if rel.endswith('.__init__'):
                    rel = rel[:-len('.__init__')]
                with open(path, encoding='utf-8') as f:
                    src = f.read()
                try:
                    self.modules[rel] = Module(rel, path, src)
                except SyntaxError as exc:
                    raise AnalysisError(f'{path}: does not parse: {exc}') from exc
        self._pyobj_cache = {}

    # ------------------------------------------------------------------
    def digest(self):
        h = hashlib.sha256()
        for name in sorted(self.modules):
            h.update(name.encode())
            h.update(self.modules[name].source.encode())
        return h.hexdigest()[:16]

    def stats(self):
        nf = sum(len(m.functions) for m in self.modules.values())
        nc = sum(len(m.classes) for m in self.modules.values())
        return {'modules': len(self.modules), 'functions': nf, 'classes': nc,
                'source_digest': self.digest()}

    def module(self, name) -> Module:
        m = self.modules.get(name)
        if m is None:
            raise AnalysisError(f'anchor vanished: module {name}')
        return m

    def func(self, module, qualname) -> FuncInfo:
        m = self.module(module)
        f = m.functions.get(qualname)
        if f is None:
            raise AnalysisError(f'anchor vanished: function {module}:{qualname}')
        return f

    def cls(self, module, qualname) -> ClassInfo:
        m = self.module(module)
        c = m.classes.get(qualname)
        if c is None:
            raise AnalysisError(f'anchor vanished: class {module}:{qualname}')
        return c

    def maybe_func(self, module, qualname):
        m = self.modules.get(module)
        return m.functions.get(qualname) if m else None

    # ------------------------------------------------------------------
    def lookup(self, dotted):
        """dotted global name -> ClassInfo | FuncInfo | ('assign', Module, expr) | None.

        Follows re-exports through import tables of package modules.
        """
        seen = set()
        while dotted and dotted not in seen:
            seen.add(dotted)
            # longest module prefix
            parts = dotted.split('.')
            for i in range(len(parts), 0, -1):
                mname = '.'.join(parts[:i])
                if mname in self.modules:
                    rest = parts[i:]
                    m = self.modules[mname]
                    if not rest:
                        return m
                    head = rest[0]
                    if len(rest) == 1:
                        if head in m.classes:
                            return m.classes[head]
                        if head in m.toplevel_funcs:
                            return m.toplevel_funcs[head][-1]
                        if head in m.assigns:
                            return ('assign', m, m.assigns[head])
                    else:
                        # Class.attr
                        key = '.'.join(rest)
                        if key in m.classes:
                            return m.classes[key]
                        if key in m.functions:
                            return m.functions[key]
                    if head in m.imports:
                        dotted = '.'.join([m.imports[head]] + rest[1:])
                        break
                    return None
            else:
                return None
        return None

    def resolve_class(self, module: Module, expr, scope=None):
        """expr (a base-class or callee expression) -> ClassInfo or dotted external name."""
        if isinstance(expr, ast.Name) and scope is not None:
            # classes local to an enclosing function
            s = scope
            while s is not None:
                prefix = s.qualname + ('.<locals>.' if isinstance(s, FuncInfo) else '.')
                ci = module.classes.get(prefix + expr.id)
                if ci is not None:
                    return ci
                s = s.parent
        d = module.dotted(expr)
        if d is None:
            return None
        obj = self.lookup(d)
        if isinstance(obj, ClassInfo):
            return obj
        return d

    def _local_binding(self, ci, expr):
        """A base class written as a local variable of the enclosing function (`base = A if flag else B; class Op(base)`)
        stands for the single expression that variable is bound to."""
        seen = 0
        while isinstance(expr, ast.Name) and isinstance(ci.parent, FuncInfo) and seen < 4:
            found = None
            scope = ci.parent
            while isinstance(scope, FuncInfo):
                binds = [st for st in ast.walk(scope.node) if isinstance(st, ast.Assign) and len(st.targets) == 1
                         and isinstance(st.targets[0], ast.Name) and st.targets[0].id == expr.id]
                other = [n for n in ast.walk(scope.node) if isinstance(n, ast.Name) and n.id == expr.id
                         and isinstance(n.ctx, ast.Store) and not any(n is st.targets[0] for st in binds)]
                if len(binds) == 2 and not other and expr.id not in scope.params:
                    # `if flag: x = A` / `else: x = B`: the conditional expression `A if flag else B`
                    for ifst in ast.walk(scope.node):
                        if isinstance(ifst, ast.If) and len(ifst.body) == 1 and len(ifst.orelse) == 1 \
                                and ifst.body[0] is binds[0] and ifst.orelse[0] is binds[1]:
                            found = ast.copy_location(ast.IfExp(test=ifst.test, body=binds[0].value, orelse=binds[1].value), ifst)
                            break
                    if found is not None:
                        break
                if expr.id in scope.params or other or len(binds) > 1:
                    break
                if len(binds) == 1:
                    found = binds[0].value
                    break
                scope = scope.parent          # not bound here: a variable of the enclosing function
            if found is None:
                break
            expr = found
            seen += 1
        return expr

    def bases(self, ci: ClassInfo):
        out = []
        for b in ci.node.bases:
            b = self._local_binding(ci, b)
            if isinstance(b, ast.IfExp):
                # class Op(A if flag else B): both are possible bases; callers that
                # need the exact one resolve the flag themselves.
                out.append(('ifexp', b))
                continue
            out.append(self.resolve_class(ci.module, b, ci.parent))
        return out

    def mro(self, ci: ClassInfo, ifexp_choice=None):
        """Linearised ancestors (single inheritance chains + externals), nearest first."""
        out = [ci]
        seen = {id(ci)}
        work = list(self.bases(ci))
        while work:
            b = work.pop(0)
            if isinstance(b, tuple) and b[0] == 'ifexp':
                choice = ifexp_choice(b[1]) if ifexp_choice else None
                if choice is None:
                    raise AnalysisError(f'{ci.fq}: conditional base class not resolved')
                b = self.resolve_class(ci.module, choice, ci.parent)
            if isinstance(b, ClassInfo):
                if id(b) in seen:
                    continue
                seen.add(id(b))
                out.append(b)
                work = list(self.bases(b)) + work
            elif b is not None:
                out.append(b)
        return out

    def is_subclass(self, ci, target_fq, ifexp_choice=None):
        for c in self.mro(ci, ifexp_choice):
            if isinstance(c, ClassInfo) and c.fq == target_fq:
                return True
            if isinstance(c, str) and c == target_fq:
                return True
        return False

    def find_method(self, ci: ClassInfo, name, ifexp_choice=None):
        for c in self.mro(ci, ifexp_choice):
            if isinstance(c, ClassInfo):
                if name in c.methods:
                    return c.methods[name]
                if name in c.attrs:
                    return ('attr', c, c.attrs[name])
        return None

    def find_attr(self, ci: ClassInfo, name, ifexp_choice=None):
        for c in self.mro(ci, ifexp_choice):
            if isinstance(c, ClassInfo) and name in c.attrs:
                return c, c.attrs[name]
        return None

    def all_classes(self):
        for m in self.modules.values():
            yield from m.classes.values()

    def all_functions(self):
        for m in self.modules.values():
            yield from m.functions.values()

    def subclasses_of(self, target_fq):
        out = []
        for ci in self.all_classes():
            try:
                if self.is_subclass(ci, target_fq, ifexp_choice=lambda e: e.body):
                    out.append(ci)
            except AnalysisError:
                pass
        return out

    # ------------------------------------------------------------------
    def pyobj(self, dotted):
        """Materialise an *external* (non-beanquery) dotted name as a Python object."""
        if dotted in self._pyobj_cache:
            return self._pyobj_cache[dotted]
        if dotted.split('.')[0] == self.PACKAGE:
            raise AnalysisError(f'refusing to import code under analysis: {dotted}')
        parts = dotted.split('.')
        obj = None
        for i in range(len(parts), 0, -1):
            try:
                obj = importlib.import_module('.'.join(parts[:i]))
            except ImportError:
                continue
            try:
                for p in parts[i:]:
                    obj = getattr(obj, p)
            except AttributeError:
                obj = None
                continue
            break
        self._pyobj_cache[dotted] = obj
        return obj


# ----------------------------------------------------------------------
# small syntax helpers shared by the rules

def norm(node) -> str:
    """Position-free normal form of a syntax fragment."""
    if isinstance(node, list):
        return '; '.join(norm(n) for n in node)
    return ast.unparse(node)


def calls_in(node):
    for n in ast.walk(node):
        if isinstance(n, ast.Call):
            yield n


def names_in(node):
    return {n.id for n in ast.walk(node) if isinstance(n, ast.Name)}


def attr_chain(expr):
    """`a.b.c` -> ['a','b','c']; None if not a pure chain."""
    parts = []
    while isinstance(expr, ast.Attribute):
        parts.append(expr.attr)
        expr = expr.value
    if isinstance(expr, ast.Name):
        parts.append(expr.id)
        return list(reversed(parts))
    return None


def is_none(expr):
    return isinstance(expr, ast.Constant) and expr.value is None


def body_without_docstring(fn):
    body = fn.body if isinstance(fn, (ast.FunctionDef, ast.ClassDef)) else fn
    if body and isinstance(body[0], ast.Expr) and isinstance(body[0].value, ast.Constant) \
            and isinstance(body[0].value.value, str):
        return body[1:]
    return body


def loc(info, node=None):
    node = node or info.node
    rel = os.path.relpath(info.module.path, os.path.dirname(os.path.dirname(info.module.path)))
    return f'{info.module.path}:{getattr(node, "lineno", 0)}'
