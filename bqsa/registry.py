"""Reconstruct beanquery's registries (operators, functions, aggregates, table
columns, structured types) from syntax.

The decorator factories (`unaryop`, `binaryop`, `function`, `register`,
`aggregator`, `BeanTable.column`) are *read*, not trusted by name: each
registration is obtained by symbolically executing the factory body with the
arguments found at the application site.  Unsupported statement forms raise
AnalysisError (fail closed).  `witness()` compares the result with the live
registries of an imported beanquery, in a subprocess.
"""
from __future__ import annotations

import ast
import dataclasses
import itertools
import json
import os
import subprocess
import sys
import typing

from .loader import Program, Module, ClassInfo, FuncInfo, AnalysisError


class _Marker:
    def __init__(self, name):
        self.__name__ = name

    def __repr__(self):
        return self.__name__


ANY = _Marker('any')
ASTERISK = _Marker('*')
NoneT = type(None)


class StructureBase:
    """Stand-in for beanquery.types.Structure in synthetic class objects."""


def tname(t):
    return getattr(t, '__name__', repr(t))


@dataclasses.dataclass
class Sym:
    """An unevaluated expression of a module (a leaf of the symbolic evaluator)."""
    module: Module
    expr: ast.expr
    scope: object = None

    def __repr__(self):
        return f'Sym({ast.unparse(self.expr)})'


@dataclasses.dataclass
class OperandDtype:
    index: int

    def __repr__(self):
        return f'dtype(operand[{self.index}])'


class Opaque:
    def __init__(self, what):
        self.what = what

    def __repr__(self):
        return f'Opaque({self.what})'


@dataclasses.dataclass
class ClassInst:
    """A class object created (possibly inside a factory closure) at import time."""
    info: ClassInfo
    env: dict
    attrs: dict = dataclasses.field(default_factory=dict)
    site: object = None   # the application site (ast node) for diagnostics

    @property
    def label(self):
        return self.attrs.get('__name__', self.info.name)


@dataclasses.dataclass
class OpOverload:
    kind: str                 # 'Add', 'Less', ...
    intypes: list
    outtype: object
    impl: object              # FuncInfo | str (dotted external callable) | None
    cls: ClassInst
    base: ClassInfo           # evaluator base class in query_compile
    site: object = None

    @property
    def label(self):
        return f'{self.kind}[{",".join(tname(t) for t in self.intypes)}]'


@dataclasses.dataclass
class FnOverload:
    name: str
    intypes: list
    outtype: object           # type token | OperandDtype
    impl: object              # FuncInfo | None (class-implemented)
    cls: ClassInst
    kind: str                 # 'function' | 'class' | 'aggregator'
    pass_row: bool = False
    pass_context: bool = False
    pure: object = None
    site: object = None

    @property
    def label(self):
        return f'{self.name}({", ".join(tname(t) for t in self.intypes)})'


@dataclasses.dataclass
class ColumnDef:
    table: str                # table / structure class fq
    name: str
    dtype: object
    kind: str                 # 'func' | 'getattr' | 'getitem'
    impl: object              # FuncInfo | field name | index
    site: object = None
    cls: object = None        # ClassInst | ClassInfo of the column class


class Registry:
    def __init__(self, P: Program):
        self.P = P
        self._synth = {}
        self.synth_info = {}
        self.ops: list[OpOverload] = []
        self.funcs: list[FnOverload] = []
        self.tables: dict[str, dict[str, ColumnDef]] = {}     # class fq -> ordered columns
        self.table_info: dict[str, ClassInfo] = {}
        self.structures: dict[str, dict[str, ColumnDef]] = {}
        self.aliases: dict = {}                                # python type -> structure class fq
        self.table_list: list[str] = []                        # TABLES registration (class fq)
        self.renderers: dict = {}
        self.converting_types: dict = {}
        self.types_map: dict = {}
        self.nonreg_events = []
        self._extract()

    # ------------------------------------------------------------------ types
    def tok(self, module: Module, expr, scope=None):
        """Type expression -> python class object | ANY | ASTERISK."""
        if isinstance(expr, ast.Constant) and expr.value is None:
            return NoneT
        obj = self.P.resolve_class(module, expr, scope)
        if isinstance(obj, ClassInfo):
            return self.synth(obj)
        d = obj
        if d is None:
            raise AnalysisError(f'{module.name}: cannot resolve type expression {ast.unparse(expr)}')
        if d == 'beanquery.types.Any':
            return ANY
        if d == 'beanquery.types.Asterisk':
            return ASTERISK
        if d == 'beanquery.types.NoneType':
            return NoneT
        if d.startswith('beanquery.'):
            tgt = self.P.lookup(d)
            if isinstance(tgt, ClassInfo):
                return self.synth(tgt)
            if isinstance(tgt, tuple) and tgt[0] == 'assign':
                return self.tok(tgt[1], tgt[2])
            raise AnalysisError(f'{module.name}: type expression {ast.unparse(expr)} -> {d} is not a class')
        if d.startswith('builtins.'):
            import builtins
            o = getattr(builtins, d.split('.', 1)[1], None)
        else:
            o = self.P.pyobj(d)
        if not isinstance(o, type):
            raise AnalysisError(f'{module.name}: type expression {ast.unparse(expr)} -> {d} is not a class')
        return o

    def synth(self, ci: ClassInfo):
        if ci.fq in self._synth:
            return self._synth[ci.fq]
        if ci.fq == 'beanquery.types:Structure':
            self._synth[ci.fq] = StructureBase
            return StructureBase
        bases = []
        for b in self.P.bases(ci):
            if isinstance(b, ClassInfo):
                bases.append(self.synth(b))
            elif isinstance(b, str):
                o = self.P.pyobj(b) if not b.startswith('builtins.') else getattr(__import__('builtins'), b[9:], None)
                if isinstance(o, type):
                    bases.append(o)
        bases = [b for b in bases if b is not object] or [object]
        try:
            t = type(ci.name, tuple(bases), {'__module__': ci.module.name})
        except Exception:   # noqa: BLE001 - enum / metaclass bases cannot be subclassed this way
            t = type(ci.name, (object,), {'__module__': ci.module.name})
        self._synth[ci.fq] = t
        self.synth_info[t] = ci
        # dataclass-style field annotations become real typing objects (strings under `from __future__ import annotations`)
        ann = {}
        for st in ci.node.body:
            if isinstance(st, ast.AnnAssign) and isinstance(st.target, ast.Name):
                ann[st.target.id] = self._annotation(ci.module, st.annotation)
        if ann:
            t.__annotations__ = ann
        return t

    def _annotation(self, module, expr):
        if isinstance(expr, ast.Constant) and isinstance(expr.value, str):
            try:
                expr = ast.parse(expr.value, mode='eval').body
            except SyntaxError:
                return typing.Any
        if isinstance(expr, ast.Subscript):
            head = ast.unparse(expr.value).split('.')[-1]
            args = expr.slice.elts if isinstance(expr.slice, ast.Tuple) else [expr.slice]
            sub = [self._annotation(module, a) for a in args]
            if head == 'Optional':
                return typing.Optional[sub[0]]
            if head == 'Union':
                return typing.Union[tuple(sub)]
            return typing.Any
        if isinstance(expr, ast.Constant) and expr.value is None:
            return NoneT
        if isinstance(expr, (ast.Name, ast.Attribute)):
            if ast.unparse(expr).split('.')[-1] == 'Any':
                return typing.Any
            try:
                t = self.tok(module, expr)
                return t if isinstance(t, type) else typing.Any
            except AnalysisError:
                return typing.Any
        return typing.Any

    # ------------------------------------------------------------------ symbolic evaluation
    def ev(self, expr, env, module, scope=None):
        """Evaluate an expression over a closure/module environment."""
        if isinstance(expr, ast.Constant):
            return expr.value
        if isinstance(expr, ast.Name):
            if expr.id in env:
                return env[expr.id]
            return Sym(module, expr, scope)
        if isinstance(expr, (ast.List, ast.Tuple)):
            vals = [self.ev(e, env, module, scope) for e in expr.elts]
            return vals if isinstance(expr, ast.List) else tuple(vals)
        if isinstance(expr, ast.IfExp):
            t = self.truth(expr.test, env, module, scope)
            if t is None:
                raise AnalysisError(f'{module.name}: cannot decide `{ast.unparse(expr.test)}` at import time')
            return self.ev(expr.body if t else expr.orelse, env, module, scope)
        if isinstance(expr, ast.BoolOp):
            vals = [self.ev(v, env, module, scope) for v in expr.values]
            if isinstance(expr.op, ast.Or):
                for v in vals[:-1]:
                    b = self.truthy(v)
                    if b is None:
                        raise AnalysisError(f'{module.name}: cannot decide `{ast.unparse(expr)}`')
                    if b:
                        return v
                return vals[-1]
            for v in vals[:-1]:
                b = self.truthy(v)
                if b is None:
                    raise AnalysisError(f'{module.name}: cannot decide `{ast.unparse(expr)}`')
                if not b:
                    return v
            return vals[-1]
        if isinstance(expr, ast.UnaryOp) and isinstance(expr.op, ast.Not):
            b = self.truth(expr.operand, env, module, scope)
            if b is None:
                raise AnalysisError(f'{module.name}: cannot decide `{ast.unparse(expr)}`')
            return not b
        if isinstance(expr, ast.Attribute):
            base = self.ev(expr.value, env, module, scope)
            if isinstance(base, FuncInfo) and expr.attr == '__name__':
                return base.name
            if isinstance(base, FuncInfo) and expr.attr == '__doc__':
                return ast.get_docstring(base.node)
            if isinstance(base, ClassInst):
                if expr.attr in base.attrs:
                    return base.attrs[expr.attr]
                if expr.attr == '__name__':
                    return base.info.name
                if expr.attr == '__doc__':
                    return ast.get_docstring(base.info.node)
            if isinstance(base, ClassInfo):
                ca = env.get('__classattrs__', {}).get(base.fq, {})
                if expr.attr in ca:
                    return ca[expr.attr]
                if expr.attr == '__name__':
                    return base.name
                if expr.attr == '__doc__':
                    return ast.get_docstring(base.node)
            if isinstance(base, Sym) and isinstance(base.expr, (ast.Name, ast.Attribute)):
                if expr.attr == '__name__':
                    # ast.Add.__name__ etc.
                    return ast.unparse(base.expr).split('.')[-1]
                return Sym(base.module, ast.Attribute(value=base.expr, attr=expr.attr, ctx=ast.Load()), base.scope)
            if isinstance(base, OperandDtype) or (isinstance(base, tuple) and base and base[0] == 'operand'):
                if expr.attr == 'dtype':
                    return OperandDtype(base[1])
            return Opaque(ast.unparse(expr))
        if isinstance(expr, ast.Subscript):
            base = self.ev(expr.value, env, module, scope)
            idx = self.ev(expr.slice, env, module, scope)
            if isinstance(base, (list, tuple)) and isinstance(idx, int):
                return base[idx]
            if base == 'OPERANDS' and isinstance(idx, int):
                return ('operand', idx)
            return Opaque(ast.unparse(expr))
        if isinstance(expr, ast.Call):
            f = expr.func
            d = module.dotted(f) if not (isinstance(f, ast.Name) and f.id in env) else None
            if d in ('itertools.product',):
                args = [self.ev(a, env, module, scope) for a in expr.args]
                kw = {k.arg: self.ev(k.value, env, module, scope) for k in expr.keywords}
                return [tuple(x) for x in itertools.product(*args, **kw)]
            if d in ('builtins.list', 'builtins.tuple') and len(expr.args) == 1:
                v = self.ev(expr.args[0], env, module, scope)
                if isinstance(v, (list, tuple)):
                    return list(v) if d.endswith('list') else tuple(v)
            return Opaque(ast.unparse(expr))
        if isinstance(expr, ast.JoinedStr):
            parts = []
            for v in expr.values:
                if isinstance(v, ast.Constant):
                    parts.append(str(v.value))
                elif isinstance(v, ast.FormattedValue):
                    x = self.ev(v.value, env, module, scope)
                    if isinstance(x, Sym):
                        try:
                            x = tname(self.tok(x.module, x.expr, x.scope))
                        except AnalysisError:
                            x = ast.unparse(x.expr)
                    parts.append(str(x))
            return ''.join(parts)
        return Opaque(ast.unparse(expr))

    def truthy(self, v):
        if isinstance(v, (Sym, FuncInfo, ClassInst, ClassInfo, OperandDtype)):
            return True
        if isinstance(v, Opaque):
            return None
        return bool(v)

    def truth(self, test, env, module, scope=None):
        if isinstance(test, ast.Compare) and len(test.ops) == 1 and isinstance(test.ops[0], (ast.Is, ast.IsNot)):
            l = self.ev(test.left, env, module, scope)
            r = self.ev(test.comparators[0], env, module, scope)
            if r is None or l is None:
                other = l if r is None else r
                if isinstance(other, Opaque):
                    return None
                isnone = other is None
                return isnone if isinstance(test.ops[0], ast.Is) else not isnone
            return None
        if isinstance(test, ast.UnaryOp) and isinstance(test.op, ast.Not):
            b = self.truth(test.operand, env, module, scope)
            return None if b is None else not b
        if isinstance(test, ast.BoolOp):
            bs = [self.truth(v, env, module, scope) for v in test.values]
            if isinstance(test.op, ast.And):
                if any(b is False for b in bs):
                    return False
                return None if any(b is None for b in bs) else True
            if any(b is True for b in bs):
                return True
            return None if any(b is None for b in bs) else False
        return self.truthy(self.ev(test, env, module, scope))

    # ------------------------------------------------------------------ factories
    def bind_call(self, fi: FuncInfo, args, kwargs, what, skip=0):
        a = fi.node.args
        params = [x.arg for x in a.posonlyargs + a.args]
        env = {}
        defaults = a.defaults
        first_default = len(params) - len(defaults) - skip
        params = params[skip:]
        for i, p in enumerate(params):
            if i < len(args):
                env[p] = args[i]
            elif p in kwargs:
                env[p] = kwargs[p]
            elif i >= first_default:
                env[p] = self.ev(defaults[i - first_default], {}, fi.module)
            else:
                raise AnalysisError(f'{what}: missing argument {p} for {fi.fq}')
        for k in kwargs:
            if k not in params:
                raise AnalysisError(f'{what}: unexpected keyword {k} for {fi.fq}')
        return env

    def _exec_factory_body(self, body, env, scope_fi: FuncInfo, events, site):
        module = scope_fi.module
        for st in body:
            if isinstance(st, ast.ClassDef):
                ci = module.classes[f'{scope_fi.qualname}.<locals>.{st.name}']
                env[st.name] = ClassInst(ci, env, {}, site)
            elif isinstance(st, ast.Assign) and len(st.targets) == 1:
                tgt = st.targets[0]
                if isinstance(tgt, ast.Attribute):
                    base = self.ev(tgt.value, env, module, scope_fi)
                    val = self.ev(st.value, env, module, scope_fi)
                    if isinstance(base, ClassInst):
                        base.attrs[tgt.attr] = val
                    elif isinstance(base, ClassInfo):
                        # decorating a module-level class: attributes set on the class itself
                        env.setdefault('__classattrs__', {}).setdefault(base.fq, {})[tgt.attr] = val
                    else:
                        raise AnalysisError(f'{scope_fi.fq}: unsupported attribute store {ast.unparse(st)[:60]}')
                elif isinstance(tgt, ast.Subscript):
                    # cls.columns[Col.__name__] = Col()
                    chain = tgt.value
                    if isinstance(chain, ast.Attribute) and chain.attr == 'columns':
                        owner = self.ev(chain.value, env, module, scope_fi)
                        key = self.ev(tgt.slice, env, module, scope_fi)
                        val = st.value
                        if not (isinstance(val, ast.Call) and not val.args):
                            raise AnalysisError(f'{scope_fi.fq}: column registration must store an instance')
                        inst = self.ev(val.func, env, module, scope_fi)
                        events.append(('column', owner, key, inst))
                    else:
                        raise AnalysisError(f'{scope_fi.fq}: unsupported subscript store {ast.unparse(st)[:60]}')
                elif isinstance(tgt, ast.Name):
                    env[tgt.id] = self.ev(st.value, env, module, scope_fi)
                else:
                    raise AnalysisError(f'{scope_fi.fq}: unsupported assignment {ast.unparse(st)[:60]}')
            elif isinstance(st, ast.If):
                t = self.truth(st.test, env, module, scope_fi)
                if t is None:
                    raise AnalysisError(f'{scope_fi.fq}: cannot decide `{ast.unparse(st.test)}` at import time')
                self._exec_factory_body(st.body if t else st.orelse, env, scope_fi, events, site)
            elif isinstance(st, ast.Expr) and isinstance(st.value, ast.Call):
                c = st.value
                # REG[key].append(X)
                if (isinstance(c.func, ast.Attribute) and c.func.attr == 'append'
                        and isinstance(c.func.value, ast.Subscript) and len(c.args) == 1):
                    reg = module.dotted(c.func.value.value)
                    key = self.ev(c.func.value.slice, env, module, scope_fi)
                    val = self.ev(c.args[0], env, module, scope_fi)
                    events.append(('register', reg, key, val))
                elif self._delegated(c, env, module, scope_fi, events, site):
                    pass
                else:
                    raise AnalysisError(f'{scope_fi.fq}: unsupported call in decorator: {ast.unparse(st)[:60]}')
            elif isinstance(st, ast.Return):
                if isinstance(st.value, ast.Call):
                    self._delegated(st.value, env, module, scope_fi, events, site)
                return
            elif isinstance(st, (ast.Assert, ast.Pass)):
                pass
            elif isinstance(st, ast.Expr) and isinstance(st.value, ast.Constant):
                pass
            else:
                raise AnalysisError(f'{scope_fi.fq}: unsupported statement in decorator: {ast.unparse(st)[:60]}')

    def _helper_call(self, tgt, c, env, module, scope_fi, events, site):
        args = [self.ev(a, env, module, scope_fi) for a in c.args]
        kwargs = {k.arg: self.ev(k.value, env, module, scope_fi) for k in c.keywords}
        env2 = self.bind_call(tgt, args, kwargs, f'{module.name}:{getattr(c, "lineno", "?")}')
        if '__classattrs__' in env:
            env2['__classattrs__'] = env['__classattrs__']
        self._exec_factory_body(tgt.node.body, env2, tgt, events, site)
        if '__classattrs__' in env2:
            env['__classattrs__'] = env2['__classattrs__']
        return True

    def _delegated(self, c, env, module, scope_fi, events, site):
        """`other_decorator(target)` / `factory(args)(target)` inside a decorator: apply that decorator in turn."""
        if (len(c.args) != 1 or c.keywords) and not isinstance(c.func, (ast.Name, ast.Attribute)):
            return False
        app = None
        if len(c.args) != 1 or c.keywords:
            d = module.dotted(c.func)
            tgt = self.P.lookup(d) if d else None
            if isinstance(tgt, FuncInfo) and tgt.parent is None and not any(isinstance(x, ast.FunctionDef) for x in tgt.node.body):
                return self._helper_call(tgt, c, env, module, scope_fi, events, site)
            return False
        if isinstance(c.func, ast.Name) and isinstance(env.get(c.func.id), tuple) and env[c.func.id][:1] == ('factory-app',):
            app = env[c.func.id][1:]
        elif isinstance(c.func, ast.Call):
            fac = self._factory_for(module, c.func.func, env)
            if fac is not None:
                app = (fac[0], fac[1], [self.ev(a, env, module, scope_fi) for a in c.func.args],
                       {k.arg: self.ev(k.value, env, module, scope_fi) for k in c.func.keywords})
        if app is None:
            # a plain helper of the package doing (part of) the registration: interpret its body with the arguments bound
            d = module.dotted(c.func) if isinstance(c.func, (ast.Name, ast.Attribute)) else None
            tgt = self.P.lookup(d) if d else None
            if isinstance(tgt, FuncInfo) and tgt.parent is None and not any(isinstance(x, ast.FunctionDef) for x in tgt.node.body):
                return self._helper_call(tgt, c, env, module, scope_fi, events, site)
            return False
        f2, pre2, a2, k2 = app
        target = self.ev(c.args[0], env, module, scope_fi)
        sub = self.apply_factory(f2, a2, k2, target, site, module, pre2)
        events.extend(sub)
        return True

    # ------------------------------------------------------------------ reading class instances
    def class_attr(self, inst, name):
        """Value of a class-level attribute of a ClassInst/ClassInfo through the MRO (symbolic)."""
        if isinstance(inst, ClassInst):
            if name in inst.attrs:
                return inst.attrs[name]
            info, env = inst.info, inst.env
        else:
            info, env = inst, {}
        for c in self.mro_of(inst):
            if isinstance(c, ClassInfo) and name in c.attrs:
                e = env if c is info else {}
                return self.ev(c.attrs[name], e, c.module, c.parent)
        return None

    def mro_of(self, inst):
        if isinstance(inst, ClassInst):
            def choice(ifexp):
                t = self.truth(ifexp.test, inst.env, inst.info.module, inst.info.parent)
                if t is None:
                    return None
                return ifexp.body if t else ifexp.orelse
            return self.P.mro(inst.info, choice)
        return self.P.mro(inst)

    def init_dtype(self, inst, nargs=None):
        """Symbolic value reaching EvalNode.__init__'s dtype through the __init__ chain.

        The constructor is entered with `nargs` positional arguments (symbolic:
        `operands` is the operand list, operand-like parameters are operand i);
        further parameters take their defaults.
        """
        mro = self.mro_of(inst)
        info = inst.info if isinstance(inst, ClassInst) else inst
        frame_args = None
        for c in mro:
            if not isinstance(c, ClassInfo):
                continue
            init = c.methods.get('__init__')
            if init is None:
                continue
            params = init.params[1:]
            a = init.node.args
            env = dict(inst.env) if (isinstance(inst, ClassInst) and c is info) else {}
            defaults = a.defaults
            fd = len(params) - len(defaults)
            if frame_args is None:
                n = len(params) if nargs is None else nargs
                opi = 0
                for i, p in enumerate(params):
                    if i < n:
                        if p == 'operands':
                            env[p] = 'OPERANDS'
                        elif p in ('context',):
                            env[p] = Opaque(p)
                        else:
                            env[p] = ('operand', opi)
                            opi += 1
                    elif i >= fd:
                        env[p] = self.ev(defaults[i - fd], {}, c.module)
                    else:
                        env[p] = Opaque(p)
            else:
                pos, kw = frame_args
                for i, p in enumerate(params):
                    if i < len(pos):
                        env[p] = pos[i]
                    elif p in kw:
                        env[p] = kw[p]
                    elif i >= fd:
                        env[p] = self.ev(defaults[i - fd], {}, c.module)
                    else:
                        env[p] = Opaque(p)
            if c.fq == 'beanquery.query_compile:EvalNode':
                return env.get('dtype')
            self._init_prelude(init, env, c.module)
            nxt = None
            for st in ast.walk(init.node):
                if (isinstance(st, ast.Call) and isinstance(st.func, ast.Attribute) and st.func.attr == '__init__'
                        and isinstance(st.func.value, ast.Call) and isinstance(st.func.value.func, ast.Name)
                        and st.func.value.func.id == 'super'):
                    pos = [self.ev(x, env, c.module, init) for x in st.args]
                    kw = {k.arg: self.ev(k.value, env, c.module, init) for k in st.keywords}
                    nxt = (pos, kw)
                    break
            if nxt is None:
                for st in ast.walk(init.node):
                    if (isinstance(st, ast.Assign) and isinstance(st.targets[0], ast.Attribute)
                            and st.targets[0].attr == 'dtype' and isinstance(st.targets[0].value, ast.Name)
                            and st.targets[0].value.id == 'self'):
                        return self.ev(st.value, env, c.module, init)
                return Opaque('no super().__init__')
            frame_args = nxt
        return Opaque('no EvalNode.__init__ reached')

    def _init_prelude(self, init, env, module):
        """Local rebinding before the super().__init__ call of a constructor (`if not dtype: dtype = operands[0].dtype`; a default
        moved into a local): straight-line assignments to names and `if` statements whose test is decided by the bound values."""
        def is_super_call(st):
            return any(isinstance(n, ast.Call) and isinstance(n.func, ast.Attribute) and n.func.attr == '__init__'
                       and isinstance(n.func.value, ast.Call) and isinstance(n.func.value.func, ast.Name) and n.func.value.func.id == 'super'
                       for n in ast.walk(st))

        def run(body):
            for st in body:
                if is_super_call(st):
                    return False
                if isinstance(st, ast.Assign) and len(st.targets) == 1 and isinstance(st.targets[0], ast.Name):
                    env[st.targets[0].id] = self.ev(st.value, env, module, init)
                elif isinstance(st, ast.If):
                    t = self.truth(st.test, env, module, init)
                    if t is None:
                        return False
                    if not run(st.body if t else st.orelse):
                        return False
                elif isinstance(st, ast.Expr) and isinstance(st.value, ast.Constant):
                    continue
                else:
                    return False
            return True
        run(init.node.body)

    def as_tok(self, v):
        if isinstance(v, Sym):
            return self.tok(v.module, v.expr, v.scope)
        if isinstance(v, OperandDtype):
            return v
        if v is None:
            return None
        if isinstance(v, type) or v in (ANY, ASTERISK):
            return v
        raise AnalysisError(f'cannot turn {v!r} into a type')

    def as_toks(self, v, what):
        if isinstance(v, Sym):
            # a module level list referred to by name
            tgt = v.module.assigns.get(v.expr.id) if isinstance(v.expr, ast.Name) else None
            if tgt is None:
                raise AnalysisError(f'{what}: intypes {v!r} is not a list')
            v = self.ev(tgt, {}, v.module)
        if not isinstance(v, (list, tuple)):
            raise AnalysisError(f'{what}: intypes {v!r} is not a list')
        return [self.as_tok(x) for x in v]

    # ------------------------------------------------------------------ extraction
    def _extract(self):
        P = self.P
        qc = P.module('beanquery.query_compile')
        qe = P.module('beanquery.query_env')
        self.EvalNode = P.cls('beanquery.query_compile', 'EvalNode')
        self._events = []
        for m in (qc, qe):
            self._run_module(m)
        src = P.modules.get('beanquery.sources.beancount')
        if src is not None:
            self._run_module(src)
        self._extract_misc()

    def _factory_for(self, module, fexpr, env):
        """Resolve the callee of a decorator application to (FuncInfo, pre_env) or None."""
        if isinstance(fexpr, ast.Name) and fexpr.id in env and isinstance(env[fexpr.id], tuple) \
                and env[fexpr.id] and env[fexpr.id][0] == 'boundcls':
            _, ci, fi = env[fexpr.id]
            return fi, {fi.params[0]: ci}
        d = module.dotted(fexpr)
        tgt = self.P.lookup(d) if d else None
        if isinstance(tgt, FuncInfo) and any(isinstance(s, ast.FunctionDef) for s in tgt.node.body):
            # bound classmethod access: Cls.column
            if isinstance(tgt.parent, ClassInfo) and self._is_classmethod(tgt):
                owner = self.P.resolve_class(module, fexpr.value) if isinstance(fexpr, ast.Attribute) else tgt.parent
                return tgt, {tgt.params[0]: owner}
            return tgt, {}
        return None

    @staticmethod
    def _is_classmethod(fi):
        return any(isinstance(d, ast.Name) and d.id == 'classmethod' for d in fi.node.decorator_list)

    def _run_module(self, module: Module):
        env = {}
        self._run_body(module.tree.body, env, module)

    def _run_body(self, body, env, module):
        for st in body:
            if isinstance(st, ast.FunctionDef):
                fi = self._fi_for_node(module, st)
                for dec in reversed(st.decorator_list):
                    w = self._wrapping_decorator(module, dec, fi)
                    if w is not None:
                        fi = w          # what the decorators above it (and the registries) receive
                        continue
                    self._apply_decorator(module, dec, fi, env)
            elif isinstance(st, ast.ClassDef):
                ci = self._ci_for_node(module, st)
                target = ci
                if st.name in env.get('__loopclasses__', ()):  # pragma: no cover
                    pass
                for dec in reversed(st.decorator_list):
                    self._apply_decorator(module, dec, target, env)
                self._class_body(module, ci, env)
                env[st.name] = ClassInst(ci, dict(env), {}, st) if env.get('__inloop__') else ci
            elif isinstance(st, ast.Assign) and len(st.targets) == 1 and isinstance(st.targets[0], ast.Name):
                name = st.targets[0].id
                v = st.value
                # column = EntriesTable.column
                fac = None
                if isinstance(v, ast.Attribute):
                    owner = self.P.resolve_class(module, v.value)
                    if isinstance(owner, ClassInfo):
                        m = self.P.find_method(owner, v.attr)
                        if isinstance(m, FuncInfo) and self._is_classmethod(m):
                            fac = ('boundcls', owner, m)
                env[name] = fac if fac else self.ev(v, env, module)
            elif isinstance(st, ast.Assign) and len(st.targets) == 1 and isinstance(st.targets[0], ast.Subscript):
                # types.ALIASES[position.Position] = Position
                t = st.targets[0]
                d = module.dotted(t.value)
                if d == 'beanquery.types.ALIASES':
                    k = self.tok(module, t.slice)
                    v = self.P.resolve_class(module, st.value)
                    if isinstance(v, ClassInfo):
                        self.aliases[k] = v.fq
            elif isinstance(st, ast.For):
                it = self.ev(st.iter, env, module)
                if not isinstance(it, (list, tuple)):
                    continue   # loops that do not register anything we can read
                for item in it:
                    e2 = env
                    def bind(t, x):
                        if isinstance(t, ast.Name):
                            e2[t.id] = x
                        elif isinstance(t, (ast.Tuple, ast.List)) and isinstance(x, (list, tuple)) and len(t.elts) == len(x):
                            for t1, x1 in zip(t.elts, x):
                                bind(t1, x1)
                        else:
                            raise AnalysisError(f'{module.name}: loop target `{ast.unparse(t)}` not bound (line {st.lineno})')
                    bind(st.target, item)
                    e2['__inloop__'] = True
                    self._run_body(st.body, e2, module)
                    e2.pop('__inloop__', None)
            elif isinstance(st, ast.Expr) and isinstance(st.value, ast.Call):
                c = st.value
                # factory(args)(target)
                if isinstance(c.func, ast.Call) and len(c.args) == 1:
                    tgt = self.ev(c.args[0], env, module)
                    self._apply_decorator(module, c.func, tgt, env)
                # REG[key].append(X)  /  TABLES.append(X)
                elif isinstance(c.func, ast.Attribute) and c.func.attr == 'append' and len(c.args) == 1:
                    if isinstance(c.func.value, ast.Subscript):
                        reg = module.dotted(c.func.value.value) if not isinstance(c.func.value.value, ast.Name) \
                            or c.func.value.value.id not in env else None
                        reg = reg or module.dotted(c.func.value.value)
                        key = self.ev(c.func.value.slice, env, module)
                        val = self.ev(c.args[0], env, module)
                        self._handle_event(('register', reg, key, val), module, st)
                    else:
                        reg = module.dotted(c.func.value)
                        if reg and reg.endswith('.TABLES'):
                            ci = self.P.resolve_class(module, c.args[0])
                            if isinstance(ci, ClassInfo):
                                self.table_list.append(ci.fq)

    def _wrapping_decorator(self, module, dec, fi):
        """`@helper` (a plain name, not a factory call) where helper is a one-parameter function of the package that defines a nested
        function and returns it: the decorated name is bound to that nested function, closed over the original."""
        if isinstance(dec, ast.Call):
            return None
        d = module.dotted(dec)
        tgt = self.P.lookup(d) if d and d.split('.')[0] == self.P.PACKAGE else None
        if not isinstance(tgt, FuncInfo) or len(tgt.params) != 1 or tgt.node.args.vararg or tgt.node.args.kwarg:
            return None
        inner = [st for st in tgt.node.body if isinstance(st, ast.FunctionDef)]
        rets = [st for st in tgt.node.body if isinstance(st, ast.Return)]
        if len(inner) != 1 or len(rets) != 1:
            return None
        r = rets[0].value
        # return wrapper | return functools.wraps(func)(wrapper) | return functools.update_wrapper(wrapper, func)
        names = {n.id for n in ast.walk(r) if isinstance(n, ast.Name)} if r is not None else set()
        if inner[0].name not in names:
            return None
        wfi = self._fi_for_node(tgt.module, inner[0])
        from .loader import WrappedFuncInfo
        return WrappedFuncInfo(wfi, {tgt.params[0]: fi}, fi.wrapped if isinstance(fi, WrappedFuncInfo) else fi, tgt)

    def _fi_for_node(self, module, node):
        for fi in module.functions.values():
            if fi.node is node:
                return fi
        raise AnalysisError(f'{module.name}: function node not indexed: {node.name}')

    def _ci_for_node(self, module, node):
        for ci in module.classes.values():
            if ci.node is node:
                return ci
        raise AnalysisError(f'{module.name}: class node not indexed: {node.name}')

    def _apply_decorator(self, module, dec, target, env):
        if not isinstance(dec, ast.Call):
            return
        fac = self._factory_for(module, dec.func, env)
        if fac is None:
            return
        fi, pre = fac
        args = [self.ev(a, env, module) for a in dec.args]
        kwargs = {k.arg: self.ev(k.value, env, module) for k in dec.keywords}
        events = self.apply_factory(fi, args, kwargs, target, dec, module, pre)
        for ev in events:
            self._handle_event(ev, module, dec, factory=fi, target=target)

    def _handle_event(self, ev, module, site, factory=None, target=None):
        kind = ev[0]
        if kind == 'register':
            _, reg, key, val = ev
            if reg is None:
                return
            if reg.endswith('.OPERATORS'):
                self._add_op(key, val, site, module)
            elif reg.endswith('.FUNCTIONS'):
                self._add_fn(key, val, site, module, factory, target)
            else:
                self.nonreg_events.append(ev)
        elif kind == 'column':
            _, owner, key, inst = ev
            if not isinstance(owner, ClassInfo):
                raise AnalysisError(f'{module.name}: column registered on unknown owner {owner!r}')
            dt = self.as_tok(self.init_dtype(inst, 0))
            impl = inst.env.get('func') if isinstance(inst, ClassInst) else None
            call = self.class_attr(inst, '__call__') if isinstance(inst, ClassInst) else None
            cols = self.tables.setdefault(owner.fq, {})
            self.table_info[owner.fq] = owner
            cols[key] = ColumnDef(owner.fq, key, dt, 'func', impl, site, inst)

    def _add_op(self, key, val, site, module):
        if isinstance(key, Sym):
            kind = ast.unparse(key.expr).split('.')[-1]
            kd = key.module.dotted(key.expr)
            if not (kd or '').startswith('beanquery.parser.ast.'):
                raise AnalysisError(f'{module.name}: operator key {key!r} is not a parser AST class')
        else:
            raise AnalysisError(f'{module.name}: operator key {key!r} not understood')
        if not isinstance(val, ClassInst):
            raise AnalysisError(f'{module.name}: operator registration of {val!r} not understood')
        intypes = self.as_toks(self.class_attr(val, '__intypes__'), f'{module.name}:{kind}')
        out = self.as_tok(self.init_dtype(val, len(intypes)))
        mro = self.mro_of(val)
        base = next((c for c in mro[1:] if isinstance(c, ClassInfo)), None)
        impl = val.env.get('func')
        if isinstance(impl, Sym):
            tgt = self.P.lookup(impl.module.dotted(impl.expr) or '')
            impl = tgt if isinstance(tgt, FuncInfo) else impl.module.dotted(impl.expr)
        elif not isinstance(impl, FuncInfo):
            impl = None
        self.ops.append(OpOverload(kind, intypes, out, impl, val, base, site))

    def _add_fn(self, key, val, site, module, factory, target):
        if not isinstance(key, str):
            raise AnalysisError(f'{module.name}: function registered under non-constant name {key!r}')
        if isinstance(val, ClassInst):
            # @function(...) closure class
            intypes = self.as_toks(self.class_attr(val, '__intypes__'), f'{module.name}:{key}')
            out = self.as_tok(self.init_dtype(val, 2))
            impl = val.env.get('func')
            pr = bool(val.env.get('pass_row'))
            pc = bool(val.env.get('pass_context'))
            pure = self.class_attr(val, 'pure')
            self.funcs.append(FnOverload(key, intypes, out, impl if isinstance(impl, FuncInfo) else None, val,
                                         'function', pr, pc, pure, site))
        elif isinstance(val, ClassInfo):
            inst = ClassInst(val, {}, {}, site)
            # attributes the decorator stored on the class (cls.__intypes__ = intypes)
            extra = {}
            if factory is not None:
                pass
            intypes_v = None
            # re-evaluate the decorator's class-attribute stores
            fenv = getattr(self, '_last_classattrs', None)
            intypes_v = self._decorator_classattrs.get(val.fq, {}).get('__intypes__') \
                if hasattr(self, '_decorator_classattrs') else None
            if intypes_v is None:
                intypes_v = self.class_attr(inst, '__intypes__')
            intypes = self.as_toks(intypes_v, f'{module.name}:{key}')
            out = self.as_tok(self.init_dtype(inst, 2))
            is_agg = self.P.is_subclass(val, 'beanquery.query_compile:EvalAggregator')
            pure = self.class_attr(inst, 'pure')
            self.funcs.append(FnOverload(key, intypes, out, None, inst, 'aggregator' if is_agg else 'class',
                                         False, False, pure, site))
        else:
            raise AnalysisError(f'{module.name}: function registration of {val!r} not understood')

    # class-attribute stores performed by decorators on module-level classes
    def apply_factory(self, factory, args, kwargs, target, site, module, pre_env=None):
        env = dict(pre_env or {})
        env.update(self.bind_call(factory, args, kwargs, f'{module.name}:{getattr(site, "lineno", "?")}',
                                  skip=len(env)))
        inner = None
        work = list(factory.node.body)
        while work:
            st = work.pop(0)
            if isinstance(st, ast.FunctionDef):
                inner = st
            elif isinstance(st, (ast.Assert, ast.Pass)):
                pass
            elif isinstance(st, ast.Return):
                if not (isinstance(st.value, ast.Name) and inner is not None and st.value.id == inner.name):
                    raise AnalysisError(f'{factory.fq}: unsupported factory return')
            elif isinstance(st, ast.Expr) and isinstance(st.value, ast.Constant):
                pass
            elif isinstance(st, ast.Assign) and len(st.targets) == 1 and isinstance(st.targets[0], ast.Name) \
                    and isinstance(st.value, ast.Call) and self._factory_for(factory.module, st.value.func, env) is not None:
                # a decorator obtained from another factory of the package: applied by the inner function
                f2, pre2 = self._factory_for(factory.module, st.value.func, env)
                a2 = [self.ev(a, env, factory.module, factory) for a in st.value.args]
                k2 = {k.arg: self.ev(k.value, env, factory.module, factory) for k in st.value.keywords}
                env[st.targets[0].id] = ('factory-app', f2, pre2, a2, k2)
            elif isinstance(st, ast.Assign) and len(st.targets) == 1 and isinstance(st.targets[0], ast.Name):
                # a local of the factory (a base class chosen from its arguments, a name built once): visible to the inner function
                v = st.value
                if isinstance(v, ast.IfExp):
                    t = self.truth(v.test, env, factory.module, factory)
                    if t is None:
                        raise AnalysisError(f'{factory.fq}: condition of `{ast.unparse(st)[:60]}` not decided by the factory arguments')
                    v = v.body if t else v.orelse
                env[st.targets[0].id] = self.ev(v, env, factory.module, factory)
            elif isinstance(st, ast.If):
                # a choice made from the factory's arguments (`if nullsafe: base = A else: base = B`): the branch taken is run
                t = self.truth(st.test, env, factory.module, factory)
                if t is None:
                    raise AnalysisError(f'{factory.fq}: condition `{ast.unparse(st.test)[:60]}` not decided by the factory arguments')
                work[0:0] = list(st.body if t else st.orelse)
            else:
                raise AnalysisError(f'{factory.fq}: unsupported statement in decorator factory: {ast.unparse(st)[:60]}')
        if inner is None:
            raise AnalysisError(f'{factory.fq}: no inner decorator function')
        inner_fi = factory.module.functions[f'{factory.qualname}.<locals>.{inner.name}']
        if len(inner.args.args) != 1:
            raise AnalysisError(f'{factory.fq}: inner decorator must take one argument')
        env[inner.args.args[0].arg] = target
        events = []
        self._exec_factory_body(inner.body, env, inner_fi, events, site)
        if not hasattr(self, '_decorator_classattrs'):
            self._decorator_classattrs = {}
        for fq, attrs in env.get('__classattrs__', {}).items():
            self._decorator_classattrs.setdefault(fq, {}).update(attrs)
            if '__name__' in attrs:
                # registration key `cls.__name__` was evaluated before: nothing else to do
                pass
        return events

    # ------------------------------------------------------------------ tables declared in class bodies
    def _class_body(self, module, ci: ClassInfo, env):
        is_table = False
        try:
            is_table = self.P.is_subclass(ci, 'beanquery.tables:Table') or \
                self.P.is_subclass(ci, 'beanquery.types:Structure')
        except AnalysisError:
            return
        if not is_table:
            return
        local = {}
        for st in ci.node.body:
            if isinstance(st, ast.Assign) and len(st.targets) == 1 and isinstance(st.targets[0], ast.Name):
                name = st.targets[0].id
                local[name] = st.value
                if name != 'columns':
                    continue
                v = st.value
                cols = self._columns_value(module, ci, v, local)
                if cols is not None:
                    self.tables[ci.fq] = cols
                    self.table_info[ci.fq] = ci
            elif isinstance(st, ast.Delete):
                for t in st.targets:
                    if (isinstance(t, ast.Subscript) and isinstance(t.value, ast.Name) and t.value.id == 'columns'
                            and isinstance(t.slice, ast.Constant)):
                        self.tables.get(ci.fq, {}).pop(t.slice.value, None)
                        self.nonreg_events.append(('del-column', ci.fq, t.slice.value))

    def _columns_value(self, module, ci, v, local):
        if isinstance(v, ast.Dict):
            cols = {}
            for k, x in zip(v.keys, v.values):
                if not isinstance(k, ast.Constant):
                    raise AnalysisError(f'{ci.fq}: non-constant column name')
                cols[k.value] = self._column_instance(module, ci, k.value, x)
            return cols
        if isinstance(v, ast.Call) and isinstance(v.func, ast.Attribute) and v.func.attr == 'copy' and not v.args:
            src = v.func.value
            if isinstance(src, ast.Attribute) and src.attr == 'columns':
                owner = self.P.resolve_class(module, src.value)
                if isinstance(owner, ClassInfo):
                    return dict(self.tables.get(owner.fq, {}))
        if isinstance(v, ast.Attribute) and v.attr == 'columns':
            owner = self.P.resolve_class(module, v.value)
            if isinstance(owner, ClassInfo):
                self.record_of = getattr(self, 'record_of', {})
                if owner.fq in self.record_of:
                    self.record_of[ci.fq] = self.record_of[owner.fq]
                return self.tables.get(owner.fq, {})   # same object: alias
        if isinstance(v, ast.Call):
            d = module.dotted(v.func)
            tgt = self.P.lookup(d) if d else None
            if isinstance(tgt, FuncInfo) and tgt.name == '_typed_namedtuple_to_columns':
                arg = v.args[0]
                if isinstance(arg, ast.Name) and arg.id in local:
                    arg = local[arg.id]
                rec = self.tok(module, arg)
                renames = {}
                if len(v.args) > 1:
                    renames = ast.literal_eval(v.args[1])
                return self._typed_columns(ci, rec, renames, v)
        raise AnalysisError(f'{ci.fq}: unsupported `columns = {ast.unparse(v)[:60]}`')

    def _typed_columns(self, ci, rec, renames, site):
        """The derivation of `_typed_namedtuple_to_columns`, over the record's annotations."""
        meta_cls = self.P.modules['beanquery.sources.beancount'].classes.get('Metadata')
        cols = {}
        for name, hint in typing.get_type_hints(rec).items():
            dtype = hint
            while True:
                origin = typing.get_origin(dtype)
                if origin is typing.Union:
                    ds = [t for t in typing.get_args(dtype) if t is not NoneT]
                    if len(ds) != 1:
                        raise AnalysisError(f'{ci.fq}: annotation of {rec.__name__}.{name} is a wide Union')
                    dtype = ds[0]
                elif origin is not None:
                    dtype = origin
                else:
                    break
            if name == 'meta' and dtype is dict and meta_cls is not None:
                dtype = self.synth(meta_cls)
            colname = renames.get(name, name)
            cols[colname] = ColumnDef(ci.fq, colname, dtype, 'getattr', name, site,
                                      self.P.modules['beanquery.sources.beancount'].classes.get('GetAttrColumn'))
        cols['__record__'] = rec
        rec_ = cols.pop('__record__')
        self.record_of = getattr(self, 'record_of', {})
        self.record_of[ci.fq] = rec_
        return cols

    def _column_instance(self, module, ci, name, x):
        if isinstance(x, ast.Call):
            cls = self.P.resolve_class(module, x.func)
            if isinstance(cls, ClassInfo) and cls.name == 'GetItemColumn':
                return ColumnDef(ci.fq, name, self.tok(module, x.args[1]), 'getitem',
                                 ast.literal_eval(x.args[0]), x, cls)
            if isinstance(cls, ClassInfo) and cls.name == 'GetAttrColumn':
                return ColumnDef(ci.fq, name, self.tok(module, x.args[1]), 'getattr',
                                 ast.literal_eval(x.args[0]), x, cls)
        raise AnalysisError(f'{ci.fq}: unsupported column instance {ast.unparse(x)[:60]}')

    # ------------------------------------------------------------------ misc registries
    def _extract_misc(self):
        P = self.P
        # structures vs tables
        for fq in list(self.tables):
            ci = self.table_info[fq]
            if P.is_subclass(ci, 'beanquery.types:Structure'):
                self.structures[fq] = self.tables.pop(fq)
        # tables that inherit `columns` (none today) are not synthesised
        tm = P.module('beanquery.types')
        mp = tm.assigns.get('MAP')
        if isinstance(mp, ast.Dict):
            for k, v in zip(mp.keys, mp.values):
                self.types_map[self.tok(tm, k)] = ast.literal_eval(v)
        nm = P.modules.get('beanquery.numberify')
        if nm and isinstance(nm.assigns.get('CONVERTING_TYPES'), ast.Dict):
            d = nm.assigns['CONVERTING_TYPES']
            for k, v in zip(d.keys, d.values):
                self.converting_types[self.tok(nm, k)] = ast.unparse(v)
        rm = P.modules.get('beanquery.query_render')
        if rm:
            for ci in rm.classes.values():
                if 'dtype' in ci.attrs and ci.parent is None:
                    dt = ci.attrs['dtype']
                    try:
                        self.renderers[self.tok(rm, dt)] = ci
                    except AnalysisError:
                        pass
        src = P.modules.get('beanquery.sources.beancount')
        if src:
            t = src.assigns.get('TABLES')
            first = []
            if isinstance(t, ast.List):
                for e in t.elts:
                    c = P.resolve_class(src, e)
                    if isinstance(c, ClassInfo):
                        first.append(c.fq)
            # registrars: functions of the module that append (one of) their parameters to TABLES, directly or through another
            # registrar; registrations: module-level `TABLES.append(X)` / `registrar(X)`, classes decorated with a registrar, and
            # the subclasses of a class whose __init_subclass__ is a registrar.  Order = order of execution at import (line).
            registrars = {}

            def appended_param(fi):
                """name of the parameter a function appends to TABLES, or None"""
                for n in ast.walk(fi.node):
                    if isinstance(n, ast.Call) and n.args and isinstance(n.args[0], ast.Name) and n.args[0].id in fi.params:
                        f = n.func
                        if isinstance(f, ast.Attribute) and f.attr == 'append' and (src.dotted(f.value) or '').endswith('.TABLES'):
                            return n.args[0].id
                        if isinstance(f, ast.Name) and f.id in registrars:
                            return n.args[0].id
                return None
            changed = True
            while changed:
                changed = False
                for fi in src.functions.values():
                    key = fi.qualname
                    short = fi.name if fi.parent is None else key
                    if short in registrars or key in registrars:
                        continue
                    pn = appended_param(fi)
                    if pn is not None:
                        registrars[short] = fi
                        registrars[key] = fi
                        changed = True
            events = []
            for st in src.tree.body:
                if isinstance(st, ast.Expr) and isinstance(st.value, ast.Call) and st.value.args:
                    f = st.value.func
                    direct = isinstance(f, ast.Attribute) and f.attr == 'append' and (src.dotted(f.value) or '').endswith('.TABLES')
                    helper = isinstance(f, ast.Name) and f.id in registrars
                    if direct or helper:
                        c = P.resolve_class(src, st.value.args[0])
                        if isinstance(c, ClassInfo):
                            events.append((st.lineno, c.fq))
                if isinstance(st, ast.ClassDef):
                    ci = self._ci_for_node(src, st)
                    for d in st.decorator_list:
                        if isinstance(d, ast.Name) and d.id in registrars:
                            events.append((st.end_lineno or st.lineno, ci.fq))
                    for base in P.mro(ci)[1:]:
                        if isinstance(base, ClassInfo) and f'{base.qualname}.__init_subclass__' in registrars:
                            events.append((st.lineno, ci.fq))
                            break
            ordered = []
            for _, fq in sorted(events):
                ordered.append(fq)
            self.table_list = first + ordered

    def _append_line(self, module, fq):
        for st in module.tree.body:
            if isinstance(st, ast.Expr) and isinstance(st.value, ast.Call) and isinstance(st.value.func, ast.Attribute) \
                    and st.value.func.attr == 'append' and st.value.args:
                c = self.P.resolve_class(module, st.value.args[0])
                if isinstance(c, ClassInfo) and c.fq == fq:
                    return st.lineno
        return 10 ** 9

    # ------------------------------------------------------------------ views
    def ops_by_kind(self):
        out = {}
        for o in self.ops:
            out.setdefault(o.kind, []).append(o)
        return out

    def funcs_by_name(self):
        out = {}
        for f in self.funcs:
            out.setdefault(f.name, []).append(f)
        return out

    def table_by_name(self):
        out = {}
        for fq, ci in self.table_info.items():
            if fq in self.tables and 'name' in ci.attrs and isinstance(ci.attrs['name'], ast.Constant):
                out[ci.attrs['name'].value] = fq
        return out

    def universe(self):
        """The closed set of dtypes a node can announce."""
        U = set()
        for o in self.ops:
            U.add(o.outtype)
            U.update(t for t in o.intypes if isinstance(t, type))
        for f in self.funcs:
            if isinstance(f.outtype, type):
                U.add(f.outtype)
            U.update(t for t in f.intypes if isinstance(t, type))
        for cols in list(self.tables.values()) + list(self.structures.values()):
            for c in cols.values():
                U.add(c.dtype)
        U.update([int, bool, str, list, NoneT])   # constants: literals incl. NULL and lists
        import decimal, datetime
        U.update([decimal.Decimal, datetime.date])
        U.discard(None)
        return {t for t in U if isinstance(t, type)}

    # ------------------------------------------------------------------ witness
    def summary(self):
        def tn(t):
            if isinstance(t, OperandDtype):
                return f'operand{t.index}'
            return tname(t)
        ops = {}
        for o in self.ops:
            ops.setdefault(o.kind, []).append([[tn(t) for t in o.intypes], tn(o.outtype), o.label])
        fns = {}
        for f in self.funcs:
            fns.setdefault(f.name, []).append([tn(t) for t in f.intypes])
        tables = {}
        for fq, cols in self.tables.items():
            ci = self.table_info[fq]
            nm = ci.attrs.get('name')
            if isinstance(nm, ast.Constant):
                tables[nm.value] = [[k, tn(c.dtype)] for k, c in cols.items()]
        structs = {}
        for fq, cols in self.structures.items():
            ci = self.table_info[fq]
            nm = ci.attrs.get('name')
            if isinstance(nm, ast.Constant) and nm.value:
                structs[nm.value] = [[k, tn(c.dtype)] for k, c in cols.items()]
        return {'ops': ops, 'fns': fns, 'tables': tables, 'structs': structs}


WITNESS_SNIPPET = r'''
import sys, json
sys.path.insert(0, sys.argv[1])
import beanquery, beanquery.shell
from beanquery import query_compile, query_env, types
from beanquery.sources import beancount as src
assert beanquery.__file__.startswith(sys.argv[1]), beanquery.__file__
def tn(t): return getattr(t, '__name__', repr(t))
ops = {}
for k, lst in query_compile.OPERATORS.items():
    ops[k.__name__] = [[[tn(t) for t in c.__intypes__], None, c.__name__] for c in lst]
fns = {}
for k, lst in query_compile.FUNCTIONS.items():
    fns[k] = [[tn(t) for t in c.__intypes__] for c in lst]
tables = {}
for t in src.TABLES:
    tables[t.name] = [[k, tn(c.dtype)] for k, c in t.columns.items()]
structs = {}
for name, t in types.TYPES.items():
    structs[name] = [[k, tn(c.dtype)] for k, c in t.columns.items()]
# result dtypes of operator overloads need an instance: constructors only store their arguments
class _N:
    dtype = object
outs = {}
for k, lst in query_compile.OPERATORS.items():
    for c in lst:
        n = len(c.__intypes__)
        try:
            outs.setdefault(k.__name__, []).append(tn(c(*[_N()] * n).dtype))
        except Exception as e:
            outs.setdefault(k.__name__, []).append('ERR ' + repr(e))
fouts = {}
for k, lst in query_compile.FUNCTIONS.items():
    for c in lst:
        ops_ = [_N() for _ in c.__intypes__]
        try:
            fouts.setdefault(k, []).append(tn(c(None, ops_).dtype))
        except Exception as e:
            fouts.setdefault(k, []).append('ERR ' + repr(e))
json.dump({'ops': ops, 'fns': fns, 'tables': tables, 'structs': structs, 'outs': outs, 'fouts': fouts}, sys.stdout)
'''


def witness(reg: Registry):
    """Compare the syntax-derived registries with the live ones (subprocess import)."""
    r = subprocess.run([sys.executable, '-c', WITNESS_SNIPPET, reg.P.repo], capture_output=True, text=True,
                       cwd='/', timeout=120)
    if r.returncode != 0:
        raise AnalysisError('extraction witness: the tree does not import: ' + r.stderr.strip().splitlines()[-1][:300]
                            if r.stderr.strip() else 'extraction witness failed')
    live = json.loads(r.stdout)
    mine = reg.summary()
    # operators
    for kind in sorted(set(live['ops']) | set(mine['ops'])):
        a = [(x[0], x[2]) for x in live['ops'].get(kind, [])]
        b = [(x[0], x[2]) for x in mine['ops'].get(kind, [])]
        if kind == 'Between':
            a = [x[0] for x in a]
            b = [x[0] for x in b]
        if a != b:
            raise AnalysisError(f'extraction witness: operator {kind}: live {a[:3]}... != extracted {b[:3]}... '
                                f'({len(a)} vs {len(b)})')
        lo = live['outs'].get(kind, [])
        mo = [x[1] for x in mine['ops'].get(kind, [])]
        if lo != mo:
            raise AnalysisError(f'extraction witness: operator {kind} result types: live {lo} != extracted {mo}')
    for name in sorted(set(live['fns']) | set(mine['fns'])):
        if live['fns'].get(name) != mine['fns'].get(name):
            raise AnalysisError(f'extraction witness: function {name}: live {live["fns"].get(name)} != '
                                f'extracted {mine["fns"].get(name)}')
    for f_name, outs in live['fouts'].items():
        mo = []
        for f in reg.funcs:
            if f.name == f_name:
                mo.append('object' if isinstance(f.outtype, OperandDtype) else tname(f.outtype))
        if outs != mo:
            raise AnalysisError(f'extraction witness: function {f_name} result types: live {outs} != extracted {mo}')
    for kind in ('tables', 'structs'):
        for name in sorted(set(live[kind]) | set(mine[kind])):
            if live[kind].get(name) != mine[kind].get(name):
                raise AnalysisError(f'extraction witness: {kind[:-1]} {name}: live {live[kind].get(name)} != '
                                    f'extracted {mine[kind].get(name)}')
    return {'operators': sum(len(v) for v in live['ops'].values()),
            'functions': sum(len(v) for v in live['fns'].values()),
            'tables': len(live['tables']), 'structs': len(live['structs'])}


_CACHE = {}


def get(P: Program, with_witness=True) -> Registry:
    key = (P.repo, P.digest())
    if key not in _CACHE:
        reg = Registry(P)
        reg.witness_counts = witness(reg) if with_witness else None
        _CACHE[key] = reg
    return _CACHE[key]
