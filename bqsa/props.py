"""Property -> rules.  The explanation/assumption texts end up in the evidence files."""
from .rules import dtype, evalnodes, executor

TRUSTED_ABSINT = [
    "Python/library semantics of operators, attributes, methods and whitelisted callables are obtained by applying "
    "the primitive to fixed representative sample values per type atom (bqsa/absint.py SAMPLES); a result type that "
    "only arises for unsampled values would be missed",
    "beancount's NamedTuple annotations describe ledger data, plus two invariants of loaded ledgers "
    "(Posting.units is an Amount, Posting.cost is a Cost or None)",
    "hand-typed results of 15 beancount/stdlib callables (bqsa/absint.py CALL_TABLE)",
    "the registry extractor is checked on every run against the live registries of the imported package "
    "(extraction witness); a disagreement ends the run as ANALYSIS-ERROR",
]

TRUSTED_STRUCT = [
    "Python's own semantics of the statements a rule reads (if/for/return, truthiness, `is None`)",
    "structural rules recognise the shape of the code they are written for; a rewrite into a shape a rule does not "
    "understand ends the run as ANALYSIS-ERROR (exit 2), never as a verdict",
]

PROPS = {
    'C01': {
        'level': 'other',
        'explanation': (
            "Static necessary conditions of row-level evaluation, each decided for every overload / path / argument "
            "count: NULL-strictness of every operator and function evaluator by null-flow abstract interpretation "
            "(R-NULLSTRICT, incl. the census of which operator kinds sit on the NULL-aware base); zero-divisor guards "
            "of all Div/Mod overloads (R-DIVGUARD); the int/decimal promotion table and bool results of the registry "
            "(R-PROMOTE); each operator kind applies the Python operation of its name to its operands in order "
            "(R-OPSEM); AND / OR / COALESCE truth tables by exhaustive finite-domain interpretation, valid for every "
            "arity (R-3VL, product automaton vs. the specification); the non-aggregate scan keeps a row iff the "
            "condition is absent or true, appends once per row, evaluates every target on that row (R-ROWLOOP, 4 "
            "gate cases executed abstractly); FROM expression AND-ed with WHERE (R-FROMAND, 4 cases). Does not "
            "decide the numeric value of an operator application, regular-expression results or overload "
            "resolution for nested expressions."),
        'assumptions': TRUSTED_STRUCT + TRUSTED_ABSINT[3:],
        'quick': [evalnodes.rule_nullstrict, evalnodes.rule_divguard, evalnodes.rule_promote, evalnodes.rule_opsem,
                  evalnodes.rule_3vl, executor.rule_rowloop, executor.rule_fromand],
        'thorough': [],
    },
    'C04': {
        'level': 'other',
        'explanation': (
            "Static abstract interpretation, exhaustive over the registries reconstructed from syntax: for every "
            "operator overload, scalar function overload, aggregate (for every operand dtype its signature admits "
            "through the MRO rule), every entries/postings column accessor, every typed-table column and structured "
            "attribute, the set of value types the implementation can return is inferred and must be NULL or "
            "conform to the announced dtype (R-DTYPE); no admitted operand-type combination may lead to a definite "
            "TypeError/AttributeError inside the implementation (R-TYPESAFE; `Any` parameters range over the closed "
            "universe of announceable dtypes); every announceable dtype has a renderer (R-RENDERABLE); the "
            "compiler's resolution of operators over all dtype pairs is replayed abstractly in the thorough tier "
            "(R-RESOLVE-SAFE). Decides type conformance of declarations vs. implementations for all overloads; "
            "does not decide values of dtype `object` nor conformance of ledger data to beancount's annotations."),
        'assumptions': TRUSTED_ABSINT,
        'quick': [dtype.rule_dtype, dtype.rule_typesafe, dtype.rule_renderable],
        'thorough': [],
    },
}
