"""Property -> rules.  The explanation/assumption texts end up in the evidence files."""
from .rules import dtype, evalnodes, executor, aggregates, eqfaith, compiler_rules as cr
from .rules import cursor_rules as cu, library_rules as lib, state_rules as st, grammar_rules as gr
from .rules import table_rules as tb, clause_rules as cl, sx_exec as sx, sx_cursor as sxc, sx_compiler as sxk, sx_select as sxs, sx_pivot as sxp, sx_tables as sxt, sx_numberify as sxn, sx_state as sxst, sx_types as sxty, sx_library as sxl, sx_datebin as sxdb, sx_guards as sxg, sx_shell as sxsh, sx_aggclass as sxag, sx_evalnodes as sxev

TRUSTED_ABSINT = [
    "Python/library semantics of operators, attributes, methods and whitelisted callables are obtained by applying "
    "the primitive to fixed representative sample values per type atom (bqsa/absint.py SAMPLES); a result type that "
    "only arises for unsampled values would be missed",
    "beancount's NamedTuple annotations describe ledger data, plus two invariants of loaded ledgers "
    "(Posting.units is an Amount, Posting.cost is a Cost or None)",
    "hand-typed results of 15 beancount/stdlib callables (bqsa/absint.py CALL_TABLE)",
    "the registry extractor is checked on every run against the live registries of the imported package "
    "(extraction witness); a disagreement ends the run as ANALYSIS-ERROR",
]

TRUSTED_STRUCT = [
    "Python's own semantics of the statements a rule reads (if/for/return, truthiness, `is None`)",
    "structural rules recognise the shape of the code they are written for; a rewrite into a shape a rule does not "
    "understand ends the run as ANALYSIS-ERROR (exit 2), never as a verdict",
]

PROPS = {
    'C01': {
        'level': 'other',
        'explanation': (
            "Static necessary conditions of row-level evaluation, each decided for every overload / path / argument "
            "count: NULL-strictness of every operator and function evaluator by null-flow abstract interpretation "
            "(R-NULLSTRICT, incl. the census of which operator kinds sit on the NULL-aware base); zero-divisor guards "
            "of all Div/Mod overloads (R-DIVGUARD); the int/decimal promotion table and bool results of the registry "
            "(R-PROMOTE); each operator kind applies the Python operation of its name to its operands in order "
            "(R-OPSEM); AND / OR / COALESCE truth tables by exhaustive finite-domain interpretation, valid for every "
            "arity (R-3VL, product automaton vs. the specification); the non-aggregate scan keeps a row iff the "
            "condition is absent or true, appends once per row, evaluates every target on that row (R-ROWLOOP, 4 "
            "gate cases executed abstractly); FROM expression AND-ed with WHERE (R-FROMAND, 4 cases). Does not "
            "decide the numeric value of an operator application, regular-expression results or overload "
            "resolution for nested expressions. The constant a cell computes with is the parameter written at that place: positional placeholders bind in textual order whatever the order clauses are compiled in (R-PLACEHOLDER). R-DIVGUARD and the operator terms of R-OPSEM are decided by interpreting each implementation on terms with a zero and a non-zero divisor: no division by the second operand is evaluated before the zero test, the zero case returns NULL, the other case returns the operation of the operator's name. AND / OR / COALESCE are interpreted on terms for every operand list of length 1-3 over NULL, FALSE, TRUE, zero/empty and other values: the value is that of the truth table (NULL, FALSE or TRUE for AND / OR), operands are evaluated once, left to right, and evaluation stops where the statement says it stops (R-3VL). No evaluator writes state that outlives the row (write census, R-SHARED): a cell is computed from its row alone. R-NULLSTRICT is decided on terms: every NULL / non-NULL operand assignment of every NULL-propagating evaluator class (and every outcome of the comparisons between non-NULL values); a NULL reaches neither the operation nor an ordering comparison nor arithmetic. The function-call evaluator recognises NULL operands by identity (R-EVALALL). AND, OR, literals, `*` and column names compile to the node of that meaning over all their arguments in source order (R-NODEBUILD, handlers interpreted on terms). The scalar functions a cell is computed with are the recorded definitions (R-DEFN, see C18). The source tables hand the scan one row per directive resp. posting, and the null table `#` exactly one NULL row (R-ROWGEN). The operator handlers return the overload of the operator written, applied to the compiled operands in order, whatever the syntax of the operands (R-OPNODE): no operator is rewritten into another one (NOT (a < b) is not a >= b: NOT NULL is TRUE). No evaluator writes to its node while evaluating a row (R-ROWPURE, from the write census; the cache of an uncorrelated subquery is the one confirmed exception). Subscripts and attribute accesses on a non-NULL container give the entry for the key (NULL when missing, the default of getitem(x, k, d)) resp. the field getter applied to the value (R-ACCESSEVAL). IN / NOT IN are compiled as membership over the operands as written, whatever the length of the list (R-INOP): a one-element list is not an equality."),
        'assumptions': TRUSTED_STRUCT + TRUSTED_ABSINT[3:],
        'quick': [sxev.rule_nullstrict, evalnodes.rule_divguard, evalnodes.rule_promote, evalnodes.rule_opsem,
                  sxev.rule_3vl, sx.rule_rowloop, sxk.rule_fromand, sxk.rule_implicitcast, gr.rule_precmatrix, sxst.rule_placeholder, st.rule_shared, sxev.rule_evalall, sxk.rule_nodebuild, sxl.rule_defn, sxt.rule_rowgen, sxg.rule_opnode, st.rule_rowpure, sxev.rule_accesseval, sxk.rule_inop],
        'thorough': [],
    },
    'C02': {
        'level': 'other',
        'explanation': (
            "Static necessary conditions of aggregation: the allocate -> initialize -> update* -> finalize -> read protocol "
            "of the executor's aggregate branch read structurally and its WHERE/HAVING gates executed over the finite "
            "domain {absent, NULL, false, true} (R-AGGPROTO); the fold contract of each of the 11 aggregate classes "
            "(count/sum/min/max/first/last) decided by executing update() over value x slot x ordering classes, plus "
            "group-state isolation and fresh zero per group (R-AGGCLASS, exhaustive over 12 cases per class); "
            "faithfulness of the structural node equality used to merge GROUP BY expressions with targets, for all "
            "evaluator classes and all column instances that can meet in one table (R-EQFAITH); grouping references "
            "validated against the domain they are resolved in (R-IDXBOUND) and hidden grouping targets nameless and "
            "appended (R-HIDDEN). Does not decide numeric values of folds nor hashing/equality of key values. Every aggregate node of a target expression is found, once per occurrence and left to right, by get_columns_and_aggregates (R-AGGCOLLECT): a node left out is never allocated, updated or finalized. R-AGGCLASS decides, on terms, the final state of the slot and the mutations of the accumulator object for every value x slot x order x state-query case of every aggregate class, and initialize / finalize / __call__. EvalNode.__eq__ itself holds iff same class and all __slots__ attributes equal (16 cases on terms). Every operand a node is built with is among what childnodes() yields, for each of the 12 evaluator classes (R-CHILDNODES): an operand kept in a tuple or outside __slots__ hides the aggregates below it. The slot allocator on terms: n allocate() calls return n different indexes, all valid in every store create_store() makes afterwards, and every store is a new list of NULLs (R-ALLOCATOR). An aggregate query that returns after the scan without walking the groups, on a condition that is not about the group container being empty, is a violation (R-AGGPROTO early-return). LIMIT, DISTINCT and ORDER BY act on the groups: with any of them the aggregates are still fed from every selected row of the source table itself (R-AGGPROTO scan), and a grouped query without any aggregate still assigns every selected row to the group of its full key, visible or not (R-AGGPROTO grouping). Evaluators other than the aggregates keep nothing on the node between rows or groups (R-ROWPURE): HAVING and the targets of every group are evaluated afresh. BALANCES is a grouped aggregate SELECT: its WHERE clause, FROM clause and summary function reach the expansion (R-FIELDFLOW), so the rows that are folded are the selected ones. A group whose slot ends NULL makes the node NULL - the node object serves all groups (R-AGGCLASS finalize-null). GROUP BY with two keys (name, position, new expression in both orders, two new expressions) resolves each key on its own, a name to the output of that name whatever columns the table has (R-HIDDEN multi-key); every SELECT target has an evaluator node of its own (R-TARGETNODE). An operator handler builds one node of the operator written over the operands it compiled, each handed to one parent (R-OPNODE): an aggregate below an operand handed to two parents would be collected and updated twice."),
        'assumptions': TRUSTED_STRUCT,
        'quick': [sxs.rule_aggproto, sxag.rule_aggclass, eqfaith.rule_eqfaith, sxk.rule_idxbound, cr.rule_hidden, sxg.rule_aggcollect, sxev.rule_childnodes, sxs.rule_allocator, st.rule_rowpure, cl.rule_fieldflow, cr.rule_targetnode, sxg.rule_opnode],
        'thorough': [sxs.rule_aggproto_deep, sxk.rule_idxbound_deep],
    },
    'C03': {
        'level': 'other',
        'explanation': (
            "Static necessary conditions of ORDER BY / DISTINCT / LIMIT: the result pipeline applies sort -> projection "
            "to visible columns -> DISTINCT -> LIMIT in this order, LIMIT gated by `is not None` (LIMIT 0) with the "
            "bound itself (R-PIPELINE); the multi-pass stable sort skeleton: passes from last key to first in runs of "
            "equal direction, keys restored to left-to-right order inside a run, stable list.sort with reverse = run "
            "direction and the NULL-totalising key (R-SORTSKEL); NULL replaced by a marker smaller than everything in "
            "both key getters, NullType ordering, first-occurrence de-duplication, all by exhaustive finite-domain "
            "execution (R-NULLKEY); faithfulness of node equality used to merge ORDER BY keys (R-EQFAITH); positional "
            "keys validated against the number of visible targets (R-IDXBOUND); hidden keys nameless (R-HIDDEN). Does "
            "not prove that the multi-pass scheme yields the lexicographic order (an algorithmic fact about stable "
            "sorts) nor comparability of values. For a compiled SELECT execute_query returns, on every path, the pair execute_select returned (R-QUERYEXEC): ordering, de-duplication and the cut have one implementation. Executing a compiled statement leaves it as it was - the ORDER BY specification, the targets and the limit are read, never changed (R-INPUTMUT over the executor, whose `query` argument is caller-owned) - so a statement compiled once orders its result the same way every time it is executed. ORDER BY with two new expressions gives the second the index after the first (R-HIDDEN multi-key)."),
        'assumptions': TRUSTED_STRUCT,
        'quick': [sxs.rule_pipeline, sxs.rule_sortskel, sx.rule_nullkey, eqfaith.rule_eqfaith,
                  sxk.rule_idxbound, cr.rule_hidden, sxs.rule_queryexec, st.rule_inputmut],
        'thorough': [sxs.rule_sortskel_deep, sxk.rule_idxbound_deep],
    },
    'C04': {
        'level': 'other',
        'explanation': (
            "Static abstract interpretation, exhaustive over the registries reconstructed from syntax: for every "
            "operator overload, scalar function overload, aggregate (for every operand dtype its signature admits "
            "through the MRO rule), every entries/postings column accessor, every typed-table column and structured "
            "attribute, the set of value types the implementation can return is inferred and must be NULL or "
            "conform to the announced dtype (R-DTYPE); no admitted operand-type combination may lead to a definite "
            "TypeError/AttributeError inside the implementation (R-TYPESAFE; `Any` parameters range over the closed "
            "universe of announceable dtypes); every announceable dtype has a renderer (R-RENDERABLE); operator handlers "
            "resolve overloads by operand dtypes (R-OPRESOLVE); COALESCE accepts only arguments of its first argument's "
            "type (R-COALESCE, 36 type pairs executed); untyped operands are cast to the other side's type, decimal for "
            "int (R-IMPLICITCAST); in the thorough tier every overload is also run for the subclass operands that the "
            "MRO lookup admits (R-ADMITTED). Decides type conformance of declarations vs. implementations for all overloads; "
            "does not decide values of dtype `object` nor conformance of ledger data to beancount's annotations. Also: the overload-resolution primitives of types.py (Any equals every class and not the `*` pseudo-type, the strict linearisation, first overload along it) behave as the registry model assumes (R-LOOKUP, 13 cases on terms), and every output column of both scan branches holds the value of its own target (R-ROWLOOP, R-AGGPROTO key layout). A subquery column announces the data type of the inner target whose row position it reads, with hidden, repeated and mixed-case inner names (R-VISFILTER). AND / OR announce bool and evaluate to NULL, FALSE or TRUE whatever the operand types (R-3VL). `x.attr` builds EvalGetter(x, field column, field column datatype) (R-ACCESSNODE); R-GUARDS: a grouping key of a type that cannot be hashed is rejected however it is referenced. Constants announce type(value) exactly, or the dtype they are given (R-CONSTTYPE). A query parameter becomes EvalConstant(value) with no dtype override (R-PLACEHOLDER): what the type checker sees is the exact class of the value executed with. One implementation registered under several names announces the same type for the same operand types (R-DTYPE alias agreement). NULL conforms to every declared type, so no operator or function implementation is applied to it: the evaluator classes the decorators choose propagate NULL before calling the implementation (R-NULLSTRICT, base census included: `-x` over a NULL x is NULL, not a TypeError)."),
        'assumptions': TRUSTED_ABSINT,
        'quick': [dtype.rule_dtype, dtype.rule_typesafe, dtype.rule_renderable, sxg.rule_opresolve, sxk.rule_coalesce,
                  sxk.rule_implicitcast, sxty.rule_lookup, sxs.rule_aggproto, sx.rule_rowloop, tb.rule_tablefields, cr.rule_visfilter, sxev.rule_3vl, sxk.rule_accessnode, sxg.rule_guards, sxk.rule_consttype, sxst.rule_placeholder, sxev.rule_accesseval, sxev.rule_nullstrict],
        'thorough': [dtype.rule_admitted],
    },
    'C05': {
        'level': 'other',
        'explanation': (
            "Static census of the rejection paths: every raise site reachable while parsing/compiling raises a "
            "ProgrammingError subclass (R-RAISE, 37 sites, 4 triaged exceptions); each of 18 acceptance rules of the "
            "statement is enforced: the handler, interpreted on an input that violates the rule (abstract expression "
            "trees of aggregate / column / operator / constant nodes, unresolvable names, wrong clause combinations), ends in "
            "a CompilationError, and on a satisfying input it does not (R-GUARDS); every site where an expression becomes a "
            "target - SELECT list, new ORDER BY expression, HAVING, new GROUP BY expression - rejects the bad trees (mixed "
            "aggregates, aggregates of aggregates directly or through an operator) and accepts the good ones (R-TARGETCHK); "
            "the guards themselves cannot "
            "raise TypeError/AttributeError (R-GUARDSAFE, abstract interpretation of FROM/SELECT compilation with the "
            "From node typed from its annotations); positional references validated in the domain they are resolved "
            "in, bounds executed for positions 0, 1, n, n+1, -1 (R-IDXBOUND); operator handlers resolve overloads by "
            "operand dtypes (R-OPRESOLVE); partial conversions in semantic actions total on the language of their "
            "grammar rule (R-PARTIAL); compile-time constant folding protected (R-FOLDSAFE); AST classes <-> compiler "
            "handlers <-> shell handlers exhaustive (R-EXHAUSTIVE); DB-API exception tree (R-EXCTREE); structural "
            "equality faithful (R-EQFAITH). Does not decide acceptance of every well-formed statement nor validity "
            "of parse positions produced by TatSu at run time. Also on terms: the 11 combinations of placeholder kinds and parameter kinds give the stated outcome (R-PLACEHOLDER), the 33 FROM clause combinations (R-FROMCLAUSE), IN / NOT IN operands (R-INOP), the resolution primitives (R-LOOKUP). Cursor.execute hands the compiler the connection context, the statement as given (or parsed from the text given) and the caller's parameter object itself - only None may be replaced - so the placeholder checks answer for what the caller passed (R-EXECFLOW). ast.walk visits every node once (R-WALK): the placeholder checks see every placeholder. The metadata accessors meta / entry_meta / any_meta are checked against their signature like any function before they are rewritten (R-GUARDS, 6 arity cases); IN (subquery) needs exactly one column - none is rejected like several (R-INOP). Acceptance is a function of the statement and the tables: compiling writes nothing into the statement tree it is given (R-INPUTMUT), so a parsed statement that was accepted once is not a different statement the next time. The location a ParseError carries is built from the offset of the failure in the whole text, pos = exc.pos and endpos = pos + 1 over the tokenizer of the failure (R-PARSELOC, parse() on terms with the generated parser failing)."),
        'assumptions': TRUSTED_STRUCT + TRUSTED_ABSINT[:1],
        'quick': [cr.rule_raise, sxg.rule_guards, sxg.rule_targetchk, cr.rule_guard_typesafe, sxk.rule_idxbound,
                  sxg.rule_opresolve, cr.rule_partial, cr.rule_foldsafe, cr.rule_exhaustive, cr.rule_exctree,
                  eqfaith.rule_eqfaith, sxk.rule_coalesce, sxk.rule_implicitcast, sxst.rule_placeholder, sxk.rule_fromclause, sxk.rule_inop, sxty.rule_lookup, sxev.rule_childnodes, sxc.rule_execflow, sxst.rule_walk, st.rule_inputmut, st.rule_parseloc],
        'thorough': [sxk.rule_idxbound_deep],
    },
    'C06': {
        'level': 'translation_validation',
        'explanation': (
            "Translation validation of the generated parser: bql.ebnf is re-translated with the pinned TatSu code "
            "generator and the result compared, as syntax trees, with the shipped parser.py method by method, plus the "
            "keyword set (R-REGEN; programs = rule methods compared): the shipped parser is the translation of the "
            "published grammar. On the grammar model: the precedence / associativity matrix (parent operator x operand "
            "position -> child operators admitted without parentheses) is DERIVED from the rules and compared with the "
            "level table of the property statement (R-PRECMATRIX, 43 cells); rule <-> AST class field agreement "
            "(R-ASTFIELDS); semantic actions name existing rules and produce the literal's Python type (R-SEMANTICS); no "
            "earlier terminal alternative of an ordered choice captures a prefix of a later one, by NFA product on the "
            "rules' regexes (R-SHADOW); clause openers reserved (R-KEYWORDS); every lexical class (comments, identifiers, "
            "strings, integers, decimals, dates) denotes exactly the language of its reference definition, decided by "
            "equivalence of the two finite automata, and the comment patterns copied into the generated parser equal the "
            "grammar's (R-LEXLANG); literal forms by language membership (R-LEXSPEC, thorough). Does not decide the behaviour of TatSu's run-time, hence not the round trip itself. The clauses of select / balances / journal / print / groupby are read in the order of the published language (R-CLAUSEORDER). Each of the 9 clause rules (select, from, groupby, order, pivotby, target, balances, journal, print) derives exactly the word sequences of the published language: the grammar expression is expanded to sequences of keywords and syntactic categories (helper rules in place, repetitions to one and two elements) and compared as a set with the specification kept in the checker (R-CLAUSELANG); no token contains white space (R-KEYWORDS keywords:spaced: such a token admits exactly that white space between its words). parse() hands the generated parser the text and the semantic actions and nothing else: no override of white space, comments, keywords, name guard or case folding, on the call or on the parser constructor (R-PARSEFRESH parsefresh:config). The structural semantic actions - ORDER BY direction (ASC when nothing is written), `*`, lists, and the default action that builds the node class of a typed rule from every captured field with TatSu's trailing underscores dropped - are decided on terms (R-SEMANTICS)."),
        'assumptions': ["TatSu's code generator (5.7.x, the version range pyproject.toml pins) is deterministic and "
                        "faithful to its input grammar", "no BQL text is parsed by the check"],
        'technique': 'translation validation (regenerate and compare syntax trees) + grammar-model analysis',
        'quick': [gr.rule_regen, gr.rule_precmatrix, gr.rule_astfields, gr.rule_semantics, gr.rule_shadow, gr.rule_keywords, gr.rule_lexlang, gr.rule_fieldonce, gr.rule_clauseorder, st.rule_parsefresh, gr.rule_clauselang, gr.rule_cutsafe],
        'thorough': [gr.rule_lexspec],
    },
    'C07': {
        'level': 'other',
        'explanation': (
            "Static necessary conditions of result shape and naming: helper targets created for GROUP BY / ORDER BY / "
            "HAVING always carry the name None and are appended after the visible ones; the naming priority alias > "
            "column name > stripped expression text executed over its 4 cases (R-HIDDEN); every consumer that derives "
            "the description, result rows or a nested table's columns from the compiled targets filters on the "
            "name, and subquery columns are numbered among the visible targets (R-VISFILTER); `*` expands to names "
            "that are columns of the table, for all 10 tables (R-WILDCARD); the expression text is text[pos:endpos] of "
            "the node's own parse info (R-NAMESLICE); projection to visible indexes (R-PIPELINE). Does not decide that "
            "the slice equals the expression's text for arbitrary spacing (positions come from TatSu at run time). execute_query returns what execute_select returned (R-QUERYEXEC) and every accepting path of _compile_select returns the EvalQuery built there over this statement's own compiled targets (R-SELECTNODE): there is no second place where a description is made, and no path on which the names of another SELECT are published. The target rule of the grammar is `expression [AS identifier]`: an alias is an identifier, so no visible column can have an empty or otherwise falsy name (R-CLAUSELANG on the target and select rules). cursor.description after execute() is the description execute_query returned, whatever it is - the empty tuple of a result without columns included (R-RESET). A target that repeats an earlier one in another spelling is named by its own source text (R-HIDDEN name-source with tree-equal targets). `*` over a FROM-subquery expands to every visible target of the subquery, in order, whatever the names look like - expression texts such as `sum(x)` included (R-SUBQNAMES; repeated names: known finding D30)."),
        'assumptions': TRUSTED_STRUCT,
        'quick': [cr.rule_hidden, cr.rule_visfilter, cr.rule_wildcard, cr.rule_nameslice, sxs.rule_pipeline, sxs.rule_queryexec, sxp.rule_selectnode, gr.rule_clauselang_target, sxc.rule_reset, cr.rule_subqnames],
        'thorough': [],
    },
    'C08': {
        'level': 'other',
        'explanation': (
            "Static necessary conditions of subquery composition: the compiler state that a FROM clause overwrites "
            "(the current table) is saved on entry to and restored on every exit from the compilation of a SELECT, so "
            "a nested SELECT cannot change the table of the enclosing one (R-REENTRANT); subquery columns are numbered "
            "among the visible inner targets, read row[i], carry the inner dtype and the rows come from executing "
            "that very subquery (R-VISFILTER); two different IN-subqueries do not compare equal (R-EQFAITH); the "
            "single-column guard exists (R-GUARDS) and the IN node is NULL-propagating (R-NULLSTRICT). Does not decide "
            "equality of nested and materialised results in general. IN / NOT IN hand the compiled operands on unmodified, wrap a one-column subquery as a constant list and reject wider ones (R-INOP). Compiling the enclosing SELECT stores nothing into the compiled subquery or its table, for ordered / unordered and plain / aggregate outer queries (R-QUERYFROZEN): FROM (q) runs over the rows q produces by itself, in q's order. `SELECT * FROM (q)` presents one column per visible target of q, in order (R-SUBQNAMES; for an inner query with two targets of the same name the columns collapse: known finding D30). `x IN (subquery)` evaluates the registered membership operators over the subquery's column: their result terms are Python membership, FALSE / TRUE for a non-member whatever else the column holds (R-OPSEM, now also here)."),
        'assumptions': TRUSTED_STRUCT,
        'quick': [sxst.rule_reentrant, cr.rule_visfilter, eqfaith.rule_eqfaith, sxg.rule_guards, sxev.rule_nullstrict,
                  sx.rule_subq1d, sxk.rule_inop, cr.rule_wildcard, sxst.rule_queryfrozen, cr.rule_subqnames, st.rule_rowpure, evalnodes.rule_opsem],
        'thorough': [],
    },
    'C09': {
        'level': 'other',
        'explanation': (
            "History independence as an effect property: a whole-package write census classifies the receiver of every "
            "attribute/item store, mutator call, setattr, global rebinding and memoising decorator in code that runs "
            "while a statement is compiled or executed; no write may reach an object owned by the caller (statement "
            "AST, parameters, ledger entries/options: R-INPUTMUT) nor an object created at import time or held by the "
            "connection (R-SHARED). Constant folding only behind all-constant operands and, for functions, behind "
            "purity, with purity = neither row nor context passed and no global/clock reads (R-FOLDPURE); positional "
            "placeholders numbered in textual order and read back from where the numbering is kept (R-PLACEHOLDER). "
            "Does not decide value equality of folded and unfolded evaluation. The census also follows: fields that hold connection objects, locals aliasing objects kept on self, results of `_compile` (which can be the table's own column objects), subscript reads of defaultdict fields of connection objects (a missing key is inserted), one-shot iterators stored on connection objects. The handlers of AND, OR, literals, `*` and column names build their node from the compiled arguments without evaluating anything (R-NODEBUILD): the only places where a constant expression is computed at compile time are the fold sites R-FOLDPURE decides, so a folded value and the per-row value cannot come from two different implementations of AND / OR. Every node of a statement is visited by ast.walk - fields, lists, nested lists, subqueries - exactly once, so every placeholder is counted and bound (R-WALK); a FROM subquery is compiled by the compiler of the enclosing statement, with its parameters and numbering (R-FROMCLAUSE); attaching a ledger leaves the caller's entries as they were (R-ATTACH). Every compilation runs on a new Compiler for the connection at hand (R-COMPILEFN). An ORDER BY / GROUP BY expression is matched to a target by the compiled expression, never by its text (`%s` is the same text whatever is bound to it): R-HIDDEN. A compiled aggregate query asks for its slots again on every execution (R-ALLOCATOR node-handle): executing it a second time - the same compiled subquery reached twice in one statement, or a statement compiled once - does not depend on the first."),
        'assumptions': TRUSTED_STRUCT + [
            "receiver lifetimes: instances of a class are IMPORT/CONNECTION/EXECUTION objects according to where the class is "
            "instantiated; attributes named entries/options/entry/posting/postings/meta/price_map hold caller-owned ledger data; "
            "parameters named node/query/statement/... in the compiler and cursor are caller-owned",
            "TatSu, beancount and dateutil internals perform no shared writes (summarised, not analysed)"],
        'quick': [st.rule_inputmut, st.rule_shared, st.rule_foldpure, sxst.rule_placeholder, sxk.rule_nodebuild, sxst.rule_walk, sxk.rule_fromclause, sxt.rule_attach, sxst.rule_compilefn, cr.rule_hidden, sxc.rule_execflow, sxs.rule_allocator],
        'thorough': [],
    },
    'C10': {
        'level': 'other',
        'explanation': (
            "The four row-delivering methods of the cursor are interpreted abstractly (term interpreter, no solver) on an opaque buffer: what is handed "
            "out, what is kept and how far the position counter moves are terms that must satisfy the protocol "
            "(fetchone: B[0] / B[1:] / +1; fetchmany: B[:n] / B[n:] / +len(B[:n]); fetchall: B / [] / +len(B); iteration "
            "delegates to a fetch), plus the not-executed and exhausted cases (R-FETCHSIB); execute() resets every piece "
            "of cursor state (R-RESET); rowcount reads only state written by __init__ and execute and is -1 on a fresh "
            "cursor (R-ROWCOUNT); description entries are 7-sequences of the DB-API fields (R-COLUMN7); module constants, "
            "required methods (R-MODCONST), every Connection.execute() returns a fresh cursor bound to the connection "
            "(R-FRESHCURSOR) and the exception tree (R-EXCTREE). Does not decide Python's slice arithmetic. execute() hands statement and parameters to the compiler unchanged (R-EXECFLOW). A description entry iterates, unpacks and converts to a tuple as the 7 fields: the Sequence mixin derives that from __len__ and __getitem__, and an override of __iter__ / __reversed__ in Column must deliver the same 7 terms in order (R-COLUMN7 column7:iteration). A connection starts with a table registry (the null table under ''), option dictionary and error list of its own, attaches the dsn it is given with its keyword arguments, picks the source module by the scheme of that dsn, hands parse / compile on unchanged and does nothing on close() (R-CONNECTION). Two description entries are equal exactly when name and type of both agree; a (name, datatype) tuple compares by those two; anything else is NotImplemented (R-COLUMNEQ). Cursor state is replaced as a whole: execute() writes description, rows, rowcount and position only after parsing, compiling and executing have all run (or puts all of them back to the __init__ state first), so a statement that fails leaves one consistent result behind (R-RESET partial); a fetch writes the buffer and the position and no other attribute of the cursor - an explicit fetchmany(n) does not change arraysize (R-FETCHSIB state); Column keeps the name and type it is given (R-COLUMN7 init)."),
        'assumptions': TRUSTED_STRUCT,
        'quick': [sxc.rule_fetchsib, sxc.rule_reset, sxc.rule_rowcount, sxc.rule_column7, cu.rule_modconst, sxc.rule_freshcursor, cr.rule_exctree, sxc.rule_execflow, sxc.rule_connection, sxc.rule_columneq],
        'thorough': [],
    },
    'C12': {
        'level': 'other',
        'explanation': (
            "Decides the running-balance half and the accumulation discipline of the sum half: the accessor that updates "
            "the row context's running inventory does so exactly once per row, guarded by state kept in the row context "
            "itself and keyed by the row id (executed over the three guard states), returns a copy, has no process-wide "
            "memo, and the row generators bump the row id once per yielded row (R-ONCEPERROW); no shared state "
            "(R-SHARED); the five sum aggregators skip NULL, accumulate with the mutator matching their operand type "
            "into a fresh per-group zero (R-AGGCLASS). NOT decided (outside static reach): that Inventory.reduce / "
            "add_position / convert.* form a homomorphism - beancount's arithmetic over run-time lots and prices. The evaluator built by the function decorator evaluates every operand once, in order, on every row, also after a NULL operand (R-EVALALL): a `balance` operand is never skipped. Every SELECT target - also one that repeats an earlier target, as `sum(position) AS total, sum(position) AS again` - is compiled to an evaluator node of its own, decided on the paths of _compile_targets with a repeated target whose compiled expression compares equal to the first (R-TARGETNODE; only the nodes are judged here, names belong to C07): an aggregate node is its target's accumulator, and a node shared by two targets would be updated twice per row. The `position` and `balance` columns read the posting's units and cost as they are - the whole cost, label included, is the lot key of the inventory sum (R-ACCESSPATH)."),
        'assumptions': TRUSTED_STRUCT,
        'quick': [sxst.rule_onceperrow, st.rule_shared, sxag.rule_aggclass, sxl.rule_reduce, sxev.rule_evalall, cr.rule_targetnode, tb.rule_accesspath],
        'thorough': [],
    },
    'C17': {
        'level': 'other',
        'explanation': (
            "The three amount-like converter families (Amount, Position, Inventory) are cross-checked as sibling "
            "implementations of one interface: column name template, frequency ordering of the currency census, decimal "
            "dtype, quantisation iff a formatter is given (R-SIBLINGS: the deviant sibling is reported, plus the absolute "
            "requirements of the statement); every dereference of a result cell is dominated by a NULL test, by abstract "
            "interpretation with cells typed T|NULL (R-NONEFLOW); non-amount columns are copied by an identity converter "
            "bound to the same index/name/dtype and rows are produced one per input row with converters in column order "
            "(R-IDENTITY). Does not decide that get_currency_units sums lots nor numeric equality after quantisation. Three scenarios of numberify_results: currencies present, an amount-like column without any currency (it disappears), two amount-like columns of one name and type (each decomposed from its own cells). run_query(numberify=True) hands the description and rows of the result and options['dcontext'].build() with its default precision to numberify_results (R-RUNQUERY). A constant - a literal or a query parameter - announces the exact class of its value (R-CONSTTYPE): an Inventory, Position or Amount handed in as a parameter and selected is a column of that type, which is what the converter lookup of numberify goes by."),
        'assumptions': TRUSTED_STRUCT + TRUSTED_ABSINT[:1],
        'quick': [sxn.rule_siblings, lib.rule_numberify_null, sxn.rule_identity, sxn.rule_runquery, sxsh.rule_selectout, sxk.rule_accessnode, sxk.rule_consttype],
        'thorough': [],
    },
    'C18': {
        'level': 'other',
        'explanation': (
            "Decides six clauses: (1) type casts (bool, int, decimal, str, date; 16 overloads) return the "
            "converted value or NULL and never raise - abstract interpretation of each cast body for every operand type "
            "it admits (untyped operands range over all announceable dtypes), with edge samples (NaN, Infinity, huge "
            "ints, malformed strings) for the conversion primitives; every exception a primitive can raise must be "
            "caught by the enclosing try (R-CASTTOTAL); (2) [sibling agreement of the calendar cuts is now a consequence of clause 5]; (3) the 26 functions that "
            "the statement defines by a Python primitive (upper, substr, splitcomp, date_diff, root, ...) return, on every "
            "path of their body (helpers inlined), the term of that primitive applied to their arguments in order "
            "(R-DEFN, term interpretation); (4) date_bin returns the start of the bin containing the source: for month / "
            "year strides the comparisons along every path of the search loops entail result <= source < result + stride "
            "(order entailment over the path's comparisons, loops unrolled three times, positive stride assumed as the "
            "function's own guard does); for day strides the arithmetic is interpreted exactly over linear forms in "
            "D = source - origin, S and S*floor(D/S) in the five sign / divisibility cases of D and the offset must be "
            "S*floor(D/S) in each (R-BINFLOOR); (5) date_trunc, date_part and quarter equal their calendar definition for "
            "every unit: the integer arithmetic over year / month is normalised exactly (atoms year, month, "
            "floor((field - a)/p)) and compared with the first day / the number of the unit that starts at fields "
            "congruent to a modulo p (decade 0/10, century 1/100, millennium 1/1000, quarter 1/3) - so an off-by-one applied "
            "consistently to all siblings is rejected as well (R-TRUNCLAW, 14 unit cases); (6) date(<string>) converts through "
            "strptime('%Y-%m-%d') and nothing else, date(y, m, d) is datetime.date(y, m, d), and possign / account_sortkey "
            "classify accounts with the account types of this very ledger (R-CASTDEF). NOT decided (equalities over run-time values, outside static reach): the "
            "inverse pairs (date_add / date_diff), ISO week numbers, regex results, decimal arithmetic. findfirst, grep and grepn are compared with reference implementations through the outside functions they apply and to what (re.match on each value in sorted order; re.search(pattern, string) and the group taken). R-DEFN also holds a definition per implementation for the functions several overloads share a name for or that branch - quarter, weekday, today, units / cost / value / convert of amounts, positions and inventories (the beancount.core.convert function each applies, with the price map of the connection), getprice, filter_currency, possign, parse_date - compared path by path (the same value under the same conditions, however the conditions are spelled); safediv is decided with a zero and a non-zero divisor (the decimal zero without any division, else x / y); interval() is decided for every unit word its pattern admits (relativedelta of that calendar unit with the integer written), the pattern itself on membership vectors (`[+-]digits blank(s) unit[s]` over the whole argument), NULL otherwise. Date and interval arithmetic is the operator overloads: every overload of + and - (date +/- int, date - date, date +/- interval, interval +/- interval) computes the Python operation of its name on its operands in order (R-OPSEM). Every implementation registered for the int and decimal casts returns the Python conversion of its argument or NULL, whichever operand type it is registered for (R-CASTDEF int / decimal)."),
        'assumptions': TRUSTED_ABSINT[:1],
        'quick': [lib.rule_casttotal, sxl.rule_defn, sxdb.rule_binfloor, sxdb.rule_trunclaw, sxl.rule_castdef, evalnodes.rule_opsem],
        'thorough': [],
    },
    'C20': {
        'level': 'other',
        'explanation': (
            "Two executions interfere only through state they share. The write census (see C09) enumerates every write "
            "performed by code reachable while a statement is parsed, compiled or executed - all evaluator __call__s, "
            "registered functions, column accessors, table iterators, the compiler, executor and cursor - and "
            "classifies its receiver; the set of writes to objects that outlive an execution (IMPORT: registries, class "
            "attributes, column instances, decorator closures, memo caches; CONNECTION: the connection and its tables) "
            "must be empty (R-SHARED); FROM-clause qualifiers are applied to a copy of the table (R-TABLECOPY); the "
            "balance guard lives in the per-scan row context (R-ONCEPERROW); threadsafety is a valid DB-API level "
            "(R-MODCONST). With nothing shared no interleaving needs exploring. Sharing a cursor between threads is "
            "outside DB-API level 2 and outside the claim. The census follows locals that alias an object kept on self (a row context created once per connection-owned table and rewound per scan is shared by concurrent scans). parse() runs the statement through a parser object made in that call (R-PARSEFRESH). The census also covers process-wide state reached through the standard library: objects handed out by decimal.getcontext() and the like, calls whose purpose is to change process state (decimal.setcontext, locale.setlocale ...), and stores a module body makes at import into objects of other libraries (decimal.DefaultContext.prec = ...), which take effect per thread. Every connection owns its tables, options and errors (R-CONNECTION: new objects made in __init__, no default-argument or class-level objects); attach() does not change the ledger it is given - the list is shared with every other connection made from it (R-ATTACH attach:input); a mutable default argument that is stored or changed is shared state (census). compile() makes a Compiler of its own for every call (R-COMPILEFN): the current table, the parameters and the placeholder numbering of one statement are never visible to another. Nothing that belongs to the caller - the entries list (also when handed out by prepare() as it is), the options, a cell value given to a renderer, the compiled statement - is changed in place (R-INPUTMUT): such data is shared with other connections and threads without the package knowing."),
        'assumptions': TRUSTED_STRUCT + [
            "the call graph is over-approximated: every function of the non-front-end modules that is not import-only is "
            "treated as execution-reachable",
            "TatSu, beancount and dateutil internals perform no shared writes (summarised, not analysed)"],
        'quick': [st.rule_shared, sxst.rule_tablecopy, sxst.rule_onceperrow, cu.rule_modconst, sxc.rule_freshcursor, st.rule_parsefresh, sxc.rule_connection, sxt.rule_attach, sxst.rule_compilefn, st.rule_inputmut, sxn.rule_runquery],
        'thorough': [],
    },
    'C11': {
        'level': 'other',
        'explanation': (
            "For every column accessor of the entries and postings tables (39) the access paths rooted at the row context "
            "that flow into the returned value, the keys it subscripts and the callables it applies are computed with "
            "locals inlined and compared with the column's definition (tables/access_paths.json, confirmed by reading): a "
            "swap of two same-typed attributes changes the path set (R-ACCESSPATH); accessor result types vs declared "
            "dtypes and NULL/isinstance guards by abstract interpretation with rows typed from beancount's records "
            "(R-DTYPE, R-TYPESAFE); row generators yield once per directive / per posting of every transaction, unfiltered, "
            "bound to the loop variables (R-ROWGEN, loop bodies executed over the isinstance outcomes); typed tables "
            "present the directive class of their name with columns derived from that very class, accessor reads the "
            "record field, all tables registered, structure aliases consistent (R-TABLEFIELDS); meta()/entry_meta()/"
            "any_meta() rewritten to the right dictionary lookups, open/close selection from the (open, close) pair "
            "(R-METAREWRITE); getitem NULL-propagating (R-NULLSTRICT). Does not decide that beancount's getters and "
            "convert functions compute what their names say. FROM qualifiers are applied to a copy of the connection's table, so the rows of a statement come from its own clauses only (R-TABLECOPY); getitem on a NULL container gives NULL with or without a default. attach() on terms, with and without a file name in the dsn: every class in TABLES is bound by a plain item store - replacing an earlier binding - to a table over the entries and options of this attach, and the connection's options and errors come from the same ledger (R-ATTACH). GetAttrColumn / GetItemColumn evaluate to the attribute / item they were built with and announce the dtype given; _typed_namedtuple_to_columns makes one column per annotated field, in order, published under its renamed name but reading the field itself, Optional unwrapped, generics reduced to their origin, `meta` announced as Metadata (R-TYPEDCOLS, on terms with typing's introspection stubbed). AccountsTable, CommoditiesTable and PricesTable keep beancount's own readings of the ledger - getters.get_account_open_close, get_account_types of the options, get_commodity_directives, prices.build_price_map - and their row generators walk exactly those maps (R-TABLESOURCE). Options a column accessor fixes in the calls it makes (hash_entry(..., exclude_meta=...)) are part of its recorded access path (R-ACCESSPATH call_consts). Presenting the ledger does not change it: no table, accessor or renderer of the source stores into or mutates the directives, their metadata or the entries list (R-INPUTMUT). meta['k'], getitem() and x.field read the container as it is: dict.get with the key (and default) given, the field getter of the structure (R-ACCESSEVAL). Attribute and subscript nodes return NULL only for a NULL container: a zero amount or an empty dictionary is a value (R-NULLSTRICT falsy)."),
        'assumptions': TRUSTED_STRUCT + TRUSTED_ABSINT[:2],
        'quick': [tb.rule_accesspath, sxt.rule_rowgen, tb.rule_tablefields, tb.rule_metarewrite, dtype.rule_dtype_columns,
                  dtype.rule_typesafe_columns, sxst.rule_tablecopy, st.rule_shared, sxt.rule_attach, sxt.rule_typedcols, sxt.rule_tablesource, st.rule_inputmut, sxev.rule_accesseval, sxev.rule_nullstrict],
        'thorough': [],
    },
    'C13': {
        'level': 'other',
        'explanation': (
            "Decides the ordering and validation half: BeanTable.prepare() executed over all 12 combinations of the "
            "clauses (OPEN absent/dated, CLOSE absent/dated/undated, CLEAR absent/present) must call summarize.open_opt, "
            "close_opt, clear_opt in this order, each on the previous stage's result, with the date or None as the "
            "statement says (R-CALLORDER); both row generators start from prepare(); the FROM expression is AND-ed into "
            "the row condition after preparation (R-FROMAND); the CLOSE-before-OPEN guard exists and cannot itself raise "
            "(R-GUARDS, R-GUARDSAFE); qualifiers are applied to a copy of the table (R-TABLECOPY); the shell's default "
            "close date is applied exactly to SELECTs with a FROM expression lacking CLOSE (R-DEFAULTCLOSE, 12 cases). NOT "
            "decided: balance preservation, carried-forward Equity postings, balancing of returned transactions - "
            "properties of beancount.ops.summarize over ledger values. Compiler state is restored around every nested SELECT for every kind of FROM clause and on exceptional exits (R-REENTRANT); PRINT takes its directives from iterating the table, which is what applies the clauses (R-PRINTFILTER); the 33 combinations of FROM expression / OPEN / CLOSE / date order in _compile_from accept or reject as stated and update the table with exactly the clause values (R-FROMCLAUSE). A clause keyword that the grammar reads (OPEN, CLOSE, CLEAR ...) sets the field of its name on every derivation path (R-FIELDONCE); PRINT is compiled on the table its FROM clause produced (R-FIELDFLOW). The postings the period report returns are those of the prepared entries, unchanged and in order: the row generators yield one row per directive, resp. per posting of every transaction, each with a row identity of its own, from the entries prepare() returned (R-ROWGEN). The summarisation reads the account-type names, Equity account names and conversion currency from the options the table was built with: attach() builds every table from the entries and the options of the ledger being attached (R-ATTACH). The columns through which the period report is read - price and cost of the conversion and opening postings included - present the posting's own attributes (R-ACCESSPATH)."),
        'assumptions': TRUSTED_STRUCT,
        'quick': [cl.rule_callorder, sxk.rule_fromand, sxk.rule_fromclause, sxg.rule_guards, cr.rule_guard_typesafe, sxst.rule_tablecopy,
                  sxst.rule_defaultclose, sxst.rule_reentrant, sx.rule_printfilter, gr.rule_fieldonce, cl.rule_fieldflow, sxt.rule_rowgen, sxt.rule_attach, tb.rule_accesspath],
        'thorough': [],
    },
    'C14': {
        'level': 'other',
        'explanation': (
            "Every field of the BALANCES / JOURNAL / PRINT statement nodes flows into its expansion: the constructed "
            "ast.Select takes targets (and GROUP BY / ORDER BY, resp. WHERE) from the parsed template and every remaining "
            "clause from the statement, position by position against Select's field list; summary function and account "
            "go into the template (R-FIELDFLOW); statement classes <-> compiler handlers <-> shell handlers exhaustive "
            "(R-EXHAUSTIVE); PRINT collects row.entry for exactly the rows whose filter is absent or true, in order, and "
            "hands the list unmodified to the printer (R-PRINTFILTER, 4 gate cases). The SELECT templates themselves are "
            "string constants and deliberately not matched (a frozen fragment). NOT decided: that printed entries load "
            "back equal (beancount's printer and parser). The running balance and every other piece of state the expansions touch is private to one execution (R-SHARED), and the FROM qualifiers of all three statements are applied in the fixed order (R-CALLORDER). has_account(), the one function that looks at the directive itself, takes the accounts from getters.get_entry_accounts(context.entry), never branches on the directive type and answers TRUE or FALSE on every path (R-ENTRYFILTER): PRINT evaluates its filter on directives of every type. account_sortkey() classifies with the account types of this ledger (R-ACCTTYPES); execute_print does not hand the ledger's rounding display context to the printer (R-PRINTFILTER print:precision) - a necessary condition of losslessness, the round trip itself is not decided. What the three statements read from the ledger is decided too: every column of the entries and postings tables (the operands of a PRINT filter, of WHERE and of the JOURNAL / BALANCES templates) reads the recorded attribute path of the directive (R-ACCESSPATH), and the summary functions units / cost / value of a position or inventory are the recorded reductions of beancount's convert module (R-REDUCE). In the shell PRINT hands the compiled statement and the output file to execute_print unchanged (R-PRINTOUT). The FROM / WHERE conditions of the three statements are evaluated with the operators' own semantics - BETWEEN with both bounds inclusive, comparisons as written (R-OPSEM). Through run_query() the statement executed is query.format(*args) whatever args is, so the text the three statements are given means the same with and without formatting arguments (R-RUNQUERY format). The expansion of BALANCES / JOURNAL shares the FROM node of the statement, and PRINT compiles it directly: compiling writes nothing into the statement tree (R-INPUTMUT), so the statement and its expansion written as text stay the same statement on every later execution. The FROM condition of BALANCES / JOURNAL is evaluated on every posting row, together with the WHERE condition (R-FROMAND), by nodes that keep nothing from the previous row (R-ROWPURE). "),
        'assumptions': TRUSTED_STRUCT,
        'quick': [cl.rule_fieldflow, cr.rule_exhaustive, sx.rule_printfilter, st.rule_shared, cl.rule_callorder, sx.rule_entryfilter, sxl.rule_accttypes, sxst.rule_onceperrow, tb.rule_accesspath, sxl.rule_reduce, sxsh.rule_printout, evalnodes.rule_opsem, sxn.rule_runquery, st.rule_inputmut, sxk.rule_fromand, st.rule_rowpure],
        'thorough': [],
    },
    'C15': {
        'level': 'other',
        'explanation': (
            "Validation half: PIVOT BY references are validated against the visible targets, the domain the executor "
            "indexes (R-IDXBOUND, bounds executed for positions 0, 1, n, n+1, -1); the validation cannot itself raise for "
            "a non-aggregate query (R-GUARDSAFE); name resolution, distinctness and second-column-grouped guards exist "
            "(R-GUARDS). Reshaping half, structurally: remaining columns = all but the two pivots, keys sorted, naming "
            "switch on the number of remaining columns, datatypes repeated per key, rows sorted and grouped by the first "
            "column, block placement keys.index(k) * nother + 1, NULL fill (R-PIVOTSHAPE: the recognised skeleton; a "
            "rewrite ends in ANALYSIS-ERROR, not a verdict). NOT decided: the index arithmetic for all key sets. The pivotby grammar rule derives exactly two references separated by a comma, each a name or a position independently (R-CLAUSELANG); _compile_select hands EvalPivot the compiled query and exactly the two positions _compile_pivot_by resolved, first then second (R-PIVOTFLOW). The blocks are named by the text of the key values and typed by the announced dtypes: every value a function, operator or column delivers is of the dtype it announces - a bool under int is not (R-DTYPE), since `True/total` is not the name of a block of an integer key. NULL keys cannot be pivoted on (they do not sort), so nullable keys go through COALESCE: it returns its first non-NULL argument, zero / empty / FALSE included (R-3VL), so that no key value is merged into the fallback. The query that is pivoted is compiled with the same arguments as the statement without PIVOT BY - ORDER BY specification, LIMIT and DISTINCT included (R-PIVOTFLOW query) - and is executed by execute_select, which applies ORDER BY, DISTINCT and LIMIT itself (R-PIPELINE, R-QUERYEXEC): the rows reshaped are the rows of the un-pivoted result. The pivoted column names are data handed to the description class: Column keeps the name and the type it is constructed with, as given (R-COLUMN7), so keys that differ in blanks or case stay different columns."),
        'assumptions': TRUSTED_STRUCT,
        'quick': [sxk.rule_idxbound, cr.rule_guard_typesafe, sxg.rule_guards, sxp.rule_pivotshape, gr.rule_clauselang_pivot, sxp.rule_pivotflow, dtype.rule_dtype, sxev.rule_3vl, sxs.rule_pipeline, sxs.rule_queryexec, sxc.rule_column7],
        'thorough': [sxp.rule_pivotshape_deep, sxk.rule_idxbound_deep],
    },
    'C19': {
        'level': 'other',
        'explanation': (
            "Tables that must agree: every Settings field has a parser reachable by setstr's lookup order that rejects "
            "invalid input, setstr parses before its single store, .set validates the name against the fields before "
            "reflecting on it, every setting is consumed by a renderer keyword or read by the shell (R-SETTINGS); every "
            "command-line option is read, wired to the shell parameter of its meaning and has its effect there "
            "(R-OPTUSED); the command dispatcher executed over its 8 cases (dot prefix x command defined x legacy name): "
            "dot-commands never reach execute(), other lines do unless legacy, legacy names disjoint from statement "
            "keywords (R-DISPATCH); default close date for named queries (R-DEFAULTCLOSE); statement handlers exhaustive "
            "(R-EXHAUSTIVE). Does not decide byte equality of shell output with the renderer (the same function is "
            "called), pager behaviour or history. _parse_format returns the very value whose membership in FORMATS it tested; parse() builds a new tree per call (R-PARSEFRESH): the shell writes the default CLOSE date into the tree it parsed. On terms: Settings.setstr for every setting x current value (the value goes through the setting's own parser, else its type's parser, else the type; exactly that setting is stored once with the parsed value; nothing is stored when the parser rejects), _parse_bool returns a bool on every path and reads back the spellings .set echoes, main -> BQLShell.__init__ -> do_reload carry every option (the error report is printed iff there are errors and -q was not given). BQLShell.on_Select hands the (numberified iff the setting is on) result of the connection, once, to FORMATS[settings.format] with the shell output, the ledger display context and all settings and prints nothing itself, for empty and non-empty results; on_Journal / on_Balances delegate to it; the text and csv plug-ins forward everything to render_text / render_csv, `(empty)` being the text format's rendering of an empty result (R-SELECTOUT). `.set` takes its words from shlex.split(arg) with the default rules. The dispatcher is interpreted on terms over dot prefix x command defined x legacy name. parseline on concrete command words: exactly one leading dot is the prefix (R-CMDWORD); _extract_queries rebuilds the registry of named queries from the entries just loaded, first directive of a name wins (R-QUERYREG). Settings.todict() either returns a new mapping or, if it returns the live attribute dictionary, no handler changes it (R-SELECTOUT settings-mutated). `with self.output as out` yields a file that stays open: for redirected output nullcontext(self.outfile), for the terminal a pager or the flushing wrapper, never the bare file object (R-OUTPUT, 4 cases). PRINT typed in the shell is execute_print(connection.compile(statement), the shell's output file), once, with nothing else written (R-PRINTOUT). An exception escaping a statement is reported and the command loop is entered again (R-CMDLOOP): what one statement does never decides whether the next one is read. When onecmd tests the first word against no fixed set of legacy names, no line without the dot prefix may be run as a command (R-DISPATCH bare:open). A string setting is echoed as its Python literal, repr(value) (R-SETTINGS echo-string); `.run NAME ;`, `.run *;` and a lone `;` behave as without the semicolon (R-DEFAULTCLOSE run)."),
        'assumptions': TRUSTED_STRUCT,
        'quick': [cl.rule_settings, sxsh.rule_optused, sxsh.rule_selectout, cl.rule_dispatch, sxsh.rule_cmdword, sxsh.rule_queryreg, sxst.rule_defaultclose, cr.rule_exhaustive, st.rule_parsefresh, sxsh.rule_output, sxsh.rule_printout, sxsh.rule_cmdloop],
        'thorough': [],
    },
}
