"""Property -> rules.  The explanation/assumption texts end up in the evidence files."""
from .rules import dtype

TRUSTED_ABSINT = [
    "Python/library semantics of operators, attributes, methods and whitelisted callables are obtained by applying "
    "the primitive to fixed representative sample values per type atom (bqsa/absint.py SAMPLES); a result type that "
    "only arises for unsampled values would be missed",
    "beancount's NamedTuple annotations describe ledger data, plus two invariants of loaded ledgers "
    "(Posting.units is an Amount, Posting.cost is a Cost or None)",
    "hand-typed results of 15 beancount/stdlib callables (bqsa/absint.py CALL_TABLE)",
    "the registry extractor is checked on every run against the live registries of the imported package "
    "(extraction witness); a disagreement ends the run as ANALYSIS-ERROR",
]

PROPS = {
    'C04': {
        'level': 'other',
        'explanation': (
            "Static abstract interpretation, exhaustive over the registries reconstructed from syntax: for every "
            "operator overload, scalar function overload, aggregate (for every operand dtype its signature admits "
            "through the MRO rule), every entries/postings column accessor, every typed-table column and structured "
            "attribute, the set of value types the implementation can return is inferred and must be NULL or "
            "conform to the announced dtype (R-DTYPE); no admitted operand-type combination may lead to a definite "
            "TypeError/AttributeError inside the implementation (R-TYPESAFE; `Any` parameters range over the closed "
            "universe of announceable dtypes); every announceable dtype has a renderer (R-RENDERABLE); the "
            "compiler's resolution of operators over all dtype pairs is replayed abstractly in the thorough tier "
            "(R-RESOLVE-SAFE). Decides type conformance of declarations vs. implementations for all overloads; "
            "does not decide values of dtype `object` nor conformance of ledger data to beancount's annotations."),
        'assumptions': TRUSTED_ABSINT,
        'quick': [dtype.rule_dtype, dtype.rule_typesafe, dtype.rule_renderable],
        'thorough': [],
    },
}
