"""Exhaustive interpretation of small functions over finite value domains.

Some code touches its inputs only through `is None`, truthiness, `isinstance`
and membership tests.  The value domain then collapses to a handful of classes
and a function with one loop becomes a finite transition system: state = the
values of its locals, input = the class of the element seen in this iteration.
`loop_system` builds that system from the syntax tree; `equivalent` checks it
against a specification automaton by exploring the product, which settles the
behaviour for sequences of every length.

Unsupported syntax raises AnalysisError: never a guess.
"""
from __future__ import annotations

import ast

from .loader import AnalysisError


class Sym:
    """A named opaque value; truthy, not None."""
    def __init__(self, name):
        self.name = name

    def __repr__(self):
        return self.name

    def __eq__(self, other):
        return isinstance(other, Sym) and other.name == self.name

    def __hash__(self):
        return hash(('Sym', self.name))


class Falsy(Sym):
    """A named opaque value that is not None but false (0, '', Decimal(0), FALSE)."""


class Each:
    """The value of every element of a comprehension over an opaque sequence."""
    def __init__(self, value):
        self.value = value

    def __eq__(self, other):
        return isinstance(other, Each) and other.value == self.value

    def __hash__(self):
        return hash(('Each', self.value))

    def __repr__(self):
        return f'each({self.value!r})'


class Return(Exception):
    def __init__(self, value):
        self.value = value


class Break(Exception):
    pass


class Continue(Exception):
    pass


class Machine:
    """Concrete evaluator over {None, False, True, ints, strs, Sym}; hooks give meaning to calls."""

    def __init__(self, call=None, isinstance_=None, subscript=None, names=None, contains=None, expr=None,
                 order=None):
        self.order = order
        self.comprehensions = False
        self.expr = expr
        self.call = call
        self.isinstance_ = isinstance_
        self.subscript = subscript
        self.names = names or {}
        self.contains = contains
        self.events = []

    def ev(self, e, st):
        if isinstance(e, ast.Constant):
            return e.value
        if isinstance(e, ast.Name):
            if e.id in st:
                return st[e.id]
            if e.id in self.names:
                return self.names[e.id]
            raise AnalysisError(f'finite: unbound name {e.id}')
        if isinstance(e, ast.UnaryOp) and isinstance(e.op, ast.Not):
            return not self.truth(self.ev(e.operand, st))
        if isinstance(e, ast.UnaryOp) and isinstance(e.op, ast.USub):
            v = self.ev(e.operand, st)
            return -v if type(v) is int else Sym(f'-{v!r}')
        if isinstance(e, ast.BinOp) and isinstance(e.op, (ast.Add, ast.Sub)):
            l, r = self.ev(e.left, st), self.ev(e.right, st)
            if type(l) is int and type(r) is int:
                return l + r if isinstance(e.op, ast.Add) else l - r
            return Sym(f'({l!r}{"+" if isinstance(e.op, ast.Add) else "-"}{r!r})')
        if isinstance(e, ast.BoolOp):
            v = None
            for x in e.values:
                v = self.ev(x, st)
                if isinstance(e.op, ast.And) and not self.truth(v):
                    return v
                if isinstance(e.op, ast.Or) and self.truth(v):
                    return v
            return v
        if isinstance(e, ast.IfExp):
            return self.ev(e.body if self.truth(self.ev(e.test, st)) else e.orelse, st)
        if isinstance(e, ast.Compare):
            left = self.ev(e.left, st)
            for op, c in zip(e.ops, e.comparators):
                right = self.ev(c, st)
                if isinstance(op, ast.Is):
                    r = left is right or (isinstance(left, Sym) and left == right)
                elif isinstance(op, ast.IsNot):
                    r = not (left is right or (isinstance(left, Sym) and left == right))
                elif isinstance(op, ast.Eq):
                    r = left == right
                elif isinstance(op, ast.NotEq):
                    r = left != right
                elif isinstance(op, (ast.Lt, ast.Gt, ast.LtE, ast.GtE)) and type(left) is int and type(right) is int:
                    r = {ast.Lt: left < right, ast.Gt: left > right, ast.LtE: left <= right, ast.GtE: left >= right}[type(op)]
                elif isinstance(op, (ast.Lt, ast.Gt, ast.LtE, ast.GtE)) and self.order is not None:
                    r = self.order(op, left, right)
                elif isinstance(op, (ast.In, ast.NotIn)) and self.contains is not None:
                    r = self.contains(left, c, st)
                    if isinstance(op, ast.NotIn):
                        r = not r
                else:
                    raise AnalysisError(f'finite: unsupported comparison {ast.unparse(e)}')
                if not r:
                    return False
                left = right
            return True
        if isinstance(e, ast.Call):
            if isinstance(e.func, ast.Name) and e.func.id == 'isinstance' and self.isinstance_ is not None:
                return self.isinstance_(self.ev(e.args[0], st), e.args[1])
            if isinstance(e.func, ast.Name) and e.func.id in ('tuple', 'list') and len(e.args) == 1:
                v = self.ev(e.args[0], st)
                return tuple(v) if isinstance(v, (list, tuple)) else v
            if self.call is not None:
                r = self.call(e, st, self)
                if r is not NotImplemented:
                    return r
            raise AnalysisError(f'finite: unsupported call {ast.unparse(e)}')
        if isinstance(e, ast.Subscript) and self.subscript is not None:
            return self.subscript(e, st, self)
        if isinstance(e, ast.List) and not e.elts:
            return ()
        if isinstance(e, ast.Tuple):
            return tuple(self.ev(x, st) for x in e.elts)
        if isinstance(e, (ast.GeneratorExp, ast.ListComp)) and len(e.generators) == 1 and not e.generators[0].ifs \
                and isinstance(e.generators[0].target, ast.Name) and self.comprehensions:
            st2 = dict(st)
            try:
                self.last_iterated = self.ev(e.generators[0].iter, st)
            except AnalysisError:
                self.last_iterated = None
            st2[e.generators[0].target.id] = Sym('EL:' + ast.unparse(e.generators[0].iter))
            return Each(self.ev(e.elt, st2))
        if self.expr is not None:
            r = self.expr(e, st, self)
            if r is not NotImplemented:
                return r
        raise AnalysisError(f'finite: unsupported expression {ast.unparse(e)}')

    @staticmethod
    def truth(v):
        if isinstance(v, Falsy):
            return False
        if isinstance(v, Sym):
            return True
        return bool(v)

    def run(self, body, st):
        """Execute statements; returns the state at fall-through."""
        for s in body:
            st = self.stmt(s, st)
        return st

    def stmt(self, s, st):
        if isinstance(s, ast.Expr) and isinstance(s.value, ast.Constant):
            return st
        if isinstance(s, ast.Expr) and isinstance(s.value, (ast.Yield,)):
            self.events.append(('yield', self.ev(s.value.value, st)))
            return st
        if isinstance(s, ast.Expr) and isinstance(s.value, ast.Call):
            c = s.value
            if isinstance(c.func, ast.Attribute) and isinstance(c.func.value, ast.Name) and c.func.attr in ('append', 'add'):
                v = self.ev(c.args[0], st)
                self.events.append((c.func.attr, c.func.value.id, v))
                if c.func.attr == 'append' and isinstance(st.get(c.func.value.id), tuple):
                    st = dict(st)
                    st[c.func.value.id] = st[c.func.value.id] + (v,)
                return st
            self.ev(c, st)
            return st
        if isinstance(s, ast.Assign) and len(s.targets) == 1 and isinstance(s.targets[0], ast.Name):
            st = dict(st)
            st[s.targets[0].id] = self.ev(s.value, st)
            return st
        if isinstance(s, ast.If):
            return self.run(s.body if self.truth(self.ev(s.test, st)) else s.orelse, st)
        if isinstance(s, ast.Return):
            raise Return(self.ev(s.value, st) if s.value is not None else None)
        if isinstance(s, ast.Break):
            e = Break()
            e.state = dict(st)
            raise e
        if isinstance(s, ast.Continue):
            e = Continue()
            e.state = dict(st)
            raise e
        if isinstance(s, (ast.Pass, ast.Assert)):
            return st
        if isinstance(s, ast.Raise):
            raise Return(('raise', ast.unparse(s.exc) if s.exc is not None else ''))
        raise AnalysisError(f'finite: unsupported statement {ast.unparse(s)[:60]}')


def split_loop(fn: ast.FunctionDef):
    from .loader import body_without_docstring
    body = body_without_docstring(fn)
    loops = [i for i, s in enumerate(body) if isinstance(s, ast.For)]
    if len(loops) != 1:
        raise AnalysisError(f'finite: {fn.name} must contain exactly one top-level for loop')
    i = loops[0]
    return body[:i], body[i], body[i + 1:]


def freeze(st):
    return tuple(sorted((k, v if not isinstance(v, list) else tuple(v)) for k, v in st.items()
                        if not k.startswith('_')))


def loop_system(fn: ast.FunctionDef, classes, make_machine, elem_value):
    """-> (init_state, step(state, cls) -> ('return', v, events) | ('next', state', events) | ('break', state', events),
           final(state) -> value)

    `elem_value(cls)` is bound to the loop target before each iteration; `make_machine(cls)` supplies
    the hooks that give the element its class-specific behaviour.
    """
    pre, loop, post = split_loop(fn)
    if loop.orelse:
        post = list(loop.orelse) + list(post)
    if not isinstance(loop.target, ast.Name):
        raise AnalysisError('finite: loop target must be a name')
    m0 = make_machine(None)
    try:
        st0 = m0.run(pre, {})
    except Return as r:
        raise AnalysisError('finite: function returns before its loop') from r

    def step(state, cls):
        st = dict(state)
        st[loop.target.id] = elem_value(cls)
        m = make_machine(cls)
        try:
            st2 = m.run(loop.body, st)
        except Return as r:
            return ('return', r.value, tuple(m.events))
        except Break as b:
            stb = getattr(b, 'state', st)
            return ('break', freeze({k: v for k, v in stb.items() if k != loop.target.id and k != '_'}), tuple(m.events))
        except Continue as c:
            st2 = getattr(c, 'state', st)
        st2 = {k: v for k, v in st2.items() if k != loop.target.id and k != '_'}
        return ('next', freeze(st2), tuple(m.events))

    def final(state):
        m = make_machine(None)
        try:
            m.run(post, dict(state))
        except Return as r:
            return r.value
        return None

    return freeze(st0), step, final


def equivalent(init, step, final, spec_init, spec_step, spec_final, classes, what, ignore_events=True, limit=500):
    """Product exploration. spec_step(state, cls) -> ('return', v) | ('next', s'). Returns (ok, message, npairs)."""
    seen = set()
    work = [(init, spec_init, ())]
    transitions = 0
    while work:
        s, t, trace = work.pop()
        if (s, t) in seen:
            continue
        seen.add((s, t))
        if len(seen) > limit:
            raise AnalysisError(f'finite: state space of {what} exceeds {limit}')
        fv, sv = final(dict(s)), spec_final(t)
        if fv != sv:
            return False, f'after inputs {list(trace)}: returns {fv!r}, specification says {sv!r}', len(seen), transitions
        for c in classes:
            transitions += 1
            out = step(dict(s), c)
            exp = spec_step(t, c)
            tr = trace + (c,)
            if out[0] == 'break':
                # leaving the loop early: the result is what the code after the loop returns
                v = final(dict(out[1]))
                out = ('return', v, out[2])
            if out[0] == 'return':
                if exp[0] != 'return':
                    return False, (f'on inputs {list(tr)}: returns {out[1]!r} although later arguments still '
                                   f'decide the result'), len(seen), transitions
                if out[1] != exp[1]:
                    return False, f'on inputs {list(tr)}: returns {out[1]!r}, specification says {exp[1]!r}', len(seen), transitions
            else:
                if exp[0] == 'return':
                    return False, (f'on inputs {list(tr)}: keeps evaluating arguments although the result '
                                   f'{exp[1]!r} is decided'), len(seen), transitions
                work.append((out[1], exp[1], tr))
    return True, '', len(seen), transitions
