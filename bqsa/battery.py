"""Mutant battery: tests the checker (not the repository) on scratch copies.

Every mutant must make the named rule fire on the named construct; every benign
twin must leave the findings of the tree unchanged.  A mutant whose anchor text
is not present in the current tree (the tree was edited there) is skipped and
reported; a mutant that applies and is not detected means the checker has gone
blind: AnalysisError.
"""
from __future__ import annotations

import concurrent.futures
import importlib.util
import os
import shutil
import subprocess
import sys
import tempfile

from .loader import AnalysisError

VERIF = os.path.dirname(os.path.dirname(os.path.abspath(__file__)))


def load_specs():
    spec = importlib.util.spec_from_file_location('bqsa_selftest_mutants', os.path.join(VERIF, 'selftest', 'mutants.py'))
    mod = importlib.util.module_from_spec(spec)
    spec.loader.exec_module(mod)
    return mod.MUTANTS


def make_scratch(repo):
    base = os.environ.get('TMPDIR') or tempfile.gettempdir()
    d = tempfile.mkdtemp(prefix='bqsa-mut-', dir=base)
    shutil.copytree(os.path.join(repo, 'beanquery'), os.path.join(d, 'beanquery'),
                    ignore=shutil.ignore_patterns('__pycache__', '*_test.py'))
    return d


def apply_mutant(m, scratch):
    """-> True if applied, False if the anchor text is absent."""
    if 'patch' in m:
        p = os.path.join(VERIF, 'selftest', m['patch'])
        r = subprocess.run(['patch', '-p1', '-s', '--no-backup-if-mismatch', '-f', '-i', p], cwd=scratch,
                           capture_output=True, text=True)
        return r.returncode == 0
    for edit in m['edits']:
        path = os.path.join(scratch, edit['file'])
        if not os.path.exists(path):
            return False
        with open(path, encoding='utf-8') as f:
            s = f.read()
        if s.count(edit['old']) != 1:
            return False
        with open(path, 'w', encoding='utf-8') as f:
            f.write(s.replace(edit['old'], edit['new']))
    if m.get('regen'):
        # a consistent grammar change: parser.py is regenerated from the edited grammar
        import tatsu
        g = os.path.join(scratch, 'beanquery', 'parser', 'bql.ebnf')
        with open(g, encoding='utf-8') as f:
            src = tatsu.to_python_sourcecode(f.read())
        with open(os.path.join(scratch, 'beanquery', 'parser', 'parser.py'), 'w', encoding='utf-8') as f:
            f.write(src)
    return True


def _run_one(args):
    m, repo = args
    from .main import run_property
    scratch = make_scratch(repo)
    try:
        if not apply_mutant(m, scratch):
            return m['name'], 'skipped', []
        import io
        import contextlib
        buf = io.StringIO()
        try:
            with contextlib.redirect_stdout(buf):
                out = run_property(m['prop'], 'quick', scratch, evidence=False, quiet=True, battery=False)
        except AnalysisError as exc:
            return m['name'], 'analysis-error', [str(exc)]
        if isinstance(out, int):
            return m['name'], 'analysis-error', [l for l in buf.getvalue().splitlines() if l.startswith('ANALYSIS-ERROR')][:2]
        _, results = out
        found = [(f.rule, f.construct, f.detail) for r in results for f in r.findings]
        return m['name'], 'ran', found
    finally:
        shutil.rmtree(scratch, ignore_errors=True)


def run_for_property(prop, repo, jobs=16):
    specs = [m for m in load_specs() if m['prop'] == prop]
    if not specs:
        return {'mutants': 0, 'note': 'no battery registered for this property'}
    from .main import run_property
    import io
    import contextlib
    buf0 = io.StringIO()
    with contextlib.redirect_stdout(buf0):
        base = run_property(prop, 'quick', repo, evidence=False, quiet=True, battery=False)
    if isinstance(base, int):
        raise AnalysisError('mutant battery: the run on the unchanged tree failed: ' +
                            ' | '.join(l for l in buf0.getvalue().splitlines() if l.startswith('ANALYSIS-ERROR'))[:400])
    _, base_results = base
    baseline = {(f.rule, f.construct, f.detail) for r in base_results for f in r.findings}
    with concurrent.futures.ProcessPoolExecutor(max_workers=min(jobs, len(specs))) as ex:
        outs = list(ex.map(_run_one, [(m, repo) for m in specs]))
    by_name = {m['name']: m for m in specs}
    detected, silent, skipped, problems = [], [], [], []
    for name, status, found in outs:
        m = by_name[name]
        if status == 'skipped':
            skipped.append(name)
            continue
        new = [x for x in found if x not in baseline] if status == 'ran' else []
        if m.get('twin'):
            if status == 'analysis-error':
                problems.append(f'twin {name}: analysis error: {found}')
            elif new:
                problems.append(f'twin {name}: false alarm {new[:2]}')
            else:
                silent.append(name)
            continue
        rule, construct = m['expect']
        if status == 'analysis-error' and m.get('expect_error'):
            detected.append(name)
        elif status == 'ran' and any(r == rule and construct in c for r, c, _ in new):
            detected.append(name)
        else:
            problems.append(f'mutant {name}: expected {rule} on {construct}, got {status} {(new or found)[:3]}')
    if problems:
        raise AnalysisError('mutant battery: the checker failed its own tests: ' + ' | '.join(problems))
    return {'mutants': len(specs), 'detected': detected, 'twins_silent': silent, 'skipped_anchor_absent': skipped}


def main():
    """python -m bqsa.battery [PROP ...] : run batteries and print a table (development aid)."""
    props = sys.argv[1:] or sorted({m['prop'] for m in load_specs()})
    rc = 0
    for p in props:
        try:
            out = run_for_property(p, '/repo')
            print(p, {k: (len(v) if isinstance(v, list) else v) for k, v in out.items()}, out.get('skipped_anchor_absent'))
        except AnalysisError as exc:
            rc = 2
            print(p, 'FAILED', str(exc).replace(' | ', '\n   '))
    return rc


if __name__ == '__main__':
    sys.exit(main())
