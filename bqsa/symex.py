"""Path-sensitive abstract interpreter over uninterpreted terms.

Function bodies are interpreted over a domain of *terms*: Python constants, opaque
symbols and uninterpreted applications (calls, attribute reads, subscripts,
operators).  Nothing of the analysed package is ever executed: a call that the
interpreter cannot resolve stays an uninterpreted `call` term; a call to a
function of the package is inlined (interpreted in turn).  Branching on a
condition whose truth the rule's *oracle* does not fix forks the path, so the
result of interpreting a function is the finite set of its paths, each with the
assumptions made, the trace of events (calls, stores, yields, raises, elements
produced into lists) and the returned term.

Rules state their obligations over these paths: they do not match statement
shapes, so local renames, temporaries, helper extraction, comprehension vs loop,
early return vs nested if and reordered independent statements do not matter.
"""
from __future__ import annotations

import ast
import dataclasses
import itertools

from .loader import AnalysisError, FuncInfo, ClassInfo


@dataclasses.dataclass(frozen=True)
class Sym:
    name: str

    def __repr__(self):
        return self.name


@dataclasses.dataclass(frozen=True)
class Falsy(Sym):
    """An opaque non-None value that is false (0, '', Decimal(0), FALSE, empty collection)."""


@dataclasses.dataclass(frozen=True)
class T:
    op: str
    args: tuple = ()

    def __repr__(self):
        return show(self)


class SList:
    """A list object created during the interpreted activation (identity matters: appends are produce events)."""
    _ids = itertools.count()

    def __init__(self, items=None, origin=None, kind='list'):
        self.items = list(items or [])
        self.origin = origin       # ('each', seq, elt, conds) for comprehensions; None for displays
        self.id = next(SList._ids)
        self.kind = kind
        self.opaque_tail = origin is not None     # holds elements the interpreter did not enumerate
        self.source = None         # the sequence a fully enumerated comprehension ran over
        self.tail = []             # sequences appended after the enumerated items (extend / += with a non-enumerated sequence)
        self.birth = None          # loop stack (uids) at creation, set by the interpreter
        self.segs = None           # [('item', v) | ('loop', uid, seq, [...])] when elements were appended inside symbolic loops

    def __repr__(self):
        if self.origin is not None:
            return f'[{show(self.origin[1])} for each of {show(self.origin[0])}' + \
                (f' if {" and ".join(show(c) for c in self.origin[2])}' if self.origin[2] else '') + ']'
        return '[' + ', '.join(show(i) for i in self.items) + ''.join(f', *{show(t)}' for t in self.tail) + \
            (', ...' if self.opaque_tail and not self.tail else '') + ']'


class LazyGen(SList):
    """A generator expression over an enumerated source: its elements are computed when they are asked for (next, any / all, a `for`
    loop, another generator expression reading it), one at a time and at most once - what is never asked for is never evaluated.
    Anything that needs the whole sequence (`.items`) drains what is left."""

    def __init__(self, ex, node, env, source):
        self._ex, self._node, self._env, self._source = ex, node, env, source
        self._pos = 0
        self._rest = None
        SList.__init__(self, kind='gen')

    def pull(self):
        """-> (True, value) for the next element, (False, None) when exhausted."""
        if self._rest is not None:
            if self._rest:
                return True, self._rest.pop(0)
            return False, None
        gen = self._node.generators[0]
        while True:
            if isinstance(self._source, LazyGen):
                ok, it = self._source.pull()
                if not ok:
                    return False, None
            else:
                if self._pos >= len(self._source):
                    return False, None
                it = self._source[self._pos]
                self._pos += 1
            env2 = dict(self._env)
            self._ex.bind(gen.target, it, env2)
            if all(self._ex.truth(self._ex.ev(c, env2), c) for c in gen.ifs):
                return True, self._ex.ev(self._node.elt, env2)

    @property
    def items(self):
        if self._rest is None:
            rest = []
            while True:
                ok, v = self.pull()
                if not ok:
                    break
                rest.append(v)
            self._rest = rest
        return self._rest

    @items.setter
    def items(self, value):
        if value:
            self._rest = list(value)

    def __repr__(self):
        return f'<generator {ast.unparse(self._node)[:60]}>'


class SeqIter(LazyGen):
    """iter(<enumerated sequence>): hands out the elements one by one, each once."""

    def __init__(self, items):
        self._pos = 0
        self._rest = list(items)
        SList.__init__(self, kind='gen')

    def __repr__(self):
        return f'<iterator over {self._rest}>'


def is_key(k):
    """A value the interpreter can use as a dictionary key: constants, opaque symbols, and tuples of those."""
    if k is None or isinstance(k, (str, int, bool, Sym)):
        return True
    return isinstance(k, T) and k.op == 'tuple' and all(is_key(x) for x in k.args)


def show(v):
    if isinstance(v, T):
        a = v.args
        if v.op == 'call':
            args = [show(x) for x in a[1]] + [f'{k}={show(x)}' for k, x in a[2]]
            return f'{a[0] if isinstance(a[0], str) else show(a[0])}({", ".join(args)})'
        if v.op == 'attr':
            return f'{show(a[0])}.{a[1]}'
        if v.op == 'item':
            return f'{show(a[0])}[{show(a[1])}]'
        if v.op == 'slice':
            return f'{show(a[0])}[{"" if a[1] is None else show(a[1])}:{"" if a[2] is None else show(a[2])}]'
        if v.op in ('bin', 'cmp'):
            return f'({show(a[1])} {a[0]} {show(a[2])})'
        if v.op == 'not':
            return f'not {show(a[0])}'
        if v.op == 'neg':
            return f'-{show(a[0])}'
        if v.op == 'elem':
            return f'<each of {show(a[0])}>' + (f'.{a[1]}' if len(a) > 1 and a[1] is not None else '')
        if v.op == 'tuple':
            return '(' + ', '.join(show(x) for x in a) + (',' if len(a) == 1 else '') + ')'
        if v.op == 'ifexp':
            return f'({show(a[1])} if {show(a[0])} else {show(a[2])})'
        if v.op == 'fstr':
            return 'f"' + ''.join(x if isinstance(x, str) else '{' + show(x) + '}' for x in a) + '"'
        if v.op == 'lambda':
            return f'<lambda {a[0]}>'
        if v.op == 'func':
            return f'<function {a[0]}>'
        return f'{v.op}({", ".join(show(x) for x in a)})'
    if isinstance(v, SList):
        return repr(v)
    return repr(v)


class Return(Exception):
    def __init__(self, value):
        self.value = value


class Raise(Exception):
    def __init__(self, exc, args):
        self.exc, self.args_ = exc, args


class Break(Exception):
    pass


class Continue(Exception):
    pass


class Budget(Exception):
    pass


class _NotEnumerable(Exception):
    pass


class _GenStop(Exception):
    pass


@dataclasses.dataclass
class Path:
    decisions: list          # [(term, bool)] assumptions made where the oracle did not decide
    events: list
    outcome: str             # 'return' | 'raise' | 'fallthrough'
    value: object            # returned term / (exception name, args)
    env: dict = None
    heap: dict = None

    def calls(self, name=None):
        return [e for e in self.events if e[0] == 'call' and (name is None or e[1] == name or (isinstance(e[1], str) and e[1].endswith('.' + name)))]

    def produced(self, into=None):
        return [e for e in self.events if e[0] == 'produce' and (into is None or e[1] == into)]


class Exec:
    """One interpreted activation tree following a fixed prefix of decisions."""

    def __init__(self, engine, prefix):
        self.engine = engine
        self.prefix = list(prefix)
        self.decisions = []
        self._decided_objs = []
        self.events = []
        self.heap = {}
        self.depth = 0
        self.steps = 0
        self.loops = []            # active symbolic loops: (uid, seq)
        self._loop_uid = 0
        self.frames = [0]          # ids of the function activations being interpreted
        self._frame_uid = 0
        self.gen_handlers = {}     # frame id -> consumer of the values the generator running in that frame yields

    # ---------------------------------------------------------------- truth
    def truth(self, v, node=None):
        if v is None or v is False:
            return False
        if v is True:
            return True
        if isinstance(v, (int, str)) and not isinstance(v, bool):
            return bool(v)
        if isinstance(v, Falsy):
            return False
        if isinstance(v, SList) and not v.opaque_tail:
            return bool(v.items)
        if isinstance(v, T) and v.op == 'tuple':
            return bool(v.args)
        if isinstance(v, T) and v.op == 'not':
            return not self.truth(v.args[0], node)
        d = self.engine.oracle(v, self) if self.engine.oracle else None
        if d is not None:
            return bool(d)
        if isinstance(v, Sym):
            return True
        # the very value already tested on this path (kept in a variable and tested again): same answer
        for pv, pc in zip(self._decided_objs, self.decisions):
            if pv is v:
                return pc[1]
        # undecided: follow the prefix, else take True first and remember the fork
        i = len(self.decisions)
        if i < len(self.prefix):
            choice = self.prefix[i][1]
        else:
            choice = True
        self.decisions.append((v, choice))
        self._decided_objs.append(v)
        if len(self.decisions) > self.engine.max_decisions:
            raise Budget()
        return choice

    # ---------------------------------------------------------------- expressions
    def ev(self, e, env):
        self.steps += 1
        if self.steps > self.engine.max_steps:
            raise Budget()
        m = getattr(self, 'e_' + type(e).__name__, None)
        if m is None:
            return T('expr', (ast.unparse(e),))
        return m(e, env)

    def e_Constant(self, e, env):
        return e.value

    def e_Name(self, e, env):
        if e.id in env:
            return env[e.id]
        g = self.engine.global_value(e.id, env)
        if g is not None:
            return g
        return T('global', (e.id,))

    def e_Attribute(self, e, env):
        base = self.ev(e.value, env)
        return self.getattr(base, e.attr)

    def getattr(self, base, attr):
        key = T('attr', (base, attr))
        if attr in self.engine.trace_attrs:
            self.events.append(('read', base, attr))
        if key in self.heap:
            return self.heap[key]
        if self.engine.on_attr is not None:
            r = self.engine.on_attr(base, attr, self)
            if r is not NotImplemented:
                return r
        if isinstance(base, T) and base.op == 'global':
            return T('global', (f'{base.args[0]}.{attr}',))
        return key

    def e_Subscript(self, e, env):
        base = self.ev(e.value, env)
        if isinstance(e.slice, ast.Slice):
            lo = self.ev(e.slice.lower, env) if e.slice.lower is not None else None
            hi = self.ev(e.slice.upper, env) if e.slice.upper is not None else None
            st = self.ev(e.slice.step, env) if e.slice.step is not None else None
            if isinstance(base, SList) and not base.opaque_tail and all(isinstance(x, (int, type(None))) for x in (lo, hi, st)):
                return SList(base.items[slice(lo, hi, st)])
            if isinstance(base, T) and base.op == 'tuple' and all(isinstance(x, (int, type(None))) for x in (lo, hi, st)):
                return T('tuple', tuple(base.args[slice(lo, hi, st)]))
            if isinstance(base, str) and all(isinstance(x, (int, type(None))) and not isinstance(x, bool) for x in (lo, hi, st)) and st != 0:
                return base[slice(lo, hi, st)]
            return simplify(T('slice', (base, lo, hi) + ((st,) if st is not None else ())))
        idx = self.ev(e.slice, env)
        # x[slice(a, b)] is x[a:b]
        if isinstance(idx, T) and idx.op == 'call' and idx.args[0] == 'slice' and 1 <= len(idx.args[1]) <= 3 and not idx.args[2]:
            a = idx.args[1]
            lo, hi, st = (None, a[0], None) if len(a) == 1 else (a[0], a[1], a[2] if len(a) == 3 else None)
            return simplify(T('slice', (base, lo, hi) + ((st,) if st is not None else ())))
        return self.getitem(base, idx)

    def getitem(self, base, idx):
        key = T('item', (base, idx))
        if key in self.heap:
            return self.heap[key]
        if isinstance(base, SList) and base.kind == 'dict' and not base.opaque_tail and is_key(idx):
            for k, v in base.items:
                if k == idx:
                    return v
            default = getattr(base, 'default', None)
            if default is not None:
                # collections.defaultdict: a missing key is created with the factory's value
                v = {'list': lambda: SList(), 'set': lambda: SList(kind='set'), 'dict': lambda: SList(kind='dict'),
                     'int': lambda: 0, 'str': lambda: ''}[default]()
                base.items = base.items + [(idx, v)]
                self.events.append(('mutate', base.id, 'setitem', (idx,), (('value', v),)))
                return v
            raise Raise('KeyError', (idx,))
        if isinstance(idx, int) and not isinstance(idx, bool):
            if isinstance(base, str):
                if -len(base) <= idx < len(base):
                    return base[idx]
                raise Raise('IndexError', (idx,))
            if isinstance(base, SList) and not base.opaque_tail and -len(base.items) <= idx < len(base.items):
                return base.items[idx]
            if isinstance(base, SList) and not base.opaque_tail and not base.tail and base.kind in ('list', 'gen'):
                raise Raise('IndexError', (idx,))      # a fully enumerated list: the index is out of range
            if isinstance(base, T) and base.op == 'tuple' and -len(base.args) <= idx < len(base.args):
                return base.args[idx]
        if self.engine.on_item is not None:
            r = self.engine.on_item(base, idx, self)
            if r is not NotImplemented:
                return r
        return key

    def e_Tuple(self, e, env):
        return T('tuple', tuple(self.ev(x, env) for x in e.elts))

    def e_List(self, e, env):
        if any(isinstance(x, ast.Starred) for x in e.elts):
            # [a, *xs, b]: the concatenation [a] + xs + [b]
            parts, cur = [], []
            for x in e.elts:
                if isinstance(x, ast.Starred):
                    v = self.ev(x.value, env)
                    items = self.iterate(v)
                    if items is not None:
                        cur.extend(items)
                    else:
                        if cur:
                            parts.append(SList(cur))
                            cur = []
                        parts.append(v)
                else:
                    cur.append(self.ev(x, env))
            if cur or not parts:
                parts.append(SList(cur))
            out = parts[0]
            for nxt in parts[1:]:
                out = simplify(T('bin', ('+', out, nxt)))
            if isinstance(out, SList):
                out.birth = tuple(u for u, _ in self.loops)
            return out
        out = SList([self.ev(x, env) for x in e.elts])
        out.birth = tuple(u for u, _ in self.loops)
        return out

    def e_Set(self, e, env):
        return SList([self.ev(x, env) for x in e.elts], kind='set')

    def e_Dict(self, e, env):
        pairs = [(self.ev(k, env) if k is not None else None, self.ev(v, env)) for k, v in zip(e.keys, e.values)]
        if self.engine.mutable_dicts and all(k is not None and isinstance(k, (str, int, bool, Sym)) for k, _ in pairs):
            return SList(pairs, kind='dict')
        return T('dict', tuple(pairs))

    def e_JoinedStr(self, e, env):
        parts = []
        for v in e.values:
            if isinstance(v, ast.Constant):
                parts.append(str(v.value))
            else:
                x = self.ev(v.value, env)
                if getattr(v, 'conversion', -1) not in (-1, None):
                    x = T('conv', (chr(v.conversion), x)) if not (v.conversion == ord('s') and isinstance(x, str)) else x
                if getattr(v, 'format_spec', None) is not None:
                    x = T('fmt', (x, ast.unparse(v.format_spec)))
                if isinstance(x, str) and parts and isinstance(parts[-1], str):
                    parts[-1] += x
                elif isinstance(x, T) and x.op == 'fstr':
                    parts.extend(x.args)
                else:
                    parts.append(x)
        merged = []
        for x in parts:
            if isinstance(x, str) and merged and isinstance(merged[-1], str):
                merged[-1] += x
            else:
                merged.append(x)
        parts = merged
        if all(isinstance(p, str) for p in parts):
            return ''.join(parts)
        return T('fstr', tuple(parts))

    def e_IfExp(self, e, env):
        c = self.ev(e.test, env)
        return self.ev(e.body if self.truth(c, e.test) else e.orelse, env)

    def e_Lambda(self, e, env):
        return T('lambda', (ast.unparse(e), _Closure(e, dict(env))))

    def e_UnaryOp(self, e, env):
        v = self.ev(e.operand, env)
        if isinstance(e.op, ast.Not):
            if isinstance(v, (bool, type(None), int, str, Falsy, Sym)) or (isinstance(v, SList) and not v.opaque_tail):
                return not self.truth(v)
            return simplify(T('not', (v,)))
        if isinstance(e.op, ast.USub):
            if isinstance(v, int) and not isinstance(v, bool):
                return -v
            return T('neg', (v,))
        return T('un', (type(e.op).__name__, v))

    def e_BoolOp(self, e, env):
        v = None
        for x in e.values:
            v = self.ev(x, env)
            t = self.truth(v, x)
            if isinstance(e.op, ast.And) and not t:
                return v
            if isinstance(e.op, ast.Or) and t:
                return v
        return v

    _BIN = {ast.Add: '+', ast.Sub: '-', ast.Mult: '*', ast.Div: '/', ast.Mod: '%', ast.FloorDiv: '//', ast.Pow: '**', ast.BitOr: '|', ast.BitAnd: '&', ast.BitXor: '^'}

    def e_BinOp(self, e, env):
        l, r = self.ev(e.left, env), self.ev(e.right, env)
        op = self._BIN.get(type(e.op), type(e.op).__name__)
        if l is None or r is None:
            self.events.append(('null-use', op, l, r))         # arithmetic on None: TypeError when executed
        if op in ('/', '//', '%') and not isinstance(l, str):
            self.events.append(('div', op, l, r))        # the one arithmetic step that can raise on a value (zero divisor)
        if isinstance(l, int) and isinstance(r, int) and not isinstance(l, bool) and not isinstance(r, bool) and op in '+-*':
            return {'+': l + r, '-': l - r, '*': l * r}[op]
        if isinstance(l, str) and isinstance(r, str) and op == '+':
            return l + r
        if op == '+' and isinstance(l, SList) and isinstance(r, SList) and not l.opaque_tail and not r.opaque_tail:
            return SList(l.items + r.items)
        if op == '*' and isinstance(l, SList) and not l.opaque_tail and isinstance(r, int):
            return SList(l.items * r)
        if op in ('-', '|', '&', '^') and isinstance(l, SList) and isinstance(r, SList) and l.kind == 'set' and r.kind == 'set' \
                and not l.opaque_tail and not r.opaque_tail and all(is_key(x) for x in l.items + r.items):
            if op == '-':
                items = [x for x in l.items if x not in r.items]
            elif op == '&':
                items = [x for x in l.items if x in r.items]
            elif op == '|':
                items = l.items + [x for x in r.items if x not in l.items]
            else:
                items = [x for x in l.items if x not in r.items] + [x for x in r.items if x not in l.items]
            return SList(items, kind='set')
        return simplify(T('bin', (op, l, r)))

    _CMP = {ast.Eq: '==', ast.NotEq: '!=', ast.Lt: '<', ast.LtE: '<=', ast.Gt: '>', ast.GtE: '>=', ast.Is: 'is', ast.IsNot: 'is not',
            ast.In: 'in', ast.NotIn: 'not in'}

    def e_Compare(self, e, env):
        left = self.ev(e.left, env)
        result = True
        for op, c in zip(e.ops, e.comparators):
            right = self.ev(c, env)
            r = self.compare(self._CMP[type(op)], left, right)
            if len(e.ops) == 1:
                return r
            if not self.truth(r, e):
                return r if not isinstance(r, T) else False
            left = right
        return result

    def compare(self, op, l, r):
        conc = (bool, int, str, type(None))
        if op in ('is', 'is not'):
            known = None
            if l is None or r is None:
                other = r if l is None else l
                if other is None:
                    known = True
                elif isinstance(other, (Sym, SList, bool, int, str)) or (isinstance(other, T) and (
                        other.op in ('tuple', 'dict', 'lambda', 'func', 'bin', 'cmp', 'slice', 'fstr', 'not', 'neg', 'class', 'new', 'method', 'pytype', 'parsed')
                        or (other.op == 'call' and other.args[0] in ('len', 'isinstance', 'sorted', 'list', 'tuple', 'set', 'enumerate', 'reversed')))):
                    known = False
            elif isinstance(l, conc) and isinstance(r, conc):
                known = l is r
            elif isinstance(l, Sym) and isinstance(r, Sym):
                known = l == r
            elif isinstance(l, T) and isinstance(r, T) and l.op == 'global' and r.op == 'global':
                known = True if l == r else None
            elif (isinstance(l, Sym) and isinstance(r, T) and r.op == 'global') or (isinstance(r, Sym) and isinstance(l, T) and l.op == 'global'):
                known = False
            elif isinstance(l, SList) or isinstance(r, SList):
                known = l is r
            if known is not None:
                return known if op == 'is' else not known
            return T('cmp', (op, l, r))
        if op in ('==', '!='):
            if isinstance(l, conc) and isinstance(r, conc) or (isinstance(l, Sym) and isinstance(r, Sym)):
                eq = l == r
                return eq if op == '==' else not eq
            if isinstance(l, SList) and isinstance(r, SList) and not l.opaque_tail and not r.opaque_tail and \
                    all(isinstance(x, conc + (Sym,)) for x in l.items + r.items):
                if l.kind == 'set' or r.kind == 'set':
                    eq = (l.kind == r.kind or {l.kind, r.kind} <= {'set'}) and set(l.items) == set(r.items)
                else:
                    eq = l.items == r.items
                return eq if op == '==' else not eq
            if l is r or (isinstance(l, T) and l == r):
                return op == '=='
            return T('cmp', (op, l, r))
        if op in ('<', '<=', '>', '>='):
            if l is None or r is None:
                self.events.append(('null-use', op, l, r))     # ordering against None: TypeError when executed
            if type(l) is int and type(r) is int:
                return {'<': l < r, '<=': l <= r, '>': l > r, '>=': l >= r}[op]
            return T('cmp', (op, l, r))
        if op in ('in', 'not in'):
            if isinstance(r, SList) and r.kind == 'dict' and not r.opaque_tail and is_key(l):
                res = any(k == l for k, _ in r.items)
                return res if op == 'in' else not res
            if isinstance(r, SList) and not r.opaque_tail and all(isinstance(x, conc) for x in r.items) and isinstance(l, conc):
                res = l in r.items
                return res if op == 'in' else not res
            if isinstance(r, SList) and not r.opaque_tail and not r.tail and r.kind != 'dict' and isinstance(l, Sym) \
                    and all(isinstance(x, Sym) for x in r.items):
                # symbols are opaque values, equal only to themselves (as for ==); a symbol against a constant stays undecided
                res = any(x == l for x in r.items)
                return res if op == 'in' else not res
            if isinstance(r, T) and r.op == 'tuple' and all(isinstance(x, conc) for x in r.args) and isinstance(l, conc):
                res = l in r.args
                return res if op == 'in' else not res
            return T('cmp', (op, l, r))
        return T('cmp', (op, l, r))

    def _comp(self, e, env, elt, kind):
        gen = e.generators[0]
        seq = self.ev(gen.iter, env)
        if kind == 'gen' and len(e.generators) == 1 and isinstance(e, ast.GeneratorExp):
            src = seq if isinstance(seq, LazyGen) else self.iterate(seq)
            if src is not None:
                lg = LazyGen(self, e, env, src)
                lg.source = seq
                return lg
        out = SList(kind=kind)
        items = self.iterate(seq)
        if items is not None and len(e.generators) > 1:
            # several `for` clauses over enumerated sequences: nested enumeration
            def rec(gi, env_):
                g = e.generators[gi]
                its = self.iterate(self.ev(g.iter, env_))
                if its is None:
                    raise _NotEnumerable()
                for it in its:
                    env2 = dict(env_)
                    self.bind(g.target, it, env2)
                    if not all(self.truth(self.ev(c, env2), c) for c in g.ifs):
                        continue
                    if gi + 1 < len(e.generators):
                        rec(gi + 1, env2)
                    else:
                        v = self.ev(elt, env2) if not isinstance(elt, tuple) else tuple(self.ev(x, env2) for x in elt)
                        if kind == 'dict':
                            out.items = [x for x in out.items if x[0] != v[0]]
                        elif kind == 'set' and v in out.items:
                            continue
                        out.items.append(v)
            try:
                rec(0, env)
                out.source = seq
                return out
            except _NotEnumerable:
                return T('comp', (ast.unparse(e),))
        if items is not None and len(e.generators) == 1:
            out.source = seq
            for it in items:
                env2 = dict(env)
                self.bind(gen.target, it, env2)
                if all(self.truth(self.ev(c, env2), c) for c in gen.ifs):
                    v = self.ev(elt, env2) if not isinstance(elt, tuple) else tuple(self.ev(x, env2) for x in elt)
                    if kind == 'dict':
                        out.items = [x for x in out.items if x[0] != v[0]]     # a later entry replaces the one with an equal key
                    elif kind == 'set' and v in out.items:
                        continue
                    out.items.append(v)
            return out
        if len(e.generators) == 2 and not any(g.ifs or g.is_async for g in e.generators) and not isinstance(elt, tuple):
            # [f(a, b) for a in A for b in B] with B enumerated and independent of a: the comprehension over itertools.product(A, B)
            g0, g1 = e.generators
            outer_names = {n.id for n in ast.walk(g0.target) if isinstance(n, ast.Name)}
            if not any(isinstance(n, ast.Name) and n.id in outer_names for n in ast.walk(g1.iter)):
                inner = self.ev(g1.iter, env)
                if self.iterate(inner) is not None:
                    env3 = dict(env)
                    env3['__product__'] = T('call', ('itertools.product', (seq, inner), ()))
                    g = ast.comprehension(target=ast.Tuple(elts=[g0.target, g1.target], ctx=ast.Store()),
                                          iter=ast.Name(id='__product__', ctx=ast.Load()), ifs=[], is_async=0)
                    e2 = type(e)(elt=e.elt, generators=[g]) if not isinstance(e, ast.DictComp) else None
                    if e2 is not None:
                        ast.copy_location(e2, e)
                        ast.fix_missing_locations(e2)
                        return self._comp(e2, env3, elt, kind)
        if len(e.generators) != 1:
            return T('comp', (ast.unparse(e),))
        env2 = dict(env)
        views = []
        while isinstance(seq, T) and seq.op == 'filter':
            views.append(seq.args[0])
            seq = seq.args[1]
        el = T('elem', (seq,))
        self.bind(gen.target, el, env2)
        self.events.append(('loop-begin', seq, out.id))
        self._loop_uid += 1
        self.loops.append((self._loop_uid, seq))
        conds = []
        ok = True
        for f in reversed(views):
            cv = el if f is None else (self.apply_value(f, el) if self.is_applicable(f) else self.call_value(f, (el,), gen.iter, env2))
            conds.append(cv)
            if not self.truth(cv, gen.iter):
                ok = False
                break
        for c in (gen.ifs if ok else ()):
            cv = self.ev(c, env2)
            conds.append(cv)
            if not self.truth(cv, c):
                ok = False
                break
        val = None
        if ok:
            val = self.ev(elt, env2) if not isinstance(elt, tuple) else T('tuple', tuple(self.ev(x, env2) for x in elt))
            self.events.append(('produce', out.id, val))
        self.loops.pop()
        self.events.append(('loop-end', seq, out.id))
        out.origin = (seq, val, tuple(conds))
        out.opaque_tail = True
        return out

    def e_ListComp(self, e, env):
        return self._comp(e, env, e.elt, 'list')

    def e_SetComp(self, e, env):
        return self._comp(e, env, e.elt, 'set')

    def e_GeneratorExp(self, e, env):
        return self._comp(e, env, e.elt, 'gen')

    def e_DictComp(self, e, env):
        return self._comp(e, env, (e.key, e.value), 'dict')

    def e_Starred(self, e, env):
        return T('star', (self.ev(e.value, env),))

    def e_Yield(self, e, env):
        v = self.ev(e.value, env) if e.value is not None else None
        h = self.gen_handlers.get(self.frames[-1])
        if h is not None:
            h(v)               # a generator of the package being iterated by the interpreted code: the consumer's loop body runs here
            return None
        # the attributes stored on the yielded object so far (what the consumer sees at this point)
        snap = {k.args[1]: x for k, x in self.heap.items() if isinstance(k, T) and k.op == 'attr' and k.args[0] == v}
        self.events.append(('yield', v, snap))
        return None

    def _emit_yield(self, v):
        h = self.gen_handlers.get(self.frames[-1]) if self.frames else None
        if h is not None:
            h(v)
            return
        snap = {k.args[1]: x for k, x in self.heap.items() if isinstance(k, T) and k.op == 'attr' and k.args[0] == v}
        self.events.append(('yield', v, snap))

    def e_YieldFrom(self, e, env):
        """`yield from xs`: every element of xs is yielded in turn."""
        seq = self.ev(e.value, env)
        if isinstance(seq, T) and seq.op == 'genobj':
            # a generator function of the package: its yields are the yields of this activation, one by one
            target, recv, args, kwargs = seq.args
            outer = self.frames[-1] if self.frames else None

            def consumer(v):
                if outer is not None:
                    self.frames.append(outer)
                try:
                    self._emit_yield(v)
                finally:
                    if outer is not None:
                        self.frames.pop()
            return self.inline(target, recv, args, kwargs, consumer=consumer)
        if isinstance(seq, LazyGen):
            while True:
                ok, v = seq.pull()
                if not ok:
                    return None
                self._emit_yield(v)
        items = self.iterate(seq)
        if items is not None:
            for v in items:
                self._emit_yield(v)
            return None
        if isinstance(seq, SList) and seq.origin is not None:
            # a comprehension over a sequence that is not enumerated: its element stands for the elements (None: filtered out here)
            if seq.origin[1] is not None:
                self._emit_yield(seq.origin[1])
            return None
        self._emit_yield(T('elem', (seq,)))
        return None

    def e_NamedExpr(self, e, env):
        v = self.ev(e.value, env)
        env[e.target.id] = v
        return v

    # ---------------------------------------------------------------- calls
    def e_Call(self, e, env):
        fname, fval, recv = self.callee(e.func, env)
        args = []
        for a in e.args:
            v = self.ev(a, env)
            if isinstance(a, ast.Starred):
                inner = self.iterate(v.args[0])
                if inner is not None:
                    args.extend(inner)
                    continue
            args.append(v)
        kwargs = []
        for k in e.keywords:
            v = self.ev(k.value, env)
            if k.arg is None and isinstance(v, SList) and v.kind == 'dict' and not v.opaque_tail and all(isinstance(kk, str) for kk, _ in v.items):
                kwargs.extend((kk, vv) for kk, vv in v.items)        # f(**{'name': value}) is f(name=value)
            else:
                kwargs.append((k.arg, v))
        return self.call(fname, fval, recv, tuple(args), tuple(kwargs), e, env)

    def callee(self, f, env):
        """-> (printable name, callee value, receiver value or None)"""
        if isinstance(f, ast.Attribute):
            recv = self.ev(f.value, env)
            name = f'{show(recv)}.{f.attr}' if not (isinstance(recv, T) and recv.op == 'global') else f'{recv.args[0]}.{f.attr}'
            return name, self.getattr(recv, f.attr), recv
        v = self.ev(f, env)
        if isinstance(f, ast.Name):
            if isinstance(v, T) and v.op == 'func':
                return v.args[0], v, None
            if isinstance(v, T) and v.op == 'global':
                return v.args[0], v, None
            if isinstance(v, (T, Sym)):
                return show(v), v, None       # a callable *value* held in a local: named by the value, not by the variable
            return f.id, v, None
        return show(v), v, None

    def call(self, fname, fval, recv, args, kwargs, node, env):
        eng = self.engine
        if eng.on_call is not None:
            r = eng.on_call(fname, fval, recv, args, kwargs, self, node)
            if r is not NotImplemented:
                return r
        # methods of objects the interpreter models
        attr = node.func.attr if isinstance(node.func, ast.Attribute) else None
        if isinstance(recv, SList) and attr is not None:
            r = self.list_method(recv, attr, args, kwargs)
            if r is not NotImplemented:
                return r
        if isinstance(recv, str) and attr == 'format' and all(isinstance(a, (str, int)) for a in args) and not kwargs:
            return recv.format(*args)
        if isinstance(recv, str) and attr == 'format':
            r = self.format_template(recv, args, dict(kwargs))
            if r is not NotImplemented:
                return r
        if isinstance(recv, str) and attr in ('strip', 'lower', 'upper', 'rstrip', 'lstrip') and not args:
            return getattr(recv, attr)()
        if isinstance(recv, str) and not kwargs and all(isinstance(a, (str, int)) and not isinstance(a, bool) for a in args) and attr in (
                'startswith', 'endswith', 'strip', 'lstrip', 'rstrip', 'replace', 'find', 'rfind', 'count', 'isdigit', 'isalpha', 'isalnum',
                'isidentifier', 'isupper', 'islower', 'title', 'capitalize', 'casefold', 'zfill', 'removeprefix', 'removesuffix', 'swapcase'):
            try:
                return getattr(recv, attr)(*args)
            except (TypeError, ValueError):
                pass
        if isinstance(recv, str) and attr in ('partition', 'rpartition') and len(args) == 1 and isinstance(args[0], str) and args[0]:
            return T('tuple', tuple(getattr(recv, attr)(args[0])))
        if isinstance(recv, str) and attr == 'join' and len(args) == 1 and not kwargs:
            items = self.iterate(args[0])
            if items is not None and all(isinstance(x, str) for x in items):
                return recv.join(items)
        if isinstance(recv, str) and attr == 'split' and not kwargs and all(isinstance(a, str) for a in args) and len(args) <= 1:
            return SList(recv.split(*args))
        if fname in ('collections.defaultdict',) :
            b = self.builtin('collections.defaultdict', args, kwargs, node, env)
            if b is not NotImplemented:
                return b
        # builtins on modelled values
        if isinstance(node.func, ast.Name) and node.func.id not in env:
            b = self.builtin(node.func.id, args, kwargs, node, env)
            if b is not NotImplemented:
                return b
        # closures and package functions: inline
        target = None
        if isinstance(fval, T) and fval.op == 'lambda':
            return self.apply_closure(fval.args[1], args, kwargs)
        if isinstance(fval, T) and fval.op == 'call' and self.is_applicable(fval) and len(args) == 1 and not kwargs:
            return self.apply_value(fval, args[0])
        if isinstance(fval, T) and fval.op == 'func':
            target = fval.args[1]
        elif eng.resolve is not None:
            target = eng.resolve(node, fname, fval, recv, self, env)
        if target is not None and self.depth < eng.max_depth:
            if isinstance(node.func, ast.Attribute) and isinstance(node.func.value, ast.Call) and isinstance(node.func.value.func, ast.Name) \
                    and node.func.value.func.id == 'super' and isinstance(env, dict) and 'self' in env:
                recv = env['self']
            return self.inline(target, recv, args, kwargs)
        # round(x, ndigits=n) is round(x, n)
        if fname == 'round' and len(args) == 1 and len(kwargs) == 1 and tuple(kwargs)[0][0] == 'ndigits':
            args, kwargs = tuple(args) + (tuple(kwargs)[0][1],), ()
        # a method of a compiled pattern is the module function with the pattern first: re.compile(p).match(s) is re.match(p, s)
        if isinstance(fval, T) and fval.op == 'attr' and isinstance(fval.args[0], T) and fval.args[0].op == 'call' \
                and fval.args[0].args[0] == 're.compile' and len(fval.args[0].args[1]) == 1 and not fval.args[0].args[2] \
                and fval.args[1] in ('match', 'search', 'fullmatch', 'findall', 'finditer', 'split', 'sub', 'subn'):
            fname, args = 're.' + fval.args[1], (fval.args[0].args[1][0],) + tuple(args)
        self.events.append(('call', fname, args, kwargs))
        return T('call', (fname, args, kwargs))

    def format_template(self, template, args, kwargs):
        """'...{}...{name!r:spec}...'.format(...) with symbolic arguments -> fstr term (conversions and specs kept as terms)."""
        import string
        parts = []
        auto = 0
        try:
            fields = list(string.Formatter().parse(template))
        except ValueError:
            return NotImplemented
        for lit, field, spec, conv in fields:
            if lit:
                parts.append(lit)
            if field is None:
                continue
            if field == '':
                if auto >= len(args):
                    return NotImplemented
                v = args[auto]
                auto += 1
            elif field.isdigit():
                if int(field) >= len(args):
                    return NotImplemented
                v = args[int(field)]
            elif field.isidentifier():
                if field not in kwargs:
                    return NotImplemented
                v = kwargs[field]
            else:
                return NotImplemented
            if conv:
                v = T('conv', (conv, v))
            if spec:
                v = T('fmt', (v, spec))
            if isinstance(v, str) and parts and isinstance(parts[-1], str):
                parts[-1] += v
            elif isinstance(v, T) and v.op == 'fstr':
                for x in v.args:
                    if isinstance(x, str) and parts and isinstance(parts[-1], str):
                        parts[-1] += x
                    else:
                        parts.append(x)
            else:
                parts.append(v)
        merged = []
        for x in parts:
            if isinstance(x, str) and merged and isinstance(merged[-1], str):
                merged[-1] += x
            else:
                merged.append(x)
        if all(isinstance(x, str) for x in merged):
            return ''.join(merged)
        return T('fstr', tuple(merged))

    def builtin(self, name, args, kwargs, node, env):
        if name == 'isinstance' and len(args) == 2:
            if self.engine.on_isinstance is not None:
                r = self.engine.on_isinstance(args[0], args[1], self)
                if r is not NotImplemented and r is not None:
                    return r
            return T('call', ('isinstance', args, ()))
        if name == 'len' and len(args) == 1:
            a = args[0]
            if isinstance(a, SList) and not a.opaque_tail:
                return len(a.items)
            if isinstance(a, T) and a.op == 'tuple':
                return len(a.args)
            return simplify(T('call', ('len', args, ())))
        if name in ('list', 'set', 'dict', 'frozenset', 'tuple') and not args and not kwargs:
            if name == 'tuple':
                return T('tuple', ())
            return SList(kind={'list': 'list', 'set': 'set', 'frozenset': 'set', 'dict': 'dict'}[name])
        if name in ('list', 'tuple', 'set', 'sorted', 'reversed', 'iter', 'frozenset') and len(args) == 1 and not kwargs:
            a = args[0]
            if name == 'sorted' and isinstance(a, SList) and not a.opaque_tail and (all(type(x) is int for x in a.items)
                                                                                   or all(type(x) is str for x in a.items)):
                return SList(sorted(a.items))
            if name in ('set', 'frozenset') and isinstance(a, SList) and not a.opaque_tail:
                items = []
                for x in a.items:
                    if x not in items:
                        items.append(x)
                return SList(items, kind='set')
            if name == 'iter' and isinstance(a, LazyGen):
                return a
            if name == 'iter' and ((isinstance(a, SList) and not a.opaque_tail and a.kind != 'dict') or (isinstance(a, T) and a.op == 'tuple')):
                it = SeqIter(a.items if isinstance(a, SList) else a.args)
                it.source = a
                return it
            if name in ('list', 'tuple', 'iter') and isinstance(a, SList):
                if name == 'tuple' and not a.opaque_tail:
                    return T('tuple', tuple(a.items))
                if name == 'list':
                    n = SList(a.items, origin=a.origin, kind='list')
                    n.opaque_tail = a.opaque_tail
                    n.source = a.source
                    # the copy holds the same elements: events are attributed to the copy as well
                    if a.origin is not None:
                        self.events.append(('alias', n.id, a.id))
                    return n
                return T('call', (name, args, ()))
            if name == 'tuple' and isinstance(a, T) and a.op == 'tuple':
                return a
            return T('call', (name, args, ()))
        if name == 'getattr' and len(args) >= 2 and isinstance(args[1], str):
            return self.getattr(args[0], args[1])
        if name == 'setattr' and len(args) == 3 and isinstance(args[1], str):
            lv = T('attr', (args[0], args[1]))
            self.heap[lv] = args[2]
            self.events.append(('store', lv, args[2]))
            return None
        if name == 'sorted' and len(args) == 1 and kwargs and set(dict(kwargs)) <= {'key', 'reverse'}:
            items = self.iterate(args[0])
            kw = dict(kwargs)
            key, rev = kw.get('key'), kw.get('reverse', False)
            if items is not None and isinstance(rev, bool) and (key is None or self.is_applicable(key)):
                keys = [x if key is None else self.apply_value(key, x) for x in items]
                if all(type(k) is int for k in keys) or all(type(k) is str for k in keys):
                    order = sorted(range(len(items)), key=lambda i: keys[i], reverse=rev)
                    return SList([items[i] for i in order])
        if name in ('defaultdict', 'collections.defaultdict') and len(args) == 1 and not kwargs and isinstance(args[0], T) \
                and args[0].op == 'global' and args[0].args[0] in ('list', 'int', 'set', 'dict', 'str'):
            d = SList(kind='dict')
            d.default = args[0].args[0]
            return d
        if name == 'filter' and len(args) == 2 and not kwargs:
            f, seq = args
            items = self.iterate(seq)
            if items is not None:
                keep = []
                for it in items:
                    c = it if f is None else (self.apply_value(f, it) if self.is_applicable(f) else self.call_value(f, (it,), node, env))
                    if self.truth(c, node):
                        keep.append(it)
                return SList(keep, kind='gen')
            # over a sequence that is not enumerated: a lazy view, examined when it is iterated (one pass over the source)
            return T('filter', (f, seq))
        if name in ('sum', 'min', 'max') and len(args) == 1 and not kwargs:
            items = self.iterate(args[0])
            if items is not None and all(type(x) is int for x in items) and (items or name == 'sum'):
                return {'sum': sum, 'min': min, 'max': max}[name](items)
        if name == 'sum' and len(args) == 2 and not kwargs and type(args[1]) is int:
            items = self.iterate(args[0])
            if items is not None and all(type(x) is int for x in items):
                return sum(items, args[1])
        if name == 'range' and 1 <= len(args) <= 2 and all(type(a) is int for a in args):
            return SList(list(range(*args)))
        if name == 'enumerate' and len(args) == 1:
            return T('call', ('enumerate', args, ()))
        if name in ('any', 'all') and len(args) == 1 and isinstance(args[0], LazyGen):
            while True:
                ok, v = args[0].pull()
                if not ok:
                    return name == 'all'
                if self.truth(v, node) == (name == 'any'):
                    return name == 'any'
        if name in ('any', 'all') and len(args) == 1:
            a = args[0]
            if isinstance(a, SList) and not a.opaque_tail:
                ts = [self.truth(x, node) for x in a.items]
                return any(ts) if name == 'any' else all(ts)
            if isinstance(a, SList) and a.origin is not None:
                # one symbolic element stands for the elements: any() is decided by whether it holds for that element
                seq, elt, conds = a.origin
                if elt is None:       # filtered out on this path
                    return name == 'all'
                return self.truth(elt, node)
            return T('call', (name, args, ()))
        if name == 'map' and len(args) == 2:
            items = self.iterate(args[1])
            if items is not None:
                f = args[0]
                out = []
                for it in items:
                    if self.is_applicable(f):
                        out.append(self.apply_value(f, it))
                    else:
                        out.append(T('call', (gname(f), (it,), ())))
                mapped = SList(out, kind='gen')
                mapped.source = args[1]
                return mapped
            if self.is_applicable(args[0]) or isinstance(args[0], (T, Sym)):
                # over a sequence that is not enumerated: the generator expression (f(x) for x in seq)
                comp = ast.parse('(__map_f(__map_x) for __map_x in __map_seq)', mode='eval').body
                env2 = dict(env) if isinstance(env, dict) else {}
                env2['__map_f'], env2['__map_seq'] = args[0], args[1]
                return self._comp(comp, env2, comp.elt, 'gen')
        if name == 'next' and len(args) in (1, 2) and isinstance(args[0], LazyGen):
            ok, v = args[0].pull()
            if ok:
                return v
            if len(args) == 2:
                return args[1]
            raise Raise('StopIteration', ())
        if name == 'next' and len(args) in (1, 2) and isinstance(args[0], SList) and not args[0].opaque_tail and args[0].kind != 'dict':
            if args[0].items:
                return args[0].items[0]
            if len(args) == 2:
                return args[1]
            raise Raise('StopIteration', ())
        if name == 'bool' and len(args) == 1:
            a = args[0]
            if a is None or isinstance(a, (bool, int, str, Falsy, Sym)) or (isinstance(a, SList) and not a.opaque_tail) or \
                    (isinstance(a, T) and a.op == 'tuple'):
                return self.truth(a, node)
            return T('call', ('bool', args, ()))
        if name in ('str', 'repr', 'int', 'bool') and len(args) == 1 and isinstance(args[0], (str, int, bool)):
            return {'str': str, 'repr': repr, 'int': int, 'bool': bool}[name](args[0])
        return NotImplemented

    def list_method(self, lst, attr, args, kwargs):
        if attr == 'append' and len(args) == 1:
            rel = [l for l in self.loops if lst.birth is not None and l[0] not in lst.birth]
            if rel or lst.segs is not None:
                if lst.segs is None:
                    lst.segs = [('item', x) for x in lst.items]
                cur = lst.segs
                for uid, seq in rel:
                    if cur and cur[-1][0] == 'loop' and cur[-1][1] == uid:
                        cur = cur[-1][3]
                    else:
                        node = ('loop', uid, seq, [])
                        cur.append(node)
                        cur = node[3]
                cur.append(('item', args[0]))
            if lst.tail:
                lst.tail.append(SList([args[0]]))
            else:
                lst.items.append(args[0])
            self.events.append(('produce', lst.id, args[0]))
            return None
        if attr == 'extend' and len(args) == 1:
            a = args[0]
            enum = self.iterate(a) if not (isinstance(a, SList) and a.kind == 'dict') else None
            if enum is not None and not lst.tail and not lst.opaque_tail:
                lst.items.extend(enum)
                if lst.segs is not None:
                    lst.segs.extend(('item', x) for x in enum)
            elif isinstance(a, SList) and not a.opaque_tail and not lst.tail:
                lst.items.extend(a.items)
            else:
                lst.opaque_tail = True
                lst.tail.append(a)
            self.events.append(('extend', lst.id, a))
            return None
        concrete = not lst.opaque_tail and not lst.tail and lst.origin is None and lst.segs is None and lst.kind in ('list',)
        if concrete and not kwargs:
            if attr == 'reverse' and not args:
                lst.items = list(reversed(lst.items))
                self.events.append(('mutate', lst.id, 'reverse', (), ()))
                return None
            if attr == 'insert' and len(args) == 2 and type(args[0]) is int:
                items = list(lst.items)
                items.insert(args[0], args[1])
                lst.items = items
                self.events.append(('mutate', lst.id, 'insert', tuple(args), ()))
                return None
            if attr == 'clear' and not args:
                lst.items = []
                self.events.append(('mutate', lst.id, 'clear', (), ()))
                return None
            if attr == 'copy' and not args:
                return SList(list(lst.items))
            if attr in ('index', 'count', 'remove') and len(args) == 1 and all(
                    isinstance(x, (str, int, bool, Sym, type(None))) for x in list(lst.items) + [args[0]]):
                if attr == 'count':
                    return sum(1 for x in lst.items if x == args[0])
                if args[0] not in lst.items:
                    raise Raise('ValueError', (args[0],))
                if attr == 'index':
                    return lst.items.index(args[0])
                items = list(lst.items)
                items.remove(args[0])
                lst.items = items
                self.events.append(('mutate', lst.id, 'remove', tuple(args), ()))
                return None
        if attr in ('sort', 'reverse', 'insert', 'pop', 'remove', 'clear'):
            self.events.append(('mutate', lst.id, attr, args, kwargs))
            if attr == 'sort' and concrete and len(lst.items) > 1:
                # the order after the sort is not known on terms: no element keeps a position a rule could take for the original one
                before = tuple(lst.items)
                lst.items = [T('sorted-item', (i, before, tuple(args), tuple(kwargs))) for i in range(len(before))]
            if attr == 'pop' and len(args) <= 1 and lst.items and not lst.opaque_tail and not lst.tail and lst.kind == 'list' \
                    and all(type(a) is int for a in args) and (not args or -len(lst.items) <= args[0] < len(lst.items)):
                return lst.items.pop(*args)
            return T('call', (f'<list {lst.id}>.{attr}', args, kwargs)) if attr == 'pop' else None
        if attr == 'index' and len(args) == 1:
            return T('call', (f'{show(lst)}.index', args, ()))
        if attr == 'copy':
            n = SList(lst.items, origin=lst.origin, kind=lst.kind)
            n.opaque_tail = lst.opaque_tail
            return n
        if lst.kind == 'dict' and not lst.opaque_tail and not args and attr in ('items', 'keys', 'values'):
            if attr == 'items':
                return SList([T('tuple', (k, v)) for k, v in lst.items])
            return SList([k if attr == 'keys' else v for k, v in lst.items])
        if attr == 'setdefault' and lst.kind == 'dict' and not lst.opaque_tail and len(args) in (1, 2) and is_key(args[0]) and not kwargs:
            for k, v in lst.items:
                if k == args[0]:
                    return v
            v = args[1] if len(args) == 2 else None
            lst.items = lst.items + [(args[0], v)]
            self.events.append(('mutate', lst.id, 'setitem', (args[0],), (('value', v),)))
            return v
        if attr == 'update' and lst.kind == 'dict' and not lst.opaque_tail and len(args) == 1 and not kwargs and isinstance(args[0], SList) \
                and args[0].kind == 'dict' and not args[0].opaque_tail:
            for k, v in args[0].items:
                if any(a == k for a, _ in lst.items):
                    lst.items = [(a, v if a == k else b) for a, b in lst.items]
                else:
                    lst.items = lst.items + [(k, v)]
            self.events.append(('mutate', lst.id, 'update', tuple(args), ()))
            return None
        if attr == 'pop' and lst.kind == 'dict' and not lst.opaque_tail and len(args) in (1, 2) and is_key(args[0]) and not kwargs:
            for k, v in lst.items:
                if k == args[0]:
                    lst.items = [(a, b) for a, b in lst.items if a != k]
                    self.events.append(('mutate', lst.id, 'pop', tuple(args), ()))
                    return v
            if len(args) == 2:
                return args[1]
            raise Raise('KeyError', (args[0],))
        if attr == 'get' and lst.kind == 'dict' and not lst.opaque_tail and len(args) in (1, 2) \
                and is_key(args[0]):
            for k, v in lst.items:
                if k == args[0]:
                    return v
            return args[1] if len(args) == 2 else None
        if attr == 'get' and lst.kind == 'dict' and not lst.opaque_tail and len(args) in (1, 2) and isinstance(args[0], T) \
                and not is_key(args[0]) and all(isinstance(k, (str, int, bool)) for k, _ in lst.items):
            # a computed key into a fully known table: one case per distinct value (the key is one of the keys giving it), else default
            groups = []
            for k, v in lst.items:
                for g in groups:
                    if g[0] is v or (type(g[0]) is type(v) and g[0] == v):
                        g[1].append(k)
                        break
                else:
                    groups.append((v, [k]))
            if len(groups) <= 8:
                for v, keys in groups:
                    if self.truth(T('cmp', ('in', args[0], SList(keys)))):
                        return v
                return args[1] if len(args) == 2 else None
        if attr == 'add' and len(args) == 1:
            lst.items.append(args[0])
            self.events.append(('produce', lst.id, args[0]))
            return None
        return NotImplemented

    @staticmethod
    def is_applicable(f):
        """A callable value the interpreter can apply to one argument: a closure, or an operator.attrgetter / itemgetter of constants."""
        if isinstance(f, T) and f.op in ('lambda', 'func'):
            return True
        return isinstance(f, T) and f.op == 'call' and f.args[0] in ('operator.attrgetter', 'operator.itemgetter', 'attrgetter', 'itemgetter') \
            and len(f.args[1]) == 1 and not f.args[2] and isinstance(f.args[1][0], (str, int)) and not isinstance(f.args[1][0], bool)

    def apply_value(self, f, x):
        if f.op in ('lambda', 'func'):
            return self.apply_closure(f.args[1], (x,), ())
        a = f.args[1][0]
        if f.args[0].endswith('attrgetter'):
            if not isinstance(a, str):
                raise Raise('TypeError', ('attribute name must be a string',))
            for part in a.split('.'):
                x = self.getattr(x, part)
            return x
        return self.getitem(x, a)

    def call_value(self, f, args, node, env):
        """Apply a callable *value* (not syntax) to arguments: through the hooks, else an uninterpreted call."""
        fname = show(f)
        if self.engine.on_call is not None:
            r = self.engine.on_call(fname, f, None, tuple(args), (), self, node)
            if r is not NotImplemented:
                return r
        if isinstance(f, T) and f.op in ('lambda', 'func'):
            return self.apply_closure(f.args[1], tuple(args), ())
        self.events.append(('call', fname, tuple(args), ()))
        return T('call', (fname, tuple(args), ()))

    def apply_closure(self, clo, args, kwargs):
        env = dict(clo.env)
        a = clo.node.args
        params = [x.arg for x in a.args]
        for p, v in zip(params, args):
            env[p] = v
        for k, v in kwargs:
            env[k] = v
        if isinstance(clo.node, ast.Lambda):
            return self.ev(clo.node.body, env)
        return self.run_body(clo.node, env)

    def inline(self, target, recv, args, kwargs, consumer=None):
        """Interpret a package function in place."""
        if isinstance(target, FuncInfo):
            INTERPRETED.add(target.fq)
        node0 = target.node if isinstance(target, (FuncInfo, _Closure)) else target
        if consumer is None and self.engine.inline_generators == 'lazy' and \
                any(isinstance(n, (ast.Yield, ast.YieldFrom)) for n in ast.walk(node0) if n is not node0):
            return T('genobj', (target, recv, tuple(args), tuple(kwargs)))
        env = {'__fi__': target if isinstance(target, FuncInfo) else None}
        if isinstance(target, _Closure):
            env.update(target.env)
            node = target.node
        else:
            node = target.node if isinstance(target, FuncInfo) else target
        a = node.args
        params = [x.arg for x in a.posonlyargs + a.args]
        vals = list(args)
        is_method = isinstance(target, FuncInfo) and isinstance(target.parent, ClassInfo) and params[:1] in (['self'], ['cls']) \
            and not any(isinstance(d, ast.Name) and d.id == 'staticmethod' for d in node.decorator_list)
        if is_method and recv is not None:
            vals = [recv] + vals
        defaults = a.defaults
        fd = len(params) - len(defaults)
        kw = dict(kwargs)
        for i, p in enumerate(params):
            if i < len(vals):
                env[p] = vals[i]
            elif p in kw:
                env[p] = kw.pop(p)
            elif i >= fd:
                env[p] = self.ev(defaults[i - fd], {})
            else:
                env[p] = T('missing', (p,))
        if a.vararg:
            env[a.vararg.arg] = T('tuple', tuple(vals[len(params):]))
        if a.kwarg:
            env[a.kwarg.arg] = T('dict', tuple((k, v) for k, v in kw.items()))
        for ko, kd in zip(a.kwonlyargs, a.kw_defaults):
            env[ko.arg] = kw.get(ko.arg, self.ev(kd, {}) if kd is not None else T('missing', (ko.arg,)))
        self.depth += 1
        self._frame_uid += 1
        fid = self._frame_uid
        self.frames.append(fid)
        if consumer is not None:
            self.gen_handlers[fid] = consumer
        try:
            return self.run_body(node, env)
        finally:
            self.depth -= 1
            self.frames.pop()
            self.gen_handlers.pop(fid, None)

    def run_body(self, node, env):
        if any(isinstance(n, (ast.Yield, ast.YieldFrom)) for n in ast.walk(node) if n is not node) and self.depth > 0 \
                and not self.engine.inline_generators and self.frames[-1] not in self.gen_handlers:
            # a generator called from the interpreted code: its body runs when iterated; keep it opaque
            return T('call', (f'<generator {getattr(node, "name", "?")}>', (), ()))
        try:
            self.block(node.body, env)
        except Return as r:
            return r.value
        return None

    # ---------------------------------------------------------------- statements
    def block(self, body, env):
        for st in body:
            self.stmt(st, env)

    def stmt(self, st, env):
        self.steps += 1
        if self.steps > self.engine.max_steps:
            raise Budget()
        m = getattr(self, 's_' + type(st).__name__, None)
        if m is None:
            self.events.append(('unsupported', type(st).__name__))
            return
        m(st, env)

    def s_Expr(self, st, env):
        if isinstance(st.value, ast.Constant):
            return
        self.ev(st.value, env)

    def s_Pass(self, st, env):
        pass

    def s_Assert(self, st, env):
        pass

    def s_Global(self, st, env):
        pass

    def s_Nonlocal(self, st, env):
        pass

    def s_Import(self, st, env):
        pass

    def s_ImportFrom(self, st, env):
        pass

    def s_Return(self, st, env):
        raise Return(self.ev(st.value, env) if st.value is not None else None)

    def s_Raise(self, st, env):
        if st.exc is None:
            raise Raise('reraise', ())
        e = st.exc
        # `raise make_error(...)`: a function of the module that builds the exception - what is raised is what it returns
        mod = getattr(env.get('__fi__'), 'module', None) if isinstance(env, dict) else None
        if isinstance(e, ast.Call) and isinstance(e.func, ast.Name) and mod is not None and e.func.id not in env \
                and e.func.id in getattr(mod, 'toplevel_funcs', {}) and e.func.id not in getattr(mod, 'classes', {}):
            v = self.ev(e, env)
            if isinstance(v, T) and v.op in ('call', 'new') and isinstance(v.args[0], str):
                raise Raise(v.args[0], tuple(v.args[1]))
            raise Raise(ast.unparse(e.func), ())
        if isinstance(e, ast.Call):
            name = ast.unparse(e.func)
            args = tuple(self.ev(a, env) for a in e.args)
        else:
            name, args = ast.unparse(e), ()
        raise Raise(name, args)

    def s_Assign(self, st, env):
        v = self.ev(st.value, env)
        for t in st.targets:
            self.bind(t, v, env, store_event=True)

    def s_AnnAssign(self, st, env):
        if st.value is not None:
            self.bind(st.target, self.ev(st.value, env), env, store_event=True)

    def s_AugAssign(self, st, env):
        cur = self.ev(st.target, env)
        r = self.ev(st.value, env)
        op = self._BIN.get(type(st.op), type(st.op).__name__)
        if isinstance(cur, SList) and op == '+':
            self.list_method(cur, 'extend', (r,), ())
            return
        if type(cur) is int and type(r) is int and op in '+-':
            v = cur + r if op == '+' else cur - r
        else:
            v = simplify(T('bin', (op, cur, r)))
        self.events.append(('aug', self.lvalue(st.target, env), op, r))
        self.bind(st.target, v, env)

    def s_Delete(self, st, env):
        for t in st.targets:
            lv = self.lvalue(t, env)
            self.events.append(('delete', lv))
            if isinstance(t, ast.Subscript):
                base = self.ev(t.value, env)
                if isinstance(base, SList):
                    self.events.append(('mutate', base.id, 'delitem', (lv,), ()))

    def lvalue(self, t, env):
        if isinstance(t, ast.Name):
            return T('local', (t.id,))
        if isinstance(t, ast.Attribute):
            return T('attr', (self.ev(t.value, env), t.attr))
        if isinstance(t, ast.Subscript):
            if isinstance(t.slice, ast.Slice):
                lo = self.ev(t.slice.lower, env) if t.slice.lower is not None else None
                hi = self.ev(t.slice.upper, env) if t.slice.upper is not None else None
                return T('slice', (self.ev(t.value, env), lo, hi))
            return T('item', (self.ev(t.value, env), self.ev(t.slice, env)))
        return T('expr', (ast.unparse(t),))

    def bind(self, t, v, env, store_event=False):
        if isinstance(t, ast.Name):
            env[t.id] = v
        elif isinstance(t, (ast.Tuple, ast.List)):
            items = None
            if isinstance(v, T) and v.op == 'tuple' and len(v.args) == len(t.elts):
                items = v.args
            elif isinstance(v, SList) and not v.opaque_tail and len(v.items) == len(t.elts):
                items = v.items
            stars = [i for i, x in enumerate(t.elts) if isinstance(x, ast.Starred)]
            whole = list(v.args) if isinstance(v, T) and v.op == 'tuple' else \
                list(v.items) if isinstance(v, SList) and not v.opaque_tail and not v.tail and v.kind in ('list', 'set') else None
            if len(stars) == 1 and whole is not None and len(whole) >= len(t.elts) - 1:
                # a, *rest, z = <enumerated sequence>: the starred name takes what the others leave, as a new list
                k = stars[0]
                n_after = len(t.elts) - k - 1
                for i, x in enumerate(t.elts[:k]):
                    self.bind(x, whole[i], env, store_event)
                self.bind(t.elts[k].value, SList(whole[k:len(whole) - n_after]), env, store_event)
                for j, x in enumerate(t.elts[k + 1:]):
                    self.bind(x, whole[len(whole) - n_after + j], env, store_event)
                return
            for i, x in enumerate(t.elts):
                if isinstance(x, ast.Starred):
                    self.bind(x.value, T('item', (v, T('rest', (i,)))), env, store_event)
                else:
                    self.bind(x, items[i] if items is not None else self.unpack(v, i, len(t.elts)), env, store_event)
        elif isinstance(t, ast.Subscript) and not isinstance(t.slice, ast.Slice) and isinstance(self.ev(t.value, env), SList) \
                and self.ev(t.value, env).kind == 'dict' and not self.ev(t.value, env).opaque_tail \
                and is_key(self.ev(t.slice, env)):
            d, k = self.ev(t.value, env), self.ev(t.slice, env)
            if any(a == k for a, _ in d.items):
                d.items = [(a, v if a == k else b) for a, b in d.items]      # an existing key keeps its place
            else:
                d.items = d.items + [(k, v)]
            self.events.append(('mutate', d.id, 'setitem', (k,), (('value', v),)))
        elif isinstance(t, (ast.Attribute, ast.Subscript)):
            lv = self.lvalue(t, env)
            self.heap[lv] = v
            self.events.append(('store', lv, v))
            if isinstance(t, ast.Subscript):
                base = self.ev(t.value, env)
                if isinstance(base, SList):
                    self.events.append(('mutate', base.id, 'setitem', (lv.args[1:] if lv.op == 'slice' else (lv.args[1],)), (('value', v),)))
        elif isinstance(t, ast.Starred):
            self.bind(t.value, v, env, store_event)

    def unpack(self, v, i, n):
        if isinstance(v, T) and v.op == 'elem':
            return T('elem', (v.args[0], (v.args[1] + (i,)) if len(v.args) > 1 and v.args[1] is not None else (i,)))
        return T('item', (v, i))

    def s_If(self, st, env):
        c = self.ev(st.test, env)
        self.block(st.body if self.truth(c, st.test) else st.orelse, env)

    def iterate(self, seq):
        """Concrete items when known, else None."""
        if isinstance(seq, SList) and not seq.opaque_tail and seq.kind == 'dict':
            return [k for k, _ in seq.items]
        if isinstance(seq, SList) and not seq.opaque_tail:
            return list(seq.items)
        if isinstance(seq, T) and seq.op == 'tuple':
            return list(seq.args)
        if isinstance(seq, T) and seq.op == 'call' and seq.args[0] == 'enumerate' and len(seq.args[1]) == 1:
            inner = self.iterate(seq.args[1][0])
            if inner is not None:
                return [T('tuple', (i, x)) for i, x in enumerate(inner)]
        if isinstance(seq, T) and seq.op == 'call' and seq.args[0] == 'reversed' and len(seq.args[1]) == 1:
            inner = self.iterate(seq.args[1][0])
            if inner is not None:
                return list(reversed(inner))
        if isinstance(seq, T) and seq.op == 'call' and seq.args[0] in ('zip',):
            inners = [self.iterate(a) for a in seq.args[1]]
            if all(i is not None for i in inners):
                return [T('tuple', tuple(x)) for x in zip(*inners)]
        if self.engine.on_iterate is not None:
            r = self.engine.on_iterate(seq, self)
            if r is not NotImplemented:
                return r
        return None

    def s_For(self, st, env):
        seq = self.ev(st.iter, env)
        if isinstance(seq, T) and seq.op == 'genobj':
            target, recv, args, kwargs = seq.args

            outer = self.frames[-1]

            def consumer(v):
                self.bind(st.target, v, env)
                self.frames.append(outer)          # the loop body belongs to the activation that holds the loop
                try:
                    self.block(st.body, env)
                except Continue:
                    pass
                except Break:
                    raise _GenStop()
                finally:
                    self.frames.pop()
            broke = False
            try:
                self.inline(target, recv, args, kwargs, consumer=consumer)
            except _GenStop:
                broke = True
            if not broke and st.orelse:
                self.block(st.orelse, env)
            return
        if isinstance(seq, LazyGen):
            broke = False
            while True:
                ok, it = seq.pull()
                if not ok:
                    break
                self.bind(st.target, it, env)
                try:
                    self.block(st.body, env)
                except Continue:
                    continue
                except Break:
                    broke = True
                    break
            if not broke and st.orelse:
                self.block(st.orelse, env)
            return
        items = self.iterate(seq)
        broke = False
        if items is not None:
            for it in items:
                self.bind(st.target, it, env)
                try:
                    self.block(st.body, env)
                except Continue:
                    continue
                except Break:
                    broke = True
                    break
        else:
            views = []
            while isinstance(seq, T) and seq.op == 'filter':
                views.append(seq.args[0])
                seq = seq.args[1]
            self.events.append(('loop-begin', seq, None))
            self._loop_uid += 1
            self.loops.append((self._loop_uid, seq))
            el = T('elem', (seq,))
            self.bind(st.target, el, env)
            try:
                passes = True
                for f in reversed(views):
                    cv = el if f is None else (self.apply_value(f, el) if self.is_applicable(f) else self.call_value(f, (el,), st.iter, env))
                    if not self.truth(cv, st.iter):
                        passes = False
                        break
                if passes:
                    self.block(st.body, env)
            except Continue:
                pass
            except Break:
                # leaving the loop for good: the remaining elements are never seen
                self.events.append(('loop-break', seq))
                broke = True
            except (Return, Raise):
                self.events.append(('loop-exit', seq))
                raise
            finally:
                self.loops.pop()
                self.events.append(('loop-end', seq, None))
        if not broke and st.orelse:
            self.block(st.orelse, env)

    def s_While(self, st, env):
        forked = 0
        total = 0
        while True:
            nd = len(self.decisions)
            c = self.ev(st.test, env)
            if not self.truth(c, st.test):
                break
            total += 1
            if forked >= self.engine.max_unroll or total > 400:
                self.events.append(('loop-cut', ast.unparse(st.test)))
                return
            try:
                self.block(st.body, env)
            except Continue:
                pass
            except Break:
                return
            if len(self.decisions) > nd:
                forked += 1          # the iteration rested on an assumption: bounded unrolling
        if st.orelse:
            self.block(st.orelse, env)

    def s_Break(self, st, env):
        raise Break()

    def s_Continue(self, st, env):
        raise Continue()

    def s_With(self, st, env):
        fi = env.get('__fi__')
        if len(st.items) == 1 and isinstance(st.items[0].context_expr, ast.Call) and st.items[0].optional_vars is None and \
                isinstance(fi, FuncInfo) and fi.module.dotted(st.items[0].context_expr.func) == 'contextlib.suppress':
            # `with contextlib.suppress(E1, E2): body` is `try: body  except (E1, E2): pass`
            c = st.items[0].context_expr
            h = ast.ExceptHandler(type=ast.Tuple(elts=list(c.args), ctx=ast.Load()), name=None, body=[ast.Pass()])
            t = ast.Try(body=st.body, handlers=[h], orelse=[], finalbody=[])
            ast.copy_location(t, st)
            ast.copy_location(h, st)
            ast.fix_missing_locations(t)
            return self.s_Try(t, env)
        for item in st.items:
            v = self.ev(item.context_expr, env)
            if item.optional_vars is not None:
                self.bind(item.optional_vars, T('call', ('__enter__', (v,), ())), env)
        self.block(st.body, env)

    def s_Try(self, st, env):
        try:
            try:
                self.block(st.body, env)
            except Raise as r:
                for h in st.handlers:
                    names = ['BaseException'] if h.type is None else \
                        [ast.unparse(x) for x in (h.type.elts if isinstance(h.type, ast.Tuple) else [h.type])]
                    if any(n.split('.')[-1] == r.exc.split('.')[-1] or n.split('.')[-1] in ('Exception', 'BaseException') for n in names):
                        if h.name:
                            env[h.name] = T('exc', (r.exc,))
                        self.events.append(('caught', r.exc))
                        self.block(h.body, env)
                        break
                else:
                    raise
            else:
                if st.orelse:
                    self.block(st.orelse, env)
        finally:
            if st.finalbody:
                self.block(st.finalbody, env)

    def s_FunctionDef(self, st, env):
        env[st.name] = T('func', (st.name, _Closure(st, env)))

    def s_ClassDef(self, st, env):
        env[st.name] = T('class', (st.name,))


class _Closure:
    def __init__(self, node, env):
        self.node = node
        self.env = env     # by reference: later bindings of the enclosing scope are visible, like in Python

    def __repr__(self):
        return f'<closure {getattr(self.node, "name", "lambda")}>'

    def __eq__(self, other):
        return isinstance(other, _Closure) and other.node is self.node

    def __hash__(self):
        return id(self.node)


def simplify(t):
    """Local algebra of slices and lengths of one sequence."""
    if not isinstance(t, T):
        return t
    if t.op == 'slice':
        base, lo, hi = t.args[0], t.args[1], t.args[2]
        if isinstance(base, SList) and not base.opaque_tail and not base.items:
            return base
        ln = T('call', ('len', (base,), ()))
        if lo in (None, 0) and (hi is None or hi == ln):
            return base
        if lo == ln and hi is None:
            return SList()
        return t
    if t.op == 'call' and t.args[0] == 'len' and len(t.args[1]) == 1:
        a = t.args[1][0]
        if isinstance(a, SList) and not a.opaque_tail:
            return len(a.items)
        return t
    if t.op == 'bin' and t.args[0] == '*' and (t.args[2] is not True and t.args[2] == 1 and type(t.args[2]) is int):
        return t.args[1]            # x * 1 has the value of x
    if t.op == 'bin' and t.args[0] == '*' and (type(t.args[1]) is int and t.args[1] == 1):
        return t.args[2]
    if t.op == 'not' and isinstance(t.args[0], T) and t.args[0].op == 'not':
        return t.args[0].args[0]
    if t.op == 'not' and isinstance(t.args[0], T) and t.args[0].op == 'cmp':
        neg = {'==': '!=', '!=': '==', 'is': 'is not', 'is not': 'is', 'in': 'not in', 'not in': 'in',
               '<': '>=', '>=': '<', '>': '<=', '<=': '>'}
        op, l, r = t.args[0].args
        return T('cmp', (neg[op], l, r))
    return t


_MUTATORS = frozenset(('add', 'update', 'append', 'extend', 'insert', 'pop', 'popitem', 'remove', 'discard', 'clear', 'setdefault',
                       'sort', 'reverse', 'difference_update', 'intersection_update', 'symmetric_difference_update'))


def _module_constant(m, name):
    """A module-level name bound once to a literal (number, string, or a set / frozenset / tuple / list / dict display of literals)
    that no code of the module rebinds or mutates: its value, as the interpreter's own containers.  None when it is anything else."""
    cache = m.__dict__.setdefault('_sx_constants', {}) if hasattr(m, '__dict__') else {}
    if name in cache:
        v = cache[name]
        return _fresh_constant(v) if v is not None else None
    cache[name] = None
    binds = [st for st in m.tree.body if isinstance(st, (ast.Assign, ast.AnnAssign))
             and any(isinstance(t, ast.Name) and t.id == name for t in (st.targets if isinstance(st, ast.Assign) else [st.target]))]
    if len(binds) != 1 or binds[0].value is None:
        return None
    for n in ast.walk(m.tree):
        if isinstance(n, ast.Name) and n.id == name and isinstance(n.ctx, (ast.Store, ast.Del)) and not any(
                n is t for t in (binds[0].targets if isinstance(binds[0], ast.Assign) else [binds[0].target])):
            return None
        if isinstance(n, ast.Global) and name in n.names:
            return None
        if isinstance(n, ast.Attribute) and isinstance(n.value, ast.Name) and n.value.id == name and n.attr in _MUTATORS:
            return None
        if isinstance(n, ast.Subscript) and isinstance(n.value, ast.Name) and n.value.id == name and isinstance(n.ctx, (ast.Store, ast.Del)):
            return None
        if isinstance(n, ast.AugAssign) and isinstance(n.target, ast.Name) and n.target.id == name:
            return None
    try:
        lit = _const_eval(binds[0].value)
    except _NotConstant:
        return None
    cache[name] = ('lit', lit)
    return _fresh_constant(cache[name])


def _const_eval(e):
    """Value of a side-effect free constant expression: literals, displays (with * / ** unpacking), frozenset/set/tuple/list/dict of
    one of those, dict.fromkeys, and | / + between them."""
    if isinstance(e, ast.Constant) and (e.value is None or isinstance(e.value, (bool, int, str))):
        return e.value
    if isinstance(e, (ast.Tuple, ast.List, ast.Set)):
        items = []
        for x in e.elts:
            if isinstance(x, ast.Starred):
                items.extend(_const_eval(x.value))
            else:
                items.append(_const_eval(x))
        try:
            return tuple(items) if isinstance(e, ast.Tuple) else items if isinstance(e, ast.List) else set(items)
        except TypeError:
            raise _NotConstant()
    if isinstance(e, ast.Dict):
        out = {}
        for k, v in zip(e.keys, e.values):
            try:
                if k is None:
                    out.update(_const_eval(v))
                else:
                    out[_const_eval(k)] = _const_eval(v)
            except (TypeError, ValueError):
                raise _NotConstant()
        return out
    if isinstance(e, ast.Call) and not e.keywords:
        f = ast.unparse(e.func)
        args = [_const_eval(a) for a in e.args]
        try:
            if f in ('frozenset', 'set', 'tuple', 'list', 'dict', 'sorted') and len(args) <= 1:
                return {'frozenset': frozenset, 'set': set, 'tuple': tuple, 'list': list, 'dict': dict, 'sorted': sorted}[f](*args)
            if f == 'dict.fromkeys' and 1 <= len(args) <= 2:
                return dict.fromkeys(*args)
        except (TypeError, ValueError):
            raise _NotConstant()
    if isinstance(e, ast.BinOp) and isinstance(e.op, (ast.BitOr, ast.Add)):
        l, r = _const_eval(e.left), _const_eval(e.right)
        try:
            return l | r if isinstance(e.op, ast.BitOr) else l + r
        except TypeError:
            raise _NotConstant()
    raise _NotConstant()


def _fresh_constant(c):
    def conv(x, top=False):
        if x is None or isinstance(x, (bool, int, str)):
            return x
        if isinstance(x, (set, frozenset)):
            return SList(sorted((conv(i) for i in x), key=repr), kind='set')
        if isinstance(x, list):
            return SList([conv(i) for i in x])
        if isinstance(x, tuple):
            return T('tuple', tuple(conv(i) for i in x))
        if isinstance(x, dict):
            return SList([(conv(k), conv(v)) for k, v in x.items()], kind='dict')
        raise _NotConstant()
    try:
        return conv(c[1])
    except _NotConstant:
        return None


class _NotConstant(Exception):
    pass


INTERPRETED = set()        # functions of the analysed package interpreted so far in this process (reported in the evidence)


class Engine:
    """Configuration of one analysis: oracle and hooks, then `paths(fn, env)`."""

    def __init__(self, P=None, oracle=None, on_call=None, on_attr=None, on_item=None, on_isinstance=None, on_iterate=None,
                 resolve=None, globals_=None, max_paths=256, max_depth=4, max_unroll=3, inline_generators=False, trace_attrs=(), mutable_dicts=True):
        self.P = P
        self.oracle = oracle
        self.on_call = on_call
        self.on_attr = on_attr
        self.on_item = on_item
        self.on_isinstance = on_isinstance
        self.on_iterate = on_iterate
        self.resolve = resolve if resolve is not None else (self.default_resolve if P is not None else None)
        self.globals_ = globals_ or {}
        self.max_paths = max_paths
        self.max_depth = max_depth
        self.max_unroll = max_unroll
        self.max_decisions = 40
        self.max_steps = 20000
        self.inline_generators = inline_generators
        self.mutable_dicts = mutable_dicts
        self.trace_attrs = frozenset(trace_attrs)
        self.module = None

    def global_value(self, name, env):
        if name in self.globals_:
            return self.globals_[name]
        fi = env.get('__fi__') if isinstance(env, dict) else None
        m = getattr(fi, 'module', None)
        if m is not None:
            return _module_constant(m, name)
        return None

    def default_resolve(self, node, fname, fval, recv, ex, env):
        """Resolve calls to functions of the package: self.method(), module-level helpers, imported package functions."""
        P = self.P
        fi = env.get('__fi__') if isinstance(env, dict) else None
        f = node.func
        if fi is None:
            return None
        m = fi.module
        if isinstance(f, ast.Attribute) and isinstance(f.value, ast.Call) and isinstance(f.value.func, ast.Name) and f.value.func.id == 'super' \
                and not f.value.args:
            owner = fi.parent
            while owner is not None and not isinstance(owner, ClassInfo):
                owner = owner.parent
            if isinstance(owner, ClassInfo):
                for c in P.mro(owner)[1:]:
                    if isinstance(c, ClassInfo) and f.attr in c.methods:
                        return c.methods[f.attr]
            return None
        if isinstance(f, ast.Attribute) and isinstance(f.value, ast.Name) and f.value.id in ('self', 'cls'):
            owner = fi.parent
            while owner is not None and not isinstance(owner, ClassInfo):
                owner = owner.parent
            if isinstance(owner, ClassInfo):
                t = P.find_method(owner, f.attr, ifexp_choice=lambda e: e.body)
                if isinstance(t, FuncInfo) and not any(isinstance(d, ast.Name) and d.id in ('property', 'singledispatchmethod')
                                                       or 'register' in ast.unparse(d) for d in t.node.decorator_list):
                    return t
            return None
        if isinstance(f, ast.Name):
            # nested functions are bound in env as closures; module level functions here
            if f.id in m.toplevel_funcs:
                return m.toplevel_funcs[f.id][-1]
        d = m.dotted(f)
        if d and d.startswith(P.PACKAGE + '.'):
            t = P.lookup(d)
            if isinstance(t, FuncInfo):
                return t
        return None

    def paths(self, fn, env=None, recv=None, args=(), kwargs=()):
        """All paths of `fn` (FuncInfo or ast.FunctionDef).  `env` pre-binds parameters; missing ones become symbols."""
        node = fn.node if isinstance(fn, FuncInfo) else fn
        if isinstance(fn, FuncInfo):
            INTERPRETED.add(fn.fq)
        out = []
        stack = [[]]
        seen = set()
        while stack:
            prefix = stack.pop()
            key = tuple((repr(t), c) for t, c in prefix)
            if key in seen:
                continue
            seen.add(key)
            ex = Exec(self, prefix)
            e = {'__fi__': fn if isinstance(fn, FuncInfo) else (env or {}).get('__fi__')}
            a = node.args
            params = [x.arg for x in a.posonlyargs + a.args]
            defaults = a.defaults
            fd = len(params) - len(defaults)
            for i, p in enumerate(params):
                if env is not None and p in env:
                    e[p] = env[p]() if callable(env[p]) else env[p]
                elif i >= fd and (env is None or p not in env):
                    e[p] = ex.ev(defaults[i - fd], {})
                else:
                    e[p] = Sym(p)
            if a.kwarg:
                e[a.kwarg.arg] = (env or {}).get(a.kwarg.arg, Sym(a.kwarg.arg))
            if env:
                for k, v in env.items():
                    if k not in e:
                        e[k] = v() if callable(v) else v
            for k, orig in (getattr(fn, 'bound', None) or {}).items():
                # the function a decorator left in place of the decorated one: its free variable is the original function
                if k not in e:
                    e[k] = T('func', (orig.name, _Closure(orig.node, {'__fi__': orig, **{k2: T('func', (o2.name, _Closure(o2.node, {'__fi__': o2})))
                                                                                       for k2, o2 in (getattr(orig, 'bound', None) or {}).items()}})))
            try:
                try:
                    ex.block(node.body, e)
                    path = Path(ex.decisions, ex.events, 'fallthrough', None, e, ex.heap)
                except Return as r:
                    path = Path(ex.decisions, ex.events, 'return', r.value, e, ex.heap)
                except Raise as r:
                    path = Path(ex.decisions, ex.events, 'raise', (r.exc, r.args_), e, ex.heap)
                except (Break, Continue):
                    path = Path(ex.decisions, ex.events, 'fallthrough', None, e, ex.heap)
            except Budget:
                raise AnalysisError(f'{getattr(node, "name", "?")}: path budget exceeded')
            out.append(path)
            if len(out) > self.max_paths:
                raise AnalysisError(f'{getattr(node, "name", "?")}: more than {self.max_paths} paths')
            for i in range(len(prefix), len(ex.decisions)):
                alt = ex.decisions[:i] + [(ex.decisions[i][0], not ex.decisions[i][1])]
                stack.append(alt)
        return out


def canon(v):
    """Structural normal form of a value as nested tuples: lists by content, concatenation flattened, commutative operands ordered."""
    if isinstance(v, SList) and v.segs is not None and any(x[0] == 'loop' for x in v.segs) and not v.tail:
        def segs(ss):
            parts, run = [], []
            for x in ss:
                if x[0] == 'item':
                    run.append(canon(x[1]))
                else:
                    if run:
                        parts.append(('L', tuple(run)))
                        run = []
                    parts.append(('foreach', canon(x[2]), segs(x[3])))
            if run:
                parts.append(('L', tuple(run)))
            return tuple(parts)
        return ('concat', segs(v.segs))
    if isinstance(v, SList):
        if v.origin is not None:
            seq, elt, conds = v.origin
            base = ('each', canon(seq), canon(elt), tuple(canon(c) for c in conds), v.kind == 'set')
        else:
            base = ('L', tuple(canon(i) for i in v.items))
        if v.tail:
            parts = [base] if (v.origin is not None or v.items) else []
            for t in v.tail:
                c = canon(t)
                parts.extend(c[1] if isinstance(c, tuple) and c and c[0] == 'concat' else [c])
            return ('concat', tuple(parts))
        return base
    if isinstance(v, T):
        if v.op == 'bin':
            op, l, r = v.args
            cl, cr = canon(l), canon(r)
            listy = lambda c: isinstance(c, tuple) and c and c[0] in ('L', 'each', 'concat', 'rep')
            if op == '+' and (listy(cl) or listy(cr)):
                parts = []
                for c in (cl, cr):
                    parts.extend(c[1] if c[0] == 'concat' else [c])
                return ('concat', tuple(parts))
            if op == '*' and (listy(cl) or listy(cr)):
                return ('rep', cl, cr) if listy(cl) else ('rep', cr, cl)
            if op in ('+', '*'):
                a, b = sorted((cl, cr), key=repr)
                return ('bin', op, a, b)
            return ('bin', op, cl, cr)
        if v.op == 'call':
            name = v.args[0] if isinstance(v.args[0], str) else canon(v.args[0])
            if name in ('set', 'frozenset') and len(v.args[1]) == 1:
                c = canon(v.args[1][0])
                if isinstance(c, tuple) and c and c[0] == 'each':
                    return c[:4] + (True,)
            return ('call', name, tuple(canon(a) for a in v.args[1]), tuple((k, canon(x)) for k, x in v.args[2]))
        if v.op in ('lambda', 'func'):
            return (v.op, v.args[0])
        return (v.op,) + tuple(canon(a) for a in v.args)
    if isinstance(v, tuple):
        return tuple(canon(a) for a in v)
    return v


def early_exits(path, seq):
    """Events that leave the symbolic loop over `seq` before its elements are exhausted (break / return / raise inside)."""
    return [e for e in path.events if e[0] in ('loop-break', 'loop-exit') and e[1] == seq]


def gname(v):
    """Dotted source name of a global reference, else the printed term."""
    if isinstance(v, T) and v.op == 'global':
        return v.args[0]
    return show(v)


def contains(v, x):
    """Does the term `v` mention `x` (a Sym or term)?"""
    if v == x:
        return True
    if isinstance(v, T):
        return any(contains(a, x) for a in v.args)
    if isinstance(v, tuple):
        return any(contains(a, x) for a in v)
    if isinstance(v, SList):
        return any(contains(a, x) for a in v.items) or (v.origin is not None and (contains(v.origin[0], x) or contains(v.origin[1], x)))
    return False


def walk_terms(v):
    """All sub-terms of a value."""
    yield v
    if isinstance(v, T):
        for a in v.args:
            if isinstance(a, (T, SList)):
                yield from walk_terms(a)
            elif isinstance(a, tuple):
                for x in a:
                    if isinstance(x, (T, SList)):
                        yield from walk_terms(x)
                    elif isinstance(x, tuple):
                        for y in x:
                            if isinstance(y, (T, SList)):
                                yield from walk_terms(y)
    elif isinstance(v, SList):
        for x in v.items:
            yield from walk_terms(x)
        if v.origin is not None:
            yield from walk_terms(v.origin[0])
            if v.origin[1] is not None:
                yield from walk_terms(v.origin[1])
