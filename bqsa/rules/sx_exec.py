"""Executor and evaluator rules on the term interpreter (bqsa/symex.py):
R-PRINTFILTER, R-ROWLOOP, R-SUBQ1D, R-NULLKEY.  They replace the shape-matching versions."""
from __future__ import annotations

import ast

from .. import symex
from ..symex import Sym, Falsy, T, SList, Engine, show, walk_terms, early_exits, contains
from ..loader import AnalysisError, FuncInfo, loc
from ..report import RuleResult

QX = 'beanquery.query_execute'
QC = 'beanquery.query_compile'

GATE_CASES = ((False, None, 'absent'), (True, None, 'NULL'), (True, False, 'false'), (True, True, 'true'))


def _is_elem_of(v, seq):
    return isinstance(v, T) and v.op == 'elem' and v.args[0] == seq and (len(v.args) == 1 or v.args[1] is None)


def loop_events(path, seq):
    """Events inside the (first) symbolic loop over `seq` (with nesting depth)."""
    out = []
    depth = 0
    inside = False
    found = False
    for e in path.events:
        if e[0] == 'loop-begin':
            if not inside and e[1] == seq:
                inside = True
                found = True
                depth = 0
                continue
            if inside:
                depth += 1
        elif e[0] == 'loop-end':
            if inside and depth == 0 and e[1] == seq:
                inside = False
                continue
            if inside:
                depth -= 1
        if inside:
            out.append((depth, e))
    return out if found else None


def aliases_of(path, list_id):
    ids = {list_id}
    changed = True
    while changed:
        changed = False
        for e in path.events:
            if e[0] == 'alias' and (e[2] in ids) != (e[1] in ids):
                ids.update((e[1], e[2]))
                changed = True
    return ids


# ----------------------------------------------------------------------
# R-PRINTFILTER

def rule_printfilter(P) -> RuleResult:
    res = RuleResult('R-PRINTFILTER')
    res.exhaustive = True
    fi = P.func(QX, 'execute_print')
    C = Sym('C_PRINT')
    cparam = fi.params[0]
    table = T('attr', (C, 'table'))
    ok = True
    for present, cls, desc in GATE_CASES:
        W = Sym('WHERE')

        def on_attr(base, attr, ex, _p=present):
            if base == C and attr == 'where':
                return W if _p else None
            return NotImplemented

        def on_call(fname, fval, recv, args, kwargs, ex, node, _c=cls):
            if fval == W:
                ex.events.append(('where', args))
                return _c
            return NotImplemented
        paths = Engine(P, on_attr=on_attr, on_call=on_call).paths(fi, {cparam: C})
        for p in paths:
            inner = loop_events(p, table)
            if inner is None:
                ok = False
                sink = [e for e in p.events if e[0] == 'call' and str(e[1]).endswith('print_entries')]
                res.fail(fi.fq, 'print:source', f'with the FROM condition {desc} PRINT does not iterate its table: it prints '
                         f'`{show(sink[0][2][0])[:80] if sink and sink[0][2] else "nothing"}`. Iterating the table is what applies OPEN / CLOSE / '
                         f'CLEAR, so the clauses are ignored on this path', loc(fi))
                continue
            prod = [e for d, e in inner if e[0] == 'produce']
            want = (not present) or cls is True
            if early_exits(p, table):
                ok = False
                res.fail(fi.fq, f'print:gate:{desc}', f'with the FROM condition {desc} the scan of the table stops at this row: later '
                         f'directives are never looked at', loc(fi))
                continue
            if (len(prod) == 1) != want or len(prod) > 1:
                ok = False
                res.fail(fi.fq, f'print:gate:{desc}', f'with the FROM condition {desc} a directive is '
                         f'{"printed" if prod else "dropped"} ({len(prod)} times); it must be {"printed once" if want else "dropped"}', loc(fi))
                continue
            for d, e in inner:
                if e[0] == 'where' and not (len(e[1]) == 1 and _is_elem_of(e[1][0], table)):
                    ok = False
                    res.fail(fi.fq, 'print:where-arg', f'the FROM condition is evaluated on `{", ".join(map(show, e[1]))}`, not on the current row', loc(fi))
            if prod:
                v = prod[0][2]
                if not (isinstance(v, T) and v.op == 'attr' and v.args[1] == 'entry' and _is_elem_of(v.args[0], table)):
                    ok = False
                    res.fail(fi.fq, 'print:value', f'PRINT must collect the directive of each selected row (row.entry); collects `{show(v)}`', loc(fi))
                ids = aliases_of(p, prod[0][1])
                sink = [e for e in p.events if e[0] == 'call' and str(e[1]).endswith('print_entries')]
                if len(sink) != 1 or not (sink[0][2] and isinstance(sink[0][2][0], SList) and sink[0][2][0].id in ids):
                    ok = False
                    res.fail(fi.fq, 'print:sink', 'the selected directives must be handed to printer.print_entries', loc(fi))
                muts = [e for e in p.events if e[0] == 'mutate' and e[1] in ids]
                if muts:
                    ok = False
                    res.fail(fi.fq, 'print:order', f'the list of directives is modified ({muts[0][2]}) before printing', loc(fi))
                # numbers are printed with their own digits: the printer must not be given the display context inferred from the
                # ledger, which rounds every number to the most common precision of its currency (the output would not load back to
                # equal directives); a context made for the purpose (with the commas option copied) or none is fine
                if len(sink) == 1:
                    ctx_arg = sink[0][2][1] if len(sink[0][2]) > 1 else dict(sink[0][3]).get('dcontext')
                    ledger_ctx = 'options[' + repr('dcontext') + ']'
                    fresh = isinstance(ctx_arg, T) and ctx_arg.op in ('call', 'new') and str(ctx_arg.args[0]).split('.')[-1] == 'DisplayContext'
                    if ctx_arg is not None and not fresh and ledger_ctx in show(ctx_arg):
                        ok = False
                        res.fail(fi.fq, 'print:precision', f'PRINT hands the ledger\'s own display context (`{show(ctx_arg)[:80]}`) to the printer: it '
                                 f'rounds numbers to the most common precision of their currency, so the printed directives do not load back '
                                 f'to equal ones', loc(fi))
    if ok:
        res.ok({'function': fi.fq, 'gate_cases': 4, 'collects': 'row.entry', 'sink': 'printer.print_entries'})
    return res


# ----------------------------------------------------------------------
# R-ROWLOOP

def _select_engine(P, Q, present, cls, aggregate=False, extra_attr=None, extra_call=None, on_item=None):
    W = Sym('WHERE')

    def on_attr(base, attr, ex):
        if extra_attr is not None:
            r = extra_attr(base, attr, ex)
            if r is not NotImplemented:
                return r
        if base == Q:
            if attr == 'c_where':
                return W if present else None
            if attr == 'group_indexes' and not aggregate:
                return None
            if attr in ('order_spec', 'limit'):
                return None
            if attr == 'distinct':
                return False
            if attr == 'having_index' and not aggregate:
                return None
        return NotImplemented

    def on_call(fname, fval, recv, args, kwargs, ex, node):
        if fval == W:
            ex.events.append(('where', args))
            return cls
        if extra_call is not None:
            return extra_call(fname, fval, recv, args, kwargs, ex, node)
        return NotImplemented
    return Engine(P, on_attr=on_attr, on_call=on_call, on_item=on_item, max_paths=512)


def _each_over(v):
    """(seq, elt, conds) if v is a comprehension-built list, else None."""
    if isinstance(v, SList) and v.origin is not None:
        return v.origin
    if isinstance(v, T) and v.op == 'call' and v.args[0] in ('list', 'tuple') and len(v.args[1]) == 1:
        return _each_over(v.args[1][0])
    return None


def rule_rowloop(P) -> RuleResult:
    res = RuleResult('R-ROWLOOP')
    res.exhaustive = True
    fi = P.func(QX, 'execute_select')
    Q = Sym('QUERY')
    qp = fi.params[0]
    table = T('attr', (Q, 'table'))
    targets = T('attr', (Q, 'c_targets'))
    ok = True
    for present, cls, desc in GATE_CASES:
        paths = _select_engine(P, Q, present, cls).paths(fi, {qp: Q})
        for p in paths:
            if p.outcome != 'return':
                continue
            inner = loop_events(p, table)
            if inner is None:
                raise AnalysisError(f'{fi.fq}: the scan of the source table in the non-aggregate branch was not found')
            prod = [(d, e) for d, e in inner if e[0] == 'produce']
            # the list the rows go to is the one that reaches the returned rows
            want = (not present) or cls is True
            top = [e for d, e in prod if d == 0]
            if early_exits(p, table):
                ok = False
                res.fail(fi.fq + ':non-aggregate-scan', f'rowloop:gate:{desc}', f'with the WHERE condition {desc} the scan of the source table '
                         f'stops at this row: later rows are never looked at', loc(fi))
                continue
            if (len(top) == 1) != want or len(top) > 1:
                ok = False
                res.fail(fi.fq + ':non-aggregate-scan', f'rowloop:gate:{desc}',
                         f'with the WHERE condition {desc} the row is {"kept" if top else "dropped"} ({len(top)} result rows for one '
                         f'source row); the statement requires it to be {"kept once" if want else "dropped"} (NULL and false both exclude)', loc(fi))
                continue
            for d, e in inner:
                if e[0] == 'where' and not (len(e[1]) == 1 and _is_elem_of(e[1][0], table)):
                    ok = False
                    res.fail(fi.fq + ':non-aggregate-scan', 'rowloop:where-arg',
                             f'the WHERE condition is evaluated on `{", ".join(map(show, e[1]))}`, not on the current row', loc(fi))
            if not top:
                continue
            rowval = top[0][2]
            eo = _each_over(rowval)
            good = False
            if eo is not None:
                seq, elt, conds = eo
                # elt: call of <each of seq> on the row; seq: every c_expr of query.c_targets
                if not conds and isinstance(elt, T) and elt.op == 'call' and _is_elem_of(elt.args[0] if isinstance(elt.args[0], T) else None, seq) is False:
                    pass
                callee_ok = isinstance(elt, T) and elt.op == 'call' and elt.args[0] == show(T('elem', (seq,))) and \
                    len(elt.args[1]) == 1 and _is_elem_of(elt.args[1][0], table) and not conds
                seq_eo = _each_over(seq)
                seq_ok = False
                if seq_eo is not None:
                    s2, e2, c2 = seq_eo
                    seq_ok = s2 == targets and not c2 and isinstance(e2, T) and e2.op == 'attr' and e2.args[1] == 'c_expr' \
                        and _is_elem_of(e2.args[0], targets)
                good = callee_ok and seq_ok
            if not good:
                ok = False
                res.fail(fi.fq + ':non-aggregate-scan', 'rowloop:values',
                         f'the result row must hold the value of every target expression of the query, in order, evaluated on the '
                         f'current row; it is `{show(rowval)}`', loc(fi))
            # the rows reach the result unmodified (no ORDER BY / DISTINCT / LIMIT on this path)
            ids = aliases_of(p, top[0][1])
            muts = [e for e in p.events if e[0] == 'mutate' and e[1] in ids]
            if muts:
                ok = False
                res.fail(fi.fq + ':non-aggregate-scan', 'rowloop:reordered', f'the rows are modified ({muts[0][2]}) although the query has no '
                         f'ORDER BY: source order is lost', loc(fi))
    if ok:
        res.ok({'function': fi.fq, 'gate_cases': 4, 'row': '[expr(row) for expr in all target expressions]', 'once_per_source_row': True})
    return res


# ----------------------------------------------------------------------
# R-SUBQ1D

def rule_subq1d(P) -> RuleResult:
    res = RuleResult('R-SUBQ1D')
    res.exhaustive = True
    ci = P.cls(QC, 'EvalConstantSubquery1D')
    call = ci.methods.get('__call__')
    if call is None:
        raise AnalysisError('anchor vanished: EvalConstantSubquery1D.__call__')
    # the node keeps the compiled subquery it was given, as it is: it runs as written (its own DISTINCT / LIMIT / ORDER BY)
    init = ci.methods.get('__init__')
    if init is None:
        raise AnalysisError('anchor vanished: EvalConstantSubquery1D.__init__')
    SQ = Sym('COMPILED_SUBQUERY')
    for p in Engine(P).paths(init, {'self': Sym('SELF'), init.params[1]: SQ}):
        kept = [v for k, v in p.heap.items() if isinstance(k, T) and k.op == 'attr' and k.args[0] == Sym('SELF') and (v == SQ or (isinstance(v, T) and symex.contains(v, SQ)))]
        writes = [e for e in p.events if e[0] in ('store', 'aug') and isinstance(e[1], T) and symex.contains(e[1].args[0], SQ)]
        if kept != [SQ] or writes:
            res.fail(ci.fq + '.__init__', 'subq1d:subquery', f'the IN-subquery node must keep the compiled subquery unchanged; it keeps '
                     f'`{show(kept[0])[:100] if kept else "nothing"}`' + (f' and writes `{show(writes[0][1])}`' if writes else '')
                     + ': a subquery with a LIMIT and duplicates no longer yields the values it yields on its own', loc(init))
        else:
            res.ok({'node': ci.name, 'keeps': 'the compiled subquery as given'})
    S = Sym('SELF')
    marker = T('global', ('MARKER',))
    n0 = len(res.findings)
    for cached in (False, True):
        for empty in (False, True):
            ROWS = T('rows', ())

            def on_attr(base, attr, ex, _c=cached):
                if base == S and attr == 'value':
                    return Sym('CACHED') if _c else marker
                return NotImplemented

            def on_call(fname, fval, recv, args, kwargs, ex, node):
                if str(fname).endswith('execute_query'):
                    ex.events.append(('execute', args))
                    return T('tuple', (Sym('COLUMNS'), ROWS))
                return NotImplemented

            def oracle(term, ex, _e=empty):
                # truthiness of the membership list: empty or not
                if isinstance(term, SList) and term.origin is not None:
                    return not _e
                return None
            eng = Engine(P, on_attr=on_attr, on_call=on_call, oracle=oracle, globals_={'MARKER': marker})
            paths = eng.paths(call, {'self': S})
            for p in paths:
                if p.outcome != 'return':
                    res.fail(call.fq, 'subq1d:outcome', f'evaluation ends with {p.outcome}', loc(call))
                    continue
                execs = [e for e in p.events if e[0] == 'execute']
                if cached:
                    if execs or p.value != Sym('CACHED'):
                        res.fail(call.fq, 'subq1d:cache', 'the subquery must be evaluated once per compiled statement: a cached value is returned as is', loc(call))
                    continue
                if len(execs) != 1 or execs[0][1] != (T('attr', (S, 'subquery')),):
                    res.fail(call.fq, 'subq1d:source', 'the IN-subquery value must be the result of executing that very subquery', loc(call))
                    continue
                stored = p.heap.get(T('attr', (S, 'value')), 'UNSET')
                if stored == 'UNSET':
                    res.fail(call.fq, 'subq1d:cache', 'the subquery value is not cached on the node: the subquery is re-executed for every row', loc(call))
                if empty:
                    if p.value is not None:
                        res.fail(call.fq, 'subq1d:empty', f'a subquery returning no row makes IN / NOT IN NULL; the node yields `{show(p.value)}`', loc(call))
                    continue
                eo = _each_over(p.value)
                if eo is None:
                    res.fail(call.fq, 'subq1d:value', f'the value must be the list of the subquery\'s output column; it is `{show(p.value)}`', loc(call))
                    continue
                seq, elt, conds = eo
                if seq != ROWS:
                    res.fail(call.fq, 'subq1d:value', f'membership is tested against the rows of the subquery result; found a list over `{show(seq)}`', loc(call))
                if conds:
                    res.fail(call.fq, 'subq1d:filtered', f'the membership collection drops rows of the subquery result (`{show(conds[0])}`): a subquery '
                             f'whose rows are all dropped is then mistaken for one that returned no row (NULL instead of FALSE/TRUE)', loc(call))
                if elt != T('item', (T('elem', (ROWS,)), 0)):
                    res.fail(call.fq, 'subq1d:column', f'membership is tested against the single output column (row[0]); found `{show(elt)}`', loc(call))
    if len(res.findings) == n0:
        res.ok({'node': ci.fq, 'cases': 'cached / fresh x empty / non-empty', 'membership_in': 'row[0] of every result row', 'empty': 'NULL'})
    return res


# ----------------------------------------------------------------------
# R-NULLKEY

def rule_nullkey(P) -> RuleResult:
    res = RuleResult('R-NULLKEY')
    res.exhaustive = True
    m = P.module(QX)
    nig = P.func(QX, 'nullitemgetter')
    null_names = {n for n, v in m.assigns.items() if isinstance(v, ast.Call) and ast.unparse(v.func) == 'NullType'}
    if not null_names:
        raise AnalysisError('anchor vanished: NULL = NullType()')
    NULLM = Sym('NULL')
    OBJ = Sym('ROW')
    classes = [(None, 'NULL'), (Sym('V'), 'a value'), (False, 'FALSE'), (0, '0'), (Falsy('ZERO'), 'an empty / zero value')]
    for nitems in (1, 2):
        for cls, cdesc in classes:
            def on_item(base, idx, ex, _c=cls):
                if base == OBJ:
                    return _c
                return NotImplemented
            eng = Engine(P, on_item=on_item, globals_={n: NULLM for n in null_names})
            args = {'item': Sym('I0'), 'items': T('tuple', tuple(Sym(f'I{k}') for k in range(1, nitems)))}
            paths = eng.paths(nig, args)
            for p in paths:
                if p.outcome != 'return' or not (isinstance(p.value, T) and p.value.op == 'func'):
                    raise AnalysisError(f'{nig.fq}: does not return a key function')
                clo = p.value.args[1]
                inner_paths = Engine(P, on_item=on_item, globals_={n: NULLM for n in null_names}).paths(clo.node, {**clo.env, clo.node.args.args[0].arg: OBJ})
                for q in inner_paths:
                    want = NULLM if cls is None else cls
                    got = q.value
                    vals = None
                    if nitems == 1:
                        vals = [got]
                    else:
                        if isinstance(got, T) and got.op == 'tuple':
                            vals = list(got.args)
                        elif isinstance(got, T) and got.op == 'call' and got.args[0] == 'tuple' and _each_over(got.args[1][0]) is not None:
                            vals = [_each_over(got.args[1][0])[1]] * nitems
                        elif _each_over(got) is not None:
                            vals = None
                    construct = f'{nig.fq}:{"single" if nitems == 1 else "multi"}-key'
                    if vals is None or len(vals) != nitems:
                        res.fail(construct, f'nullkey:shape:{cdesc}', f'the {"single" if nitems == 1 else "multi"}-key getter returns `{show(got)}`; '
                                 f'it must return {"the key" if nitems == 1 else "the tuple of all keys"}', loc(nig))
                        continue
                    bad = [v for v in vals if not (v is want or (v == want and type(v) is type(want)))]
                    if bad:
                        res.fail(construct, f'nullkey:{cdesc}', f'the sort key for an item holding {cdesc} is {show(bad[0])}; it must be '
                                 f'{show(want)} (NULL is replaced by the marker that sorts first, every other value - also 0, "" and FALSE - is kept)', loc(nig))
                    else:
                        res.ok({'getter': 'single' if nitems == 1 else 'multi', 'item': cdesc, 'key': show(vals[0])})
    # NullType ordering: the comparisons list.sort / tuple comparison can issue
    nt = P.cls(QX, 'NullType')
    for meth, other_null, want, why in (('__lt__', True, False, 'NULL < NULL is false (NULLs are equal)'),
                                        ('__lt__', False, True, 'NULL < value is true (NULL sorts first)'),
                                        ('__gt__', False, False, 'value < NULL (reflected NULL > value) is false')):
        f = nt.methods.get(meth)
        if f is None:
            res.fail(nt.fq, f'nulltype:{meth}', f'NullType lacks {meth}', loc(nt))
            continue
        eng = Engine(P, on_isinstance=lambda v, c, ex, _o=other_null: _o)
        for p in eng.paths(f, {'self': NULLM, f.params[1]: (NULLM if other_null else Sym('V'))}):
            if p.value is not want:
                res.fail(f.fq, f'nulltype:{meth}:{"null" if other_null else "value"}', f'{why}; the method returns {show(p.value)}', loc(f))
            else:
                res.ok({'method': f'NullType.{meth}', 'other': 'NULL' if other_null else 'value', 'result': want})
    # uniquify: yields an object iff not seen, records everything it yields
    uq = P.func(QX, 'uniquify')
    IT = Sym('ITERABLE')
    for seen in (False, True):
        tested = []

        def oracle(term, ex, _s=seen, _t=tested):
            if isinstance(term, T) and term.op == 'cmp' and term.args[0] in ('in', 'not in'):
                _t.append(term.args[1])
                return _s if term.args[0] == 'in' else not _s
            return None
        eng = Engine(P, oracle=oracle, inline_generators=True)
        for p in eng.paths(uq, {uq.params[0]: IT}):
            # rows are told apart by equality of the rows themselves: what is looked up and what is recorded is the row
            el0 = T('elem', (IT,))
            recorded = [e[2] if e[0] == 'produce' else (e[2][0] if e[2] else None) for e in p.events
                        if e[0] == 'produce' or (e[0] == 'call' and str(e[1]).endswith('.add'))]
            wrong = [x for x in tested + recorded if x != el0]
            if wrong:
                res.fail(uq.fq, 'uniquify:identity', f'DISTINCT must compare the rows themselves; uniquify looks up / records '
                         f'`{show(wrong[0])}`: two different rows for which it coincides (hash(-1) == hash(-2)) are merged', loc(uq))
                continue
            inner = loop_events(p, IT) or []
            ys = [e for d, e in inner if e[0] == 'yield']
            adds = [e for d, e in inner if e[0] == 'produce' or (e[0] == 'call' and str(e[1]).endswith('.add'))]
            el = T('elem', (IT,))
            if seen and (ys or adds):
                res.fail(uq.fq, 'uniquify:seen', 'a row seen before is yielded again', loc(uq))
            elif not seen and not (len(ys) == 1 and ys[0][1] == el and len(adds) == 1):
                res.fail(uq.fq, 'uniquify:new', 'a row not seen before must be yielded once and recorded as seen', loc(uq))
            else:
                res.ok({'uniquify': 'seen' if seen else 'new', 'yields': len(ys), 'records': len(adds)})
    return res


# ----------------------------------------------------------------------
# R-ENTRYFILTER (C14): the functions a PRINT filter evaluates are defined on directives of every type

def rule_entryfilter(P) -> RuleResult:
    """PRINT evaluates its FROM expression on every directive, whatever its type.  has_account(), the one function that looks at the
    directive itself, takes the accounts of the directive from getters.get_entry_accounts (defined for every directive type) and
    answers TRUE or FALSE for each: it neither assumes a transaction nor gives NULL for the other types."""
    res = RuleResult('R-ENTRYFILTER')
    res.exhaustive = True
    qe = P.module('beanquery.query_env')
    fs = qe.toplevel_funcs.get('has_account')
    if not fs:
        raise AnalysisError('anchor vanished: query_env.has_account')
    f = fs[-1]
    ROW, PAT = Sym('ROW'), Sym('PATTERN')
    ENTRY = T('attr', (ROW, 'entry'))
    accounts = T('call', ('getters.get_entry_accounts', (ENTRY,), ()))
    n = 0
    for p in Engine(P).paths(f, {f.params[0]: ROW, f.params[1]: PAT}):
        n += 1
        typed = [t for t, _ in p.decisions if isinstance(t, T) and t.op == 'call' and t.args[0] == 'isinstance' and contains(t.args[1][0], ROW)]
        typed += [t for t, _ in p.decisions if isinstance(t, T) and t.op in ('attr', 'cmp') and any(
            isinstance(x, T) and x.op == 'attr' and x.args[0] == ENTRY for x in walk_terms(t)) and not any(
            isinstance(x, T) and x.op == 'elem' for x in walk_terms(t))]
        loops = [e[1] for e in p.events if e[0] == 'loop-begin']
        if typed:
            res.fail(f.fq, 'entryfilter:typed', f'has_account() branches on the kind of directive (`{show(typed[0])[:70]}`): a PRINT filter is '
                     f'evaluated on open, close, balance, pad, note and document directives too, which name accounts', loc(f))
        elif p.outcome != 'return' or not (p.value is True or p.value is False):
            res.fail(f.fq, 'entryfilter:null', f'has_account() must answer TRUE or FALSE for every directive; a path gives '
                     f'`{show(p.value)[:50] if p.outcome == "return" else p.outcome}`', loc(f))
        elif accounts not in loops:
            res.fail(f.fq, 'entryfilter:accounts', f'has_account() must search the accounts of the directive '
                     f'(getters.get_entry_accounts(context.entry)); it searches `{show(loops[0])[:70] if loops else "nothing"}`', loc(f))
    if n == 0:
        raise AnalysisError(f'{f.fq}: no path interpreted')
    if not res.findings:
        res.ok({'function': f.fq, 'paths': n, 'accounts_of': 'getters.get_entry_accounts(context.entry)', 'answers': ['TRUE', 'FALSE']})
    return res
