"""C10: the cursor fetch protocol and DB-API surface.

R-FETCHSIB, R-RESET, R-ROWCOUNT, R-COLUMN7, R-MODCONST.  The fetch methods are
executed *symbolically* on an opaque non-empty buffer B: what is handed out,
what is kept and how the position counter moves are terms over B that the
sibling methods must agree on.
"""
from __future__ import annotations

import ast

from .. import finite
from ..loader import AnalysisError, FuncInfo, ClassInfo, loc, body_without_docstring, is_none
from ..report import RuleResult

CU = 'beanquery.cursor'


def unparse(n):
    return ast.unparse(n)


B = finite.Sym('B')      # the buffer of rows not yet delivered (a list)
N = finite.Sym('n')      # the requested size


class CursorMachine(finite.Machine):
    """Symbolic execution of one fetch method.  State: self.<attr> terms; events: pos increments."""

    def __init__(self, rows_state, size_given):
        super().__init__(call=self._call, expr=self._expr, subscript=self._sub)
        self.attrs = {'_rows': rows_state, '_pos': finite.Sym('pos'), 'arraysize': finite.Sym('arraysize')}
        self.size_given = size_given
        self.pos_incs = []
        self.popped = False
        self.delegated = []
        self.siblings = None
        self.depth = 0

    def _expr(self, e, st, m):
        if isinstance(e, ast.Attribute) and isinstance(e.value, ast.Name) and e.value.id == 'self':
            if e.attr in self.attrs:
                return self.attrs[e.attr]
            return finite.Sym('self.' + e.attr)
        if isinstance(e, ast.List) and not e.elts:
            return ()
        return NotImplemented

    def _sub(self, e, st, m):
        base = self.ev(e.value, st)
        if isinstance(e.slice, ast.Slice):
            lo = self.ev(e.slice.lower, st) if e.slice.lower is not None else None
            hi = self.ev(e.slice.upper, st) if e.slice.upper is not None else None
            if base == ():
                return ()          # any slice of the empty buffer is empty
            return ('slice', base, lo, hi)
        return ('item', base, self.ev(e.slice, st))

    def _call(self, e, st, m):
        src = unparse(e.func)
        if src == 'len' and len(e.args) == 1:
            v = self.ev(e.args[0], st)
            if v == ():
                return 0
            return ('len', v)
        if src == 'self._rows.pop' and [unparse(a) for a in e.args] == ['0']:
            self.popped = True
            cur = self.attrs['_rows']
            self.attrs['_rows'] = ('slice', cur, 1, None)
            return ('item', cur, 0)
        if src.startswith('self.fetch'):
            args = tuple(self.ev(a, st) for a in e.args)
            self.delegated.append((src[5:], args))
            sib = self.siblings.get(src[5:]) if self.siblings else None
            if sib is not None and self.depth < 3:
                # inline the sibling on the same cursor state
                sub = CursorMachine(self.attrs['_rows'], bool(args))
                sub.attrs = self.attrs
                sub.siblings = self.siblings
                sub.depth = self.depth + 1
                st2 = {}
                for i, p in enumerate(sib.params[1:]):
                    st2[p] = args[i] if i < len(args) else None
                try:
                    sub.run(body_without_docstring(sib.node), st2)
                    r = None
                except finite.Return as ret:
                    r = ret.value
                self.pos_incs.extend(sub.pos_incs)
                self.popped = self.popped or sub.popped
                return r
            return ('delegate', src[5:], args)
        if src == 'iter':
            args = tuple(unparse(a) for a in e.args)
            if len(args) == 2 and args[0].startswith('self.fetch') and args[1] == 'None':
                self.delegated.append((args[0][5:], ()))
                return ('iter-delegate', args[0][5:])
            return ('iter', tuple(self.ev(a, st) for a in e.args))
        return NotImplemented

    def ev(self, e, st):
        # truthiness of symbolic terms: the buffer B is non-empty, () is empty
        return super().ev(e, st)

    @staticmethod
    def truth(v):
        if v == () or v is None or v == 0 or v is False:
            return False
        if isinstance(v, tuple) and v and v[0] == 'len':
            return True      # len(B): B is non-empty in the symbolic case
        return True

    def stmt(self, s, st):
        if isinstance(s, ast.Assign) and len(s.targets) == 1 and isinstance(s.targets[0], ast.Tuple) \
                and isinstance(s.value, ast.Tuple) and len(s.value.elts) == len(s.targets[0].elts):
            vals = [self.ev(v, st) for v in s.value.elts]       # right-hand side first, then the stores
            st = dict(st)
            for t, v in zip(s.targets[0].elts, vals):
                if isinstance(t, ast.Attribute) and isinstance(t.value, ast.Name) and t.value.id == 'self':
                    self.attrs[t.attr] = v
                elif isinstance(t, ast.Name):
                    st[t.id] = v
                else:
                    raise AnalysisError(f'unsupported assignment target {unparse(t)}')
            return st
        if isinstance(s, ast.Assign) and len(s.targets) == 1 and isinstance(s.targets[0], ast.Attribute) \
                and isinstance(s.targets[0].value, ast.Name) and s.targets[0].value.id == 'self':
            self.attrs[s.targets[0].attr] = self.ev(s.value, st)
            return st
        if isinstance(s, ast.AugAssign) and isinstance(s.target, ast.Attribute) and isinstance(s.target.value, ast.Name) \
                and s.target.value.id == 'self' and isinstance(s.op, ast.Add):
            v = self.ev(s.value, st)
            if s.target.attr == '_pos':
                self.pos_incs.append(v)
            return st
        return super().stmt(s, st)


def simp(t):
    """Algebra of slices of one list: X[:len(X)] = X, X[len(X):] = [], len([]) = 0."""
    if isinstance(t, tuple) and t and t[0] == 'slice':
        base, lo, hi = simp(t[1]), simp(t[2]), simp(t[3])
        if base == ():
            return ()
        if lo in (None, 0) and hi == ('len', base):
            return base
        if lo == ('len', base) and hi is None:
            return ()
        if lo in (None, 0) and hi is None:
            return base
        return ('slice', base, lo, hi)
    if isinstance(t, tuple) and t and t[0] == 'len':
        x = simp(t[1])
        return 0 if x == () else ('len', x)
    if isinstance(t, tuple) and t and t[0] == 'item':
        return ('item', simp(t[1]), simp(t[2]))
    return t
















def rule_modconst(P) -> RuleResult:
    res = RuleResult('R-MODCONST')
    m = P.module('beanquery')
    def const(name):
        v = m.assigns.get(name)
        try:
            return ast.literal_eval(v) if v is not None else None
        except ValueError:
            return None
    if const('apilevel') != '2.0':
        res.fail('beanquery:apilevel', 'modconst:apilevel', f'apilevel must be "2.0", is {const("apilevel")!r}')
    else:
        res.ok({'apilevel': '2.0'})
    ts = const('threadsafety')
    if ts not in (0, 1, 2, 3):
        res.fail('beanquery:threadsafety', 'modconst:threadsafety', f'threadsafety must be 0..3, is {ts!r}')
    else:
        res.ok({'threadsafety': ts})
    ps = const('paramstyle')
    if ps not in ('format', 'pyformat'):
        res.fail('beanquery:paramstyle', 'modconst:paramstyle', f'the grammar accepts %s and %(name)s placeholders (format / pyformat); '
                 f'paramstyle is {ps!r}')
    else:
        res.ok({'paramstyle': ps})
    from ..symex import Sym as _S, T as _T, Engine as _E, show as _sh
    c = m.toplevel_funcs.get('connect')
    if not c:
        res.fail('beanquery:connect', 'modconst:connect', 'connect() must return a Connection')
    else:
        DSN, KW = _S('DSN'), _S('KEYWORDS')
        cf = c[-1]
        env = {cf.params[0]: DSN} if cf.params else {}
        if cf.node.args.kwarg:
            env[cf.node.args.kwarg.arg] = KW

        def on_call_c(fn, fv, rc, args, kw, ex, node):
            if str(fn).split('.')[-1] == 'Connection':
                return _T('new', ('Connection', tuple(args), tuple(kw)))
            return NotImplemented
        good = True
        for p in _E(P, on_call=on_call_c, max_depth=0).paths(cf, env):
            v = p.value
            if not (p.outcome == 'return' and isinstance(v, _T) and v.op == 'new' and v.args[0] == 'Connection' and v.args[1][:1] == (DSN,)
                    and (not cf.node.args.kwarg or (None, KW) in v.args[2])):
                good = False
                res.fail('beanquery:connect', 'modconst:connect', f'connect(dsn, **kwargs) must return a new Connection for that data source and '
                         f'those arguments; returns `{_sh(v)[:80]}`', loc(cf))
        if good:
            res.ok({'connect': 'Connection(dsn, **kwargs)'})
    conn = m.classes.get('Connection')
    for meth in ('close', 'cursor', 'execute'):
        if conn is None or meth not in conn.methods:
            res.fail(f'beanquery:Connection.{meth}', 'modconst:method', f'Connection.{meth} is missing')
        else:
            res.ok({'Connection': meth})
    cur = P.cls(CU, 'Cursor')
    for meth in ('close', 'execute', 'executemany', 'fetchone', 'fetchmany', 'fetchall', 'setinputsizes', 'setoutputsize'):
        if meth not in cur.methods:
            res.fail(f'{cur.fq}.{meth}', 'modconst:method', f'Cursor.{meth} is missing')
        else:
            res.ok({'Cursor': meth})
    # arraysize defaults to 1
    init = cur.methods['__init__']
    CUR = _S('CURSOR')
    SIZE = _T('attr', (CUR, 'arraysize'))
    good = True
    for p in _E(P, max_depth=2).paths(init, {'self': CUR}):
        if p.heap.get(SIZE) != 1:
            good = False
            res.fail(init.fq, 'modconst:arraysize', f'cursor.arraysize must default to 1; a new cursor has `{_sh(p.heap.get(SIZE))}`', loc(init))
    # it belongs to the application afterwards: executing a statement does not put it back
    for meth in ('execute', 'executemany'):
        fm_ = cur.methods.get(meth)
        if fm_ is None:
            continue

        def on_call_e(fn, fv, rc, args, kw, ex, node):
            last = str(fn).split('.')[-1]
            if rc == CUR and last in cur.methods and last not in ('execute', 'executemany'):
                return NotImplemented
            if rc != CUR:
                ex.events.append(('call', fn, args, kw))
                return _S('R_' + last)
            return NotImplemented
        for p in _E(P, on_call=on_call_e, max_depth=2, max_paths=128).paths(fm_, {'self': CUR}):
            st = [e for e in p.events if e[0] in ('store', 'aug') and e[1] == SIZE]
            if st and good:
                good = False
                res.fail(fm_.fq, 'modconst:arraysize', f'cursor.arraysize is set by the application (default 1) and says how many rows '
                         f'fetchmany() delivers: {meth}() puts it back to `{_sh(st[0][-1])}`', loc(fm_))
    if good:
        res.ok({'arraysize': 1, 'kept_across': ['execute', 'executemany']})
    return res
