"""C10: the cursor fetch protocol and DB-API surface.

R-FETCHSIB, R-RESET, R-ROWCOUNT, R-COLUMN7, R-MODCONST.  The fetch methods are
executed *symbolically* on an opaque non-empty buffer B: what is handed out,
what is kept and how the position counter moves are terms over B that the
sibling methods must agree on.
"""
from __future__ import annotations

import ast

from .. import finite
from ..loader import AnalysisError, FuncInfo, ClassInfo, loc, body_without_docstring, is_none
from ..report import RuleResult

CU = 'beanquery.cursor'


def unparse(n):
    return ast.unparse(n)


B = finite.Sym('B')      # the buffer of rows not yet delivered (a list)
N = finite.Sym('n')      # the requested size


class CursorMachine(finite.Machine):
    """Symbolic execution of one fetch method.  State: self.<attr> terms; events: pos increments."""

    def __init__(self, rows_state, size_given):
        super().__init__(call=self._call, expr=self._expr, subscript=self._sub)
        self.attrs = {'_rows': rows_state, '_pos': finite.Sym('pos'), 'arraysize': finite.Sym('arraysize')}
        self.size_given = size_given
        self.pos_incs = []
        self.popped = False
        self.delegated = []
        self.siblings = None
        self.depth = 0

    def _expr(self, e, st, m):
        if isinstance(e, ast.Attribute) and isinstance(e.value, ast.Name) and e.value.id == 'self':
            if e.attr in self.attrs:
                return self.attrs[e.attr]
            return finite.Sym('self.' + e.attr)
        if isinstance(e, ast.List) and not e.elts:
            return ()
        return NotImplemented

    def _sub(self, e, st, m):
        base = self.ev(e.value, st)
        if isinstance(e.slice, ast.Slice):
            lo = self.ev(e.slice.lower, st) if e.slice.lower is not None else None
            hi = self.ev(e.slice.upper, st) if e.slice.upper is not None else None
            if base == ():
                return ()          # any slice of the empty buffer is empty
            return ('slice', base, lo, hi)
        return ('item', base, self.ev(e.slice, st))

    def _call(self, e, st, m):
        src = unparse(e.func)
        if src == 'len' and len(e.args) == 1:
            v = self.ev(e.args[0], st)
            if v == ():
                return 0
            return ('len', v)
        if src == 'self._rows.pop' and [unparse(a) for a in e.args] == ['0']:
            self.popped = True
            cur = self.attrs['_rows']
            self.attrs['_rows'] = ('slice', cur, 1, None)
            return ('item', cur, 0)
        if src.startswith('self.fetch'):
            args = tuple(self.ev(a, st) for a in e.args)
            self.delegated.append((src[5:], args))
            sib = self.siblings.get(src[5:]) if self.siblings else None
            if sib is not None and self.depth < 3:
                # inline the sibling on the same cursor state
                sub = CursorMachine(self.attrs['_rows'], bool(args))
                sub.attrs = self.attrs
                sub.siblings = self.siblings
                sub.depth = self.depth + 1
                st2 = {}
                for i, p in enumerate(sib.params[1:]):
                    st2[p] = args[i] if i < len(args) else None
                try:
                    sub.run(body_without_docstring(sib.node), st2)
                    r = None
                except finite.Return as ret:
                    r = ret.value
                self.pos_incs.extend(sub.pos_incs)
                self.popped = self.popped or sub.popped
                return r
            return ('delegate', src[5:], args)
        if src == 'iter':
            args = tuple(unparse(a) for a in e.args)
            if len(args) == 2 and args[0].startswith('self.fetch') and args[1] == 'None':
                self.delegated.append((args[0][5:], ()))
                return ('iter-delegate', args[0][5:])
            return ('iter', tuple(self.ev(a, st) for a in e.args))
        return NotImplemented

    def ev(self, e, st):
        # truthiness of symbolic terms: the buffer B is non-empty, () is empty
        return super().ev(e, st)

    @staticmethod
    def truth(v):
        if v == () or v is None or v == 0 or v is False:
            return False
        if isinstance(v, tuple) and v and v[0] == 'len':
            return True      # len(B): B is non-empty in the symbolic case
        return True

    def stmt(self, s, st):
        if isinstance(s, ast.Assign) and len(s.targets) == 1 and isinstance(s.targets[0], ast.Tuple) \
                and isinstance(s.value, ast.Tuple) and len(s.value.elts) == len(s.targets[0].elts):
            vals = [self.ev(v, st) for v in s.value.elts]       # right-hand side first, then the stores
            st = dict(st)
            for t, v in zip(s.targets[0].elts, vals):
                if isinstance(t, ast.Attribute) and isinstance(t.value, ast.Name) and t.value.id == 'self':
                    self.attrs[t.attr] = v
                elif isinstance(t, ast.Name):
                    st[t.id] = v
                else:
                    raise AnalysisError(f'unsupported assignment target {unparse(t)}')
            return st
        if isinstance(s, ast.Assign) and len(s.targets) == 1 and isinstance(s.targets[0], ast.Attribute) \
                and isinstance(s.targets[0].value, ast.Name) and s.targets[0].value.id == 'self':
            self.attrs[s.targets[0].attr] = self.ev(s.value, st)
            return st
        if isinstance(s, ast.AugAssign) and isinstance(s.target, ast.Attribute) and isinstance(s.target.value, ast.Name) \
                and s.target.value.id == 'self' and isinstance(s.op, ast.Add):
            v = self.ev(s.value, st)
            if s.target.attr == '_pos':
                self.pos_incs.append(v)
            return st
        return super().stmt(s, st)


def simp(t):
    """Algebra of slices of one list: X[:len(X)] = X, X[len(X):] = [], len([]) = 0."""
    if isinstance(t, tuple) and t and t[0] == 'slice':
        base, lo, hi = simp(t[1]), simp(t[2]), simp(t[3])
        if base == ():
            return ()
        if lo in (None, 0) and hi == ('len', base):
            return base
        if lo == ('len', base) and hi is None:
            return ()
        if lo in (None, 0) and hi is None:
            return base
        return ('slice', base, lo, hi)
    if isinstance(t, tuple) and t and t[0] == 'len':
        x = simp(t[1])
        return 0 if x == () else ('len', x)
    if isinstance(t, tuple) and t and t[0] == 'item':
        return ('item', simp(t[1]), simp(t[2]))
    return t


def _run_fetch(fi: FuncInfo, rows_state, size=None):
    m = CursorMachine(rows_state, size is not None)
    if isinstance(fi.parent, ClassInfo):
        m.siblings = {k: v for k, v in fi.parent.methods.items() if k.startswith('fetch') and v is not fi}
    st = {}
    for p in fi.params[1:]:
        st[p] = size
    ret = 'fallthrough'
    try:
        m.run(body_without_docstring(fi.node), st)
    except finite.Return as r:
        ret = r.value
    return m, ret


def rule_fetchsib(P) -> RuleResult:
    res = RuleResult('R-FETCHSIB')
    cur = P.cls(CU, 'Cursor')
    want_empty = {'fetchone': None, 'fetchmany': (), 'fetchall': (), '__iter__': ()}
    verified = set()
    for name in ('fetchone', 'fetchmany', 'fetchall', '__iter__'):
        fi = cur.methods.get(name)
        if fi is None:
            res.fail(f'{cur.fq}.{name}', 'fetchsib:missing', f'Cursor.{name} is missing', loc(cur))
            continue
        construct = fi.fq
        n0 = len(res.findings)

        def fail(detail, msg):
            res.fail(construct, 'fetchsib:' + detail, f'Cursor.{name}: {msg}', loc(fi))
        try:
            # (c) before any execute, and when exhausted
            for state, desc in ((None, 'before any execute'), ((), 'when the rows are exhausted')):
                m, ret = _run_fetch(fi, state, None)
                ret = simp(ret)
                m.pos_incs = [simp(i) for i in m.pos_incs]
                if name == '__iter__':
                    if isinstance(ret, tuple) and ret and ret[0] == 'iter-delegate':
                        continue
                    if isinstance(ret, tuple) and ret and ret[0] == 'iter' and ret[1] in (((),), ((),)):
                        continue
                    if ret == 'fallthrough':
                        continue       # generator form: judged below
                    fail('empty', f'{desc} iteration must deliver nothing; returns {ret!r}')
                    continue
                if ret != want_empty[name]:
                    fail('empty', f'{desc} the method must return {"None" if want_empty[name] is None else "an empty list"}; '
                         f'returns {ret!r}')
                if m.pos_incs and any(i != 0 for i in m.pos_incs):
                    fail('empty-pos', f'{desc} the position counter moves by {m.pos_incs}')
            # (a)/(b) on a non-empty buffer
            sizes = [N, None] if name == 'fetchmany' else [None]
            for size in sizes:
                m, ret = _run_fetch(fi, B, size)
                ret = simp(ret)
                kept = simp(m.attrs['_rows'])
                m.pos_incs = [simp(i) for i in m.pos_incs]
                if isinstance(ret, tuple) and ret and ret[0] in ('delegate', 'iter-delegate'):
                    continue      # iteration through a sibling that is judged in its own right
                eff = N if size is not None else finite.Sym('arraysize')
                if name == 'fetchone':
                    if not (ret == ('item', B, 0) and kept == ('slice', B, 1, None)):
                        fail('consume', f'must hand out the first buffered row and remove it from the buffer; hands out {ret!r}, keeps {kept!r}')
                    if m.pos_incs != [1]:
                        fail('count', f'must advance the position by 1; advances by {m.pos_incs or "nothing"}')
                elif name == 'fetchmany':
                    if ret != ('slice', B, None, eff):
                        fail('deliver', f'must hand out the first n buffered rows; hands out {ret!r}')
                    if kept != ('slice', B, eff, None):
                        fail('consume', f'rows[:n] are handed out, so rows[n:] must be kept (same bound); keeps {kept!r}')
                    if m.pos_incs != [('len', ('slice', B, None, eff))]:
                        fail('count', f'must advance the position by the number of rows handed out; advances by {m.pos_incs or "nothing"}')
                elif name == 'fetchall':
                    if ret != B:
                        fail('deliver', f'must hand out all buffered rows; hands out {ret!r}')
                    if kept != ():
                        fail('consume', f'the buffer must be empty afterwards; keeps {kept!r}')
                    if m.pos_incs != [('len', B)]:
                        fail('count', f'must advance the position by the number of rows handed out; advances by {m.pos_incs or "nothing"}')
                else:  # __iter__
                    if isinstance(ret, tuple) and ret and ret[0] == 'iter' and B in ret[1]:
                        fail('consume', 'iterates over the buffer itself: rows delivered by iteration stay in the buffer (they are '
                             'delivered again by the next fetch) and the position does not move')
                    elif ret == 'fallthrough' and not any(e[0] == 'yield' for e in m.events):
                        fail('consume', 'iteration form not understood and it does not fetch')
        except AnalysisError as exc:
            raise AnalysisError(f'{fi.fq}: {exc}') from exc
        if len(res.findings) == n0:
            verified.add(name)
            res.ok({'method': name, 'cases': ['not executed', 'exhausted', 'non-empty buffer'],
                    'delegates': [d[0] for d in _run_fetch(fi, B, N if name == 'fetchmany' else None)[0].delegated]})
    # fetchmany default size is arraysize
    fm = cur.methods.get('fetchmany')
    if fm is not None and 'self.arraysize' not in unparse(fm.node):
        res.fail(fm.fq, 'fetchsib:arraysize', 'fetchmany() without a size must use cursor.arraysize', loc(fm))
    return res


def _self_writes(fi):
    out = set()
    for n in ast.walk(fi.node):
        tgt = None
        if isinstance(n, ast.Assign):
            tgt = n.targets
        elif isinstance(n, ast.AugAssign):
            tgt = [n.target]
        for t in tgt or []:
            if isinstance(t, ast.Attribute) and isinstance(t.value, ast.Name) and t.value.id == 'self':
                out.add(t.attr)
        if isinstance(n, ast.Call) and isinstance(n.func, ast.Attribute) and isinstance(n.func.value, ast.Attribute) \
                and isinstance(n.func.value.value, ast.Name) and n.func.value.value.id == 'self' \
                and n.func.attr in ('pop', 'append', 'clear', 'extend', 'remove', 'insert', 'sort'):
            out.add(n.func.value.attr)
    return out


def _self_reads(fi):
    return {n.attr for n in ast.walk(fi.node) if isinstance(n, ast.Attribute) and isinstance(n.value, ast.Name)
            and n.value.id == 'self' and isinstance(n.ctx, ast.Load)}


def rule_reset(P) -> RuleResult:
    res = RuleResult('R-RESET')
    cur = P.cls(CU, 'Cursor')
    init, ex = cur.methods.get('__init__'), cur.methods.get('execute')
    if init is None or ex is None:
        raise AnalysisError('anchor vanished: Cursor.__init__ / execute')
    state = _self_writes(init) - {'_context', 'arraysize'}
    written = _self_writes(ex)
    for a in sorted(state):
        if a not in written:
            res.fail(ex.fq, f'reset:{a}', f'a new execute() does not reset cursor state `{a}` (set in __init__): results of the '
                     f'previous statement leak into the next', loc(ex))
        else:
            res.ok({'attribute': a, 'reset_by': 'execute'})
    # _pos restarts at 0
    for n in ast.walk(ex.node):
        if isinstance(n, ast.Assign) and unparse(n.targets[0]) == 'self._pos':
            if unparse(n.value) != '0':
                res.fail(ex.fq, 'reset:_pos-value', f'rownumber must restart at 0, is set to `{unparse(n.value)}`', loc(ex, n))
    # executemany funnels through execute
    em = cur.methods.get('executemany')
    if em is None or 'self.execute(' not in unparse(em.node):
        res.fail(f'{cur.fq}.executemany', 'reset:executemany', 'executemany() must run each parameter set through execute()', loc(cur))
    else:
        res.ok({'method': 'executemany', 'via': 'execute'})
    # description is None before execute
    d = cur.methods.get('description')
    for n in ast.walk(init.node):
        if isinstance(n, ast.Assign) and unparse(n.targets[0]) == 'self._description' and not is_none(n.value):
            res.fail(init.fq, 'reset:description', 'description must be None before any execute()', loc(init, n))
    return res


def rule_rowcount(P) -> RuleResult:
    res = RuleResult('R-ROWCOUNT')
    cur = P.cls(CU, 'Cursor')
    rc = cur.methods.get('rowcount')
    if rc is None:
        raise AnalysisError('anchor vanished: Cursor.rowcount')
    reads = _self_reads(rc)
    if not reads:
        raise AnalysisError('Cursor.rowcount reads no cursor state')
    writers = {}
    for name, fi in cur.methods.items():
        for a in _self_writes(fi):
            writers.setdefault(a, set()).add(name)
    ok = True
    for a in sorted(reads):
        bad = sorted(writers.get(a, set()) - {'__init__', 'execute'})
        if bad:
            ok = False
            res.fail(rc.fq, f'rowcount:{a}', f'rowcount is the number of rows the last execute produced, but it is computed from '
                     f'`self.{a}`, which {", ".join(bad)} also modify: it changes as rows are fetched', loc(rc))
    # -1 before any execute: evaluate on the __init__ state
    init = cur.methods['__init__']
    consts = {}
    for n in ast.walk(init.node):
        if isinstance(n, ast.Assign) and isinstance(n.targets[0], ast.Attribute):
            try:
                consts[n.targets[0].attr] = ast.literal_eval(n.value)
            except (ValueError, SyntaxError):
                pass
    m = finite.Machine(expr=lambda e, st, mm: consts.get(e.attr, finite.Sym(unparse(e))) if isinstance(e, ast.Attribute) else NotImplemented,
                       call=lambda e, st, mm: finite.Sym(unparse(e)))
    try:
        m.run(body_without_docstring(rc.node), {})
        v = None
    except finite.Return as r:
        v = r.value
    if v != -1:
        ok = False
        res.fail(rc.fq, 'rowcount:initial', f'rowcount must be -1 before any execute(); evaluates to {v!r} on a fresh cursor', loc(rc))
    # execute stores the length of the very list it stores as the buffer
    ex = cur.methods['execute']
    if ok:
        for a in reads:
            for n in ast.walk(ex.node):
                if isinstance(n, ast.Assign) and unparse(n.targets[0]) == f'self.{a}' and a != '_rows':
                    rowsrc = [unparse(x.value) for x in ast.walk(ex.node) if isinstance(x, ast.Assign) and unparse(x.targets[0]) == 'self._rows']
                    if not (rowsrc and unparse(n.value) == f'len({rowsrc[0]})'):
                        ok = False
                        res.fail(ex.fq, f'rowcount:source:{a}', f'`self.{a}` must be the number of result rows (len of the list stored '
                                 f'as the buffer); it is `{unparse(n.value)}`', loc(ex, n))
    if ok:
        res.ok({'property': 'rowcount', 'reads': sorted(reads), 'writers': 'only __init__ and execute', 'initial': -1})
    rn = cur.methods.get('rownumber')
    if rn is None or _self_reads(rn) != {'_pos'}:
        res.fail(f'{cur.fq}.rownumber', 'rowcount:rownumber', 'rownumber must be the position counter', loc(cur))
    else:
        res.ok({'property': 'rownumber', 'reads': ['_pos']})
    return res


def rule_column7(P) -> RuleResult:
    res = RuleResult('R-COLUMN7')
    col = P.cls(CU, 'Column')
    v = col.attrs.get('_vars')
    names = None
    if v is not None:
        for n in ast.walk(v):
            if isinstance(n, ast.Constant) and isinstance(n.value, str) and ' ' in n.value:
                names = n.value.split()
    if names is None:
        raise AnalysisError('Column._vars: the list of DB-API field names not found')
    want = ['name', 'type_code', 'display_size', 'internal_size', 'precision', 'scale', 'null_ok']
    if names != want:
        res.fail(col.fq, 'column7:fields', f'a description entry is the 7-sequence {want}; found {names}', loc(col))
    else:
        res.ok({'fields': names})
    ln = col.methods.get('__len__')
    rets = [n for n in ast.walk(ln.node) if isinstance(n, ast.Return)] if ln else []
    if not (len(rets) == 1 and isinstance(rets[0].value, ast.Constant) and rets[0].value.value == len(names)):
        res.fail(f'{col.fq}.__len__', 'column7:len', f'len() of a description entry must be {len(names)}', loc(col))
    else:
        res.ok({'len': len(names)})
    for i, nm in enumerate(names):
        f = col.methods.get(nm)
        if f is None or not any(unparse(d) == 'property' for d in f.node.decorator_list):
            res.fail(f'{col.fq}.{nm}', 'column7:property', f'field {nm} is not a property of Column', loc(col))
            continue
        rets = [n for n in ast.walk(f.node) if isinstance(n, ast.Return)]
        if i >= 2:
            if not (len(rets) == 1 and is_none(rets[0].value)):
                res.fail(f.fq, 'column7:none', f'{nm} must be None', loc(f))
            else:
                res.ok({'field': nm, 'value': None})
        elif i == 0:
            if not (len(rets) == 1 and unparse(rets[0].value) == 'self._name'):
                res.fail(f.fq, 'column7:name', 'field 0 must be the column name', loc(f))
            else:
                res.ok({'field': nm})
        else:
            res.ok({'field': nm})
    gi = col.methods.get('__getitem__')
    if gi is None or 'slice' not in unparse(gi.node):
        res.fail(f'{col.fq}.__getitem__', 'column7:slice', 'description entries must support slicing', loc(col))
    else:
        # execute both branches symbolically: an index gives the field, a slice the tuple of the fields in the slice
        kp = gi.params[1]
        problems = []
        for is_slice in (False, True):
            def callh(e, st, m):
                f = unparse(e.func)
                if f == 'tuple':
                    return ('tuple', m.ev(e.args[0], st))
                if f == 'self._vars':
                    return ('called', 'self._vars')
                if isinstance(e.func, ast.Subscript) or f == 'getter':
                    return ('field-of', m.ev(e.func, st) if isinstance(e.func, ast.Subscript) else 'each')
                return finite.Sym(f)
            mach = finite.Machine(isinstance_=lambda v, c, _s=is_slice: _s if unparse(c) == 'slice' else False,
                                  call=callh, names={'self': finite.Sym('self'), kp: finite.Sym('KEY')},
                                  subscript=lambda e, st, m: ('getters', unparse(e.slice)) if unparse(e.value) == 'self._vars' else finite.Sym(unparse(e)),
                                  expr=lambda e, st, m: finite.Sym(unparse(e)))
            mach.comprehensions = True
            try:
                mach.run(body_without_docstring(gi.node), {})
                got = None
            except finite.Return as r:
                got = r.value
            except AnalysisError as exc:
                problems.append(f'for a {"slice" if is_slice else "index"} it {exc}')
                continue
            want_inner = ('getters', kp)
            ok = (got == ('field-of', want_inner)) if not is_slice else \
                (isinstance(got, finite.Each) and got.value == ('field-of', 'each')
                 and getattr(mach, 'last_iterated', None) == want_inner)
            if is_slice and not ok and getattr(mach, 'last_iterated', None) == ('called', 'self._vars'):
                problems.append('for a slice it calls the tuple of field getters instead of slicing it (TypeError)')
                continue
            if not ok:
                problems.append(f'for a {"slice" if is_slice else "index"} it returns {got!r}')
        if problems:
            res.fail(gi.fq, 'column7:getitem', 'Column.__getitem__ must return the field for an index and the tuple of fields for a slice: '
                     + '; '.join(problems), loc(gi))
        else:
            res.ok({'getitem': 'index and slice', 'cases': 2})
    bases = [unparse(b) for b in col.node.bases]
    if 'Sequence' not in bases:
        res.fail(col.fq, 'column7:sequence', 'Column must be a Sequence (iteration, len, indexing)', loc(col))
    eq = col.methods.get('__eq__')
    if eq is None or 'tuple(self) == tuple(other)' not in unparse(eq.node):
        res.info('Column.__eq__: comparison shape not recognised (not judged)')
    return res


def rule_modconst(P) -> RuleResult:
    res = RuleResult('R-MODCONST')
    m = P.module('beanquery')
    def const(name):
        v = m.assigns.get(name)
        try:
            return ast.literal_eval(v) if v is not None else None
        except ValueError:
            return None
    if const('apilevel') != '2.0':
        res.fail('beanquery:apilevel', 'modconst:apilevel', f'apilevel must be "2.0", is {const("apilevel")!r}')
    else:
        res.ok({'apilevel': '2.0'})
    ts = const('threadsafety')
    if ts not in (0, 1, 2, 3):
        res.fail('beanquery:threadsafety', 'modconst:threadsafety', f'threadsafety must be 0..3, is {ts!r}')
    else:
        res.ok({'threadsafety': ts})
    ps = const('paramstyle')
    if ps not in ('format', 'pyformat'):
        res.fail('beanquery:paramstyle', 'modconst:paramstyle', f'the grammar accepts %s and %(name)s placeholders (format / pyformat); '
                 f'paramstyle is {ps!r}')
    else:
        res.ok({'paramstyle': ps})
    c = m.toplevel_funcs.get('connect')
    if not c or 'Connection(' not in unparse(c[-1].node):
        res.fail('beanquery:connect', 'modconst:connect', 'connect() must return a Connection')
    else:
        res.ok({'connect': 'Connection'})
    conn = m.classes.get('Connection')
    for meth in ('close', 'cursor', 'execute'):
        if conn is None or meth not in conn.methods:
            res.fail(f'beanquery:Connection.{meth}', 'modconst:method', f'Connection.{meth} is missing')
        else:
            res.ok({'Connection': meth})
    cur = P.cls(CU, 'Cursor')
    for meth in ('close', 'execute', 'executemany', 'fetchone', 'fetchmany', 'fetchall', 'setinputsizes', 'setoutputsize'):
        if meth not in cur.methods:
            res.fail(f'{cur.fq}.{meth}', 'modconst:method', f'Cursor.{meth} is missing')
        else:
            res.ok({'Cursor': meth})
    # arraysize defaults to 1
    init = cur.methods['__init__']
    if 'self.arraysize = 1' not in unparse(init.node):
        res.fail(init.fq, 'modconst:arraysize', 'cursor.arraysize must default to 1', loc(init))
    else:
        res.ok({'arraysize': 1})
    return res
