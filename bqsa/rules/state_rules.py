"""Rules about state: R-SHARED, R-INPUTMUT (C09, C20), R-ONCEPERROW (C12), R-REENTRANT (C08), R-FOLDPURE,
R-PLACEHOLDER (C09), R-TABLECOPY (C13)."""
from __future__ import annotations

import ast

from .. import effects, registry, finite
from ..loader import AnalysisError, FuncInfo, ClassInfo, loc, body_without_docstring, is_none
from ..report import RuleResult

CO = 'beanquery.compiler'
QE = 'beanquery.query_env'


def unparse(n):
    return ast.unparse(n)


def _census(P):
    reg = registry.get(P)
    return effects.get(P, reg)


def _census_rule(P, name, lifetimes, what):
    res = RuleResult(name)
    c = _census(P)
    if c.functions_examined < 250 or len(c.writes) < 90:
        raise AnalysisError(f'write census went blind: {c.functions_examined} functions, {len(c.writes)} writes')
    bad = [w for w in c.writes if w.lifetime in lifetimes]
    seen = set()
    for w in bad:
        detail = f'{w.kind}:{w.receiver}'.replace(' ', '')
        if (w.func.fq, detail) in seen:
            continue
        seen.add((w.func.fq, detail))
        res.fail(w.func.fq, detail[:80],
                 f'{w.func.qualname} runs while a statement is compiled or executed and writes `{w.receiver}`: {w.why}. {what}',
                 f'{w.func.module.path}:{getattr(w.node, "lineno", 0)}')
    unknown = [w for w in c.writes if w.lifetime == 'UNKNOWN']
    for w in unknown[:5]:
        res.info(f'unresolved receiver `{w.receiver}` in {w.func.fq}')
    res.unresolved = len(unknown)
    by_fn = {}
    for w in c.writes:
        if w.lifetime not in lifetimes and w.lifetime != 'UNKNOWN':
            by_fn.setdefault(w.func.fq, []).append(w.receiver)
    for fq, recv in sorted(by_fn.items()):
        res.ok({'function': fq, 'writes': recv[:6], 'all_private_to_the_execution': True})
    res.ok({'functions_examined': c.functions_examined, 'writes_classified': len(c.writes),
            'import_only_functions': len(c.import_only)})
    return res


def rule_shared(P) -> RuleResult:
    return _census_rule(P, 'R-SHARED', ('IMPORT', 'CONNECTION'),
                        'State that outlives one execution is shared by every later and every concurrent execution.')


def rule_inputmut(P) -> RuleResult:
    return _census_rule(P, 'R-INPUTMUT', ('INPUT',),
                        'The statement, its parameters and the ledger belong to the caller: executing must not change them.')


# ----------------------------------------------------------------------
# R-ONCEPERROW (C12)

def rule_onceperrow(P) -> RuleResult:
    res = RuleResult('R-ONCEPERROW')
    reg = registry.get(P)
    m = P.module(QE)
    RID = finite.Sym('RID')
    found = 0
    for fq, cols in reg.tables.items():
        for name, c in cols.items():
            if c.kind != 'func':
                continue
            fi = c.impl
            ctx = fi.params[0]
            # does the accessor mutate its row context?
            muts = []
            for n in ast.walk(fi.node):
                if isinstance(n, ast.Call) and isinstance(n.func, ast.Attribute) and n.func.attr in effects.MUTATORS:
                    root = n.func.value
                    while isinstance(root, (ast.Attribute, ast.Subscript)):
                        root = root.value
                    if isinstance(root, ast.Name) and root.id == ctx:
                        muts.append(n)
            if not muts:
                continue
            if (fi.fq, 'done') in getattr(res, '_seen', set()):
                continue
            res._seen = getattr(res, '_seen', set()) | {(fi.fq, 'done')}
            found += 1
            construct = f'column:{reg.table_info[fq].name}.{name}'
            n0 = len(res.findings)
            # no process-wide memo
            for d in fi.node.decorator_list:
                e = d.func if isinstance(d, ast.Call) else d
                if fi.module.dotted(e) in effects.MEMO_DECORATORS:
                    res.fail(construct, 'onceperrow:memo',
                             f'{name} updates the running state of its row context and relies on `@{unparse(d)}` to do so only once per '
                             f'row: the cache is shared by every scan in the process, so another evaluation of the column between two '
                             f'references in one row (a subquery, another thread) evicts the entry and the row is counted twice', loc(fi))
            # the guard lives in the row context and is keyed by the row id: execute over the guard states
            guard_attrs = set()
            for n in ast.walk(fi.node):
                if isinstance(n, ast.Compare) and len(n.ops) == 1:
                    sides = [unparse(n.left), unparse(n.comparators[0])]
                    if f'{ctx}.rowid' in sides:
                        other = [s for s in sides if s != f'{ctx}.rowid']
                        if other and other[0].startswith(f'{ctx}.'):
                            guard_attrs.add(other[0][len(ctx) + 1:])
            if not guard_attrs and len(res.findings) == n0:
                res.fail(construct, 'onceperrow:unguarded',
                         f'{name} updates the running state of its row context on every evaluation: referenced twice in one row it '
                         f'counts the row twice (no per-row guard keyed by {ctx}.rowid)', loc(fi))
            for ga in sorted(guard_attrs):
                for state, want_mut in ((None, True), (finite.Sym('OLD'), True), (RID, False)):
                    attrs = {ga: state, 'rowid': RID}

                    class M(finite.Machine):
                        def stmt(self, s, st):
                            if isinstance(s, ast.Assign) and len(s.targets) == 1 and isinstance(s.targets[0], ast.Attribute) \
                                    and unparse(s.targets[0].value) == ctx:
                                attrs[s.targets[0].attr] = self.ev(s.value, st)
                                return st
                            return super().stmt(s, st)
                    mach = M(expr=lambda e, st, mm: attrs.get(e.attr, finite.Sym(unparse(e))) if isinstance(e, ast.Attribute) and unparse(e.value) == ctx
                             else finite.Sym(unparse(e)) if isinstance(e, ast.Attribute) else NotImplemented,
                             call=lambda e, st, mm: (mm.events.append(('mutate', unparse(e.func))) or finite.Sym('R'))
                             if isinstance(e.func, ast.Attribute) and e.func.attr in effects.MUTATORS else finite.Sym(unparse(e)),
                             names={ctx: finite.Sym(ctx)})
                    try:
                        mach.run(body_without_docstring(fi.node), {})
                    except finite.Return:
                        pass
                    did = any(e[0] == 'mutate' for e in mach.events)
                    if did != want_mut:
                        res.fail(construct, f'onceperrow:guard:{ga}',
                                 f'{name}: with {ctx}.{ga} {"equal to" if state is RID else "different from"} the current row id the '
                                 f'running state is {"updated" if did else "not updated"}; it must be updated exactly on the first '
                                 f'evaluation for a row', loc(fi))
                    elif want_mut and attrs.get(ga) != RID:
                        res.fail(construct, f'onceperrow:mark:{ga}',
                                 f'{name} updates the running state but does not record the row id in {ctx}.{ga}: the next reference '
                                 f'in the same row updates it again', loc(fi))
                # the guard attribute is per scan: declared on the row context class
                row = m.classes.get('Row')
                if row is not None and ga not in row.attrs and f'self.{ga}' not in unparse(row.node):
                    res.fail(construct, f'onceperrow:decl:{ga}', f'{ctx}.{ga} is never initialised on the row context', loc(fi))
            # returns a copy of the running value
            rets = [n for n in ast.walk(fi.node) if isinstance(n, ast.Return) and n.value is not None]
            for r in rets:
                if isinstance(r.value, ast.Attribute) and unparse(r.value).startswith(ctx + '.'):
                    res.fail(construct, 'onceperrow:alias',
                             f'{name} returns the running object itself (`{unparse(r.value)}`): it is stored in result rows and keeps '
                             f'changing as the scan goes on; a copy must be returned', loc(fi, r))
            if len(res.findings) == n0:
                res.ok({'column': name, 'guard': sorted(guard_attrs), 'states_executed': 3, 'returns': 'copy'})
    if found == 0:
        raise AnalysisError('anchor vanished: no column accessor updates its row context (the running balance)')
    # rowid is bumped once per row by the row generators
    for tname in ('EntriesTable', 'PostingsTable'):
        ci = m.classes.get(tname)
        it = ci.methods.get('__iter__') if ci else None
        if it is None:
            raise AnalysisError(f'anchor vanished: {tname}.__iter__')
        ys = [n for n in ast.walk(it.node) if isinstance(n, (ast.Yield,))]
        incs = [n for n in ast.walk(it.node) if isinstance(n, ast.AugAssign) and unparse(n.target).endswith('.rowid')]
        if len(ys) != 1 or len(incs) != 1:
            res.fail(it.fq, 'onceperrow:rowid', f'{tname}.__iter__ must bump the row id exactly once per yielded row', loc(it))
            continue
        # same innermost loop
        loops = [n for n in ast.walk(it.node) if isinstance(n, ast.For)]
        inner_y = [l for l in loops if any(x is ys[0] for x in ast.walk(l))]
        inner_i = [l for l in loops if any(x is incs[0] for x in ast.walk(l))]
        if not inner_y or inner_y[-1] is not (inner_i[-1] if inner_i else None):
            res.fail(it.fq, 'onceperrow:rowid', f'{tname}.__iter__: the row id is not bumped in the loop that yields the rows '
                     f'(two rows would share an id and the second would not be added to the balance)', loc(it))
        else:
            res.ok({'generator': it.fq, 'rowid': 'bumped once per yielded row'})
    return res


# ----------------------------------------------------------------------
# R-REENTRANT (C08)

def rule_reentrant(P) -> RuleResult:
    """Compiler state written while compiling a (nested) SELECT is restored for the enclosing one."""
    res = RuleResult('R-REENTRANT')
    comp = P.cls(CO, 'Compiler')
    # attributes of the compiler written by methods other than __init__/compile
    written = {}
    for name, fi in comp.methods.items():
        if name in ('__init__', 'compile'):
            continue
        for n in ast.walk(fi.node):
            if isinstance(n, ast.Assign):
                for t in n.targets:
                    if isinstance(t, ast.Attribute) and isinstance(t.value, ast.Name) and t.value.id == 'self':
                        written.setdefault(t.attr, []).append((fi, n))
    # the registered handler for Select
    sel = None
    for name, fi in comp.methods.items():
        ann = fi.node.args.args[1].annotation if len(fi.node.args.args) > 1 else None
        if ann is not None and unparse(ann) == 'ast.Select' and any('register' in unparse(d) for d in fi.node.decorator_list):
            sel = fi
    if sel is None:
        raise AnalysisError('anchor vanished: the _compile handler registered for ast.Select')
    if not written:
        res.ok({'compiler_state_written_during_compilation': []})
        return res
    for attr, sites in sorted(written.items()):
        construct = f'{comp.fq}.{attr}'
        # a scope-owning save/restore in the Select handler: saved on entry, restored in a finally (or on every exit)
        saves = [n for n in sel.node.body if isinstance(n, ast.Assign) and unparse(n.value) == f'self.{attr}'
                 and isinstance(n.targets[0], ast.Name)]
        restored = False
        if saves:
            sv = saves[0].targets[0].id
            for n in ast.walk(sel.node):
                if isinstance(n, ast.Try) and n.finalbody:
                    for s in n.finalbody:
                        if isinstance(s, ast.Assign) and unparse(s.targets[0]) == f'self.{attr}' and unparse(s.value) == sv:
                            # everything that compiles sits inside the try
                            restored = True
            if restored:
                idx = sel.node.body.index(saves[0])
                between = sel.node.body[idx + 1:]
                if not (between and isinstance(between[0], ast.Try) and len(between) == 1):
                    # statements after the try would run with the restored value: fine; statements before the try that compile: not
                    pre = [s for s in between if not isinstance(s, ast.Try)]
                    if any('self._compile' in unparse(s) for s in pre):
                        restored = False
        writers = sorted({fi.qualname for fi, _ in sites})
        if restored:
            res.ok({'attribute': f'self.{attr}', 'written_by': writers, 'scope_owner': sel.qualname, 'restore': 'try/finally'})
        else:
            res.fail(construct, f'reentrant:{attr}',
                     f'`self.{attr}` is overwritten by {", ".join(writers)} while a SELECT is compiled, and SELECTs nest (subqueries '
                     f'in expressions and FROM). {sel.qualname} does not save it on entry and restore it on every exit, so after a '
                     f'nested SELECT the enclosing one resolves names against, and iterates over, the inner table', loc(sel))
    return res


# ----------------------------------------------------------------------
# R-FOLDPURE, R-PLACEHOLDER (C09)

def rule_foldpure(P) -> RuleResult:
    res = RuleResult('R-FOLDPURE')
    reg = registry.get(P)
    m = P.module(CO)
    comp = P.cls(CO, 'Compiler')
    from .sx_compiler import fold_cases
    fold_cases(P, res)
    # purity as declared: not pass_row and not pass_context; aggregates impure
    for f in reg.funcs:
        if f.kind == 'function':
            want = not f.pass_row and not f.pass_context
            if f.pure is not want:
                res.fail(f'function:{f.label}', 'foldpure:flag', f'{f.label}: pure={f.pure} but pass_row={f.pass_row}, '
                         f'pass_context={f.pass_context}', loc(f.impl) if f.impl else '')
        elif f.kind == 'aggregator' and f.pure is not False:
            res.fail(f'aggregate:{f.label}', 'foldpure:aggregate', f'aggregate {f.label} must not be folded (pure must be False)')
    # pure functions read nothing but their arguments
    ALLOW = {'today': 'reads the clock; folded once per statement by design'}
    for f in reg.funcs:
        if f.kind != 'function' or not f.pure or f.impl is None:
            continue
        fi = f.impl
        params = set(fi.params)
        free = set()
        for n in ast.walk(fi.node):
            if isinstance(n, ast.Name) and isinstance(n.ctx, ast.Load) and n.id not in params:
                free.add(n.id)
        locs = {n.id for n in ast.walk(fi.node) if isinstance(n, ast.Name) and isinstance(n.ctx, ast.Store)}
        impure = []
        for nm in sorted(free - locs):
            d = fi.module.dotted(ast.Name(id=nm, ctx=ast.Load()))
            if d and d.startswith('beanquery.') and nm in fi.module.assigns and not nm.isupper():
                impure.append(nm)
        calls = {fi.module.dotted(n.func) for n in ast.walk(fi.node) if isinstance(n, ast.Call)}
        clock = {c for c in calls if c and (c.endswith('.today') or c.endswith('.now') or c.startswith('random.') or c.startswith('time.'))}
        if (impure or clock) and f.name not in ALLOW:
            res.fail(f'function:{f.label}', 'foldpure:effect', f'{f.label} is registered pure (foldable) but reads {sorted(impure) + sorted(clock)}',
                     loc(fi))
        else:
            res.ok({'function': f.label, 'pure': True, **({'allowed': ALLOW[f.name]} if f.name in ALLOW and clock else {})})
    return res


def rule_placeholder(P) -> RuleResult:
    res = RuleResult('R-PLACEHOLDER')
    comp = P.cls(CO, 'Compiler')
    c = comp.methods.get('compile')
    ph = comp.methods.get('_placeholder')
    if c is None or ph is None:
        raise AnalysisError('anchor vanished: Compiler.compile / _placeholder')
    src = unparse(c.node)
    # positional placeholders numbered in textual order
    enums = [n for n in ast.walk(c.node) if isinstance(n, ast.Call) and unparse(n.func) == 'enumerate']
    ok = False
    for e in enums:
        a = e.args[0] if e.args else None
        if isinstance(a, ast.Call) and unparse(a.func) == 'sorted' and any(k.arg == 'key' and 'parseinfo.pos' in unparse(k.value) for k in a.keywords):
            if not any(k.arg == 'reverse' for k in a.keywords):
                ok = True
    if ok:
        res.ok({'site': c.fq, 'numbering': 'enumerate(sorted(placeholders, key=position in the text))'})
    else:
        res.fail(c.fq, 'placeholder:order', 'positional parameters must bind in left-to-right textual order: number the placeholders '
                 'by enumerate(sorted(..., key=parse position))', loc(c))
    psrc = unparse(ph.node)
    if 'self.parameters[' not in psrc:
        res.fail(ph.fq, 'placeholder:lookup', 'a placeholder must evaluate to the parameter it names', loc(ph))
    else:
        res.ok({'site': ph.fq, 'value': 'self.parameters[key]'})
    # the numbering is read by _placeholder from where compile stored it
    stores = [unparse(n.targets[0]) for n in ast.walk(c.node) if isinstance(n, ast.Assign) and unparse(n.targets[0]).startswith('self.')]
    used = [s for s in stores if s in psrc and s != 'self.parameters']
    if not used and 'node.name' in psrc and '.name = ' not in src:
        res.fail(ph.fq, 'placeholder:numbering', 'the positional numbering computed by compile() is not used by _placeholder()', loc(ph))
    elif used:
        res.ok({'numbering_store': used})
    return res


# ----------------------------------------------------------------------
# R-TABLECOPY (C13, C20)

def rule_tablecopy(P) -> RuleResult:
    res = RuleResult('R-TABLECOPY')
    m = P.module(QE)
    bt = m.classes.get('BeanTable')
    upd = bt.methods.get('update') if bt else None
    if upd is None:
        raise AnalysisError('anchor vanished: BeanTable.update')
    src = unparse(upd.node)
    copies = [n for n in ast.walk(upd.node) if isinstance(n, ast.Assign) and isinstance(n.value, ast.Call)
              and upd.module.dotted(n.value.func) in ('copy.copy', 'copy.deepcopy') and [unparse(a) for a in n.value.args] == ['self']]
    rets = [n for n in ast.walk(upd.node) if isinstance(n, ast.Return)]
    if len(copies) == 1 and len(rets) == 1 and unparse(rets[0].value) == unparse(copies[0].targets[0]):
        cv = unparse(copies[0].targets[0])
        bad = [n for n in ast.walk(upd.node) if (isinstance(n, ast.Call) and unparse(n.func) == 'setattr' and unparse(n.args[0]) != cv)
               or (isinstance(n, ast.Assign) and unparse(n.targets[0]).startswith('self.'))]
        if bad:
            res.fail(upd.fq, 'tablecopy:self-write', 'BeanTable.update() modifies the table held by the connection instead of a copy', loc(upd))
        else:
            res.ok({'method': upd.fq, 'writes': f'only to {cv} = copy.copy(self)'})
    else:
        res.fail(upd.fq, 'tablecopy:nocopy', 'OPEN/CLOSE/CLEAR must be applied to a copy of the table: the table object belongs to '
                 'the connection and is shared by all statements', loc(upd))
    cf = P.func(CO, 'Compiler._compile_from')
    if 'self.table = self.table.update(' not in unparse(cf.node):
        res.fail(cf.fq, 'tablecopy:site', 'the FROM clause must replace the current table by its updated copy', loc(cf))
    else:
        res.ok({'site': cf.fq, 'table': 'self.table.update(open=, close=, clear=)'})
    return res


# ----------------------------------------------------------------------
# R-SUBQ1D (C08): x IN (subquery) is membership in the subquery's single output column

def rule_subq1d(P) -> RuleResult:
    res = RuleResult('R-SUBQ1D')
    ci = P.cls('beanquery.query_compile', 'EvalConstantSubquery1D')
    call = ci.methods.get('__call__')
    if call is None:
        raise AnalysisError('anchor vanished: EvalConstantSubquery1D.__call__')
    n0 = len(res.findings)
    ex = [n for n in ast.walk(call.node) if isinstance(n, ast.Call) and unparse(n.func).endswith('execute_query')]
    if len(ex) != 1 or [unparse(a) for a in ex[0].args] != ['self.subquery']:
        res.fail(call.fq, 'subq1d:source', 'the IN-subquery value must be the result of executing that subquery', loc(call))
    comps = [n for n in ast.walk(call.node) if isinstance(n, (ast.ListComp, ast.SetComp, ast.GeneratorExp))]
    if len(comps) != 1:
        raise AnalysisError(f'{call.fq}: construction of the membership list not understood')
    c = comps[0]
    g = c.generators[0]
    if g.ifs:
        res.fail(call.fq, 'subq1d:filtered', f'the membership collection drops rows of the subquery result (`if {unparse(g.ifs[0])}`): '
                 f'a subquery whose rows are all dropped is then mistaken for one that returned no row (NULL instead of FALSE/TRUE)',
                 loc(call, c))
    if unparse(c.elt) != f'{unparse(g.target)}[0]':
        res.fail(call.fq, 'subq1d:column', f'membership is tested against the single output column (row[0]); found `{unparse(c.elt)}`', loc(call, c))
    # empty result -> NULL; cached on the node (one evaluation per compiled statement)
    src = unparse(call.node)
    stores = [n for n in ast.walk(call.node) if isinstance(n, ast.Assign) and unparse(n.targets[0]) == 'self.value']
    if len(stores) != 1 or not isinstance(stores[0].value, ast.IfExp) or not is_none(stores[0].value.orelse):
        res.fail(call.fq, 'subq1d:empty', 'a subquery returning no row makes IN / NOT IN NULL: value if value else None', loc(call))
    if 'self.value is MARKER' not in src:
        res.info('caching shape not recognised (not judged)')
    if len(res.findings) == n0:
        res.ok({'node': ci.fq, 'membership_in': 'row[0] of every result row', 'empty': 'NULL', 'cached': 'on the node instance'})
    return res


# ----------------------------------------------------------------------
# R-PARSEFRESH (C06, C19): every parse gives the caller its own tree

def rule_parsefresh(P) -> RuleResult:
    """The syntax tree is mutable and its consumers write into it (the shell stores the default CLOSE date of `.run` in the
    FROM clause); parse() must therefore build a new tree on every call: no memo decorator and no module-level cache on
    parse(), the semantic actions or the AST node constructors, and no write to state that outlives the call."""
    res = RuleResult('R-PARSEFRESH')
    c = _census(P)
    mods = ('beanquery.parser', 'beanquery.parser.ast')
    n = 0
    for m in mods:
        mod = P.modules.get(m)
        if mod is None:
            raise AnalysisError(f'anchor vanished: module {m}')
        for fi in mod.functions.values():
            n += 1
            for d in fi.node.decorator_list:
                e = d.func if isinstance(d, ast.Call) else d
                if fi.module.dotted(e) in effects.MEMO_DECORATORS:
                    res.fail(fi.fq, 'parsefresh:memo', f'`@{unparse(d)}` on {fi.qualname}: the same syntax tree object is handed to every caller '
                             f'that parses the same text, and consumers write into it (the shell sets the default CLOSE date of .run NAME on '
                             f'the FROM clause): a later parse of the identical text is executed with that change', loc(fi))
    for w in c.writes:
        if w.func.module.name in mods and w.lifetime in ('IMPORT', 'CONNECTION') and w.func not in c.import_only:
            res.fail(w.func.fq, f'parsefresh:{w.kind}', f'{w.func.qualname} writes `{w.receiver}` ({w.why}) while parsing: state kept between '
                     f'two parses', f'{w.func.module.path}:{getattr(w.node, "lineno", 0)}')
    if n < 15:
        raise AnalysisError(f'only {n} functions found in the parser front end')
    if not res.findings:
        res.ok({'modules': list(mods), 'functions_examined': n, 'memoised': 0, 'writes_outliving_a_parse': 0})
    return res
