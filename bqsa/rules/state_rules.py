"""Rules about state: R-SHARED, R-INPUTMUT (C09, C20), R-ONCEPERROW (C12), R-REENTRANT (C08), R-FOLDPURE,
R-PLACEHOLDER (C09), R-TABLECOPY (C13)."""
from __future__ import annotations

import ast

from .. import effects, registry, finite
from ..loader import AnalysisError, FuncInfo, ClassInfo, loc, body_without_docstring, is_none
from ..report import RuleResult

CO = 'beanquery.compiler'
QE = 'beanquery.query_env'


def unparse(n):
    return ast.unparse(n)


def _census(P):
    reg = registry.get(P)
    return effects.get(P, reg)


def _census_rule(P, name, lifetimes, what):
    res = RuleResult(name)
    c = _census(P)
    if c.functions_examined < 250 or len(c.writes) < 90:
        raise AnalysisError(f'write census went blind: {c.functions_examined} functions, {len(c.writes)} writes')
    bad = [w for w in c.writes if w.lifetime in lifetimes]
    seen = set()
    for w in bad:
        detail = f'{w.kind}:{w.receiver}'.replace(' ', '')
        if (w.func.fq, detail) in seen:
            continue
        seen.add((w.func.fq, detail))
        res.fail(w.func.fq, detail[:80],
                 f'{w.func.qualname} runs while a statement is compiled or executed and writes `{w.receiver}`: {w.why}. {what}',
                 f'{w.func.module.path}:{getattr(w.node, "lineno", 0)}')
    unknown = [w for w in c.writes if w.lifetime == 'UNKNOWN']
    for w in unknown[:5]:
        res.info(f'unresolved receiver `{w.receiver}` in {w.func.fq}')
    res.unresolved = len(unknown)
    by_fn = {}
    for w in c.writes:
        if w.lifetime not in lifetimes and w.lifetime != 'UNKNOWN':
            by_fn.setdefault(w.func.fq, []).append(w.receiver)
    for fq, recv in sorted(by_fn.items()):
        res.ok({'function': fq, 'writes': recv[:6], 'all_private_to_the_execution': True})
    res.ok({'functions_examined': c.functions_examined, 'writes_classified': len(c.writes),
            'import_only_functions': len(c.import_only)})
    return res


def rule_shared(P) -> RuleResult:
    return _census_rule(P, 'R-SHARED', ('IMPORT', 'CONNECTION'),
                        'State that outlives one execution is shared by every later and every concurrent execution.')


def rule_inputmut(P) -> RuleResult:
    return _census_rule(P, 'R-INPUTMUT', ('INPUT',),
                        'The statement, its parameters and the ledger belong to the caller: executing must not change them.')


# ----------------------------------------------------------------------
# R-ONCEPERROW (C12)



# ----------------------------------------------------------------------
# R-REENTRANT (C08)



# ----------------------------------------------------------------------
# R-FOLDPURE, R-PLACEHOLDER (C09)

def rule_foldpure(P) -> RuleResult:
    res = RuleResult('R-FOLDPURE')
    reg = registry.get(P)
    m = P.module(CO)
    comp = P.cls(CO, 'Compiler')
    from .sx_compiler import fold_cases
    fold_cases(P, res)
    # purity as declared: not pass_row and not pass_context; aggregates impure
    for f in reg.funcs:
        if f.kind == 'function':
            want = not f.pass_row and not f.pass_context
            if f.pure is not want:
                res.fail(f'function:{f.label}', 'foldpure:flag', f'{f.label}: pure={f.pure} but pass_row={f.pass_row}, '
                         f'pass_context={f.pass_context}', loc(f.impl) if f.impl else '')
        elif f.kind == 'aggregator' and f.pure is not False:
            res.fail(f'aggregate:{f.label}', 'foldpure:aggregate', f'aggregate {f.label} must not be folded (pure must be False)')
    # pure functions read nothing but their arguments
    ALLOW = {'today': 'reads the clock; folded once per statement by design'}
    for f in reg.funcs:
        if f.kind != 'function' or not f.pure or f.impl is None:
            continue
        fi = f.impl
        params = set(fi.params)
        free = set()
        for n in ast.walk(fi.node):
            if isinstance(n, ast.Name) and isinstance(n.ctx, ast.Load) and n.id not in params:
                free.add(n.id)
        locs = {n.id for n in ast.walk(fi.node) if isinstance(n, ast.Name) and isinstance(n.ctx, ast.Store)}
        impure = []
        for nm in sorted(free - locs):
            d = fi.module.dotted(ast.Name(id=nm, ctx=ast.Load()))
            if d and d.startswith('beanquery.') and nm in fi.module.assigns and not nm.isupper():
                impure.append(nm)
        calls = {fi.module.dotted(n.func) for n in ast.walk(fi.node) if isinstance(n, ast.Call)}
        clock = {c for c in calls if c and (c.endswith('.today') or c.endswith('.now') or c.startswith('random.') or c.startswith('time.'))}
        if (impure or clock) and f.name not in ALLOW:
            res.fail(f'function:{f.label}', 'foldpure:effect', f'{f.label} is registered pure (foldable) but reads {sorted(impure) + sorted(clock)}',
                     loc(fi))
        else:
            res.ok({'function': f.label, 'pure': True, **({'allowed': ALLOW[f.name]} if f.name in ALLOW and clock else {})})
    return res




# ----------------------------------------------------------------------
# R-TABLECOPY (C13, C20)



# ----------------------------------------------------------------------
# R-SUBQ1D (C08): x IN (subquery) is membership in the subquery's single output column



# ----------------------------------------------------------------------
# R-PARSEFRESH (C06, C19): every parse gives the caller its own tree

def rule_parsefresh(P) -> RuleResult:
    """The syntax tree is mutable and its consumers write into it (the shell stores the default CLOSE date of `.run` in the
    FROM clause); parse() must therefore build a new tree on every call: no memo decorator and no module-level cache on
    parse(), the semantic actions or the AST node constructors, and no write to state that outlives the call."""
    res = RuleResult('R-PARSEFRESH')
    c = _census(P)
    mods = ('beanquery.parser', 'beanquery.parser.ast')
    n = 0
    for m in mods:
        mod = P.modules.get(m)
        if mod is None:
            raise AnalysisError(f'anchor vanished: module {m}')
        for fi in mod.functions.values():
            n += 1
            for d in fi.node.decorator_list:
                e = d.func if isinstance(d, ast.Call) else d
                if fi.module.dotted(e) in effects.MEMO_DECORATORS:
                    res.fail(fi.fq, 'parsefresh:memo', f'`@{unparse(d)}` on {fi.qualname}: the same syntax tree object is handed to every caller '
                             f'that parses the same text, and consumers write into it (the shell sets the default CLOSE date of .run NAME on '
                             f'the FROM clause): a later parse of the identical text is executed with that change', loc(fi))
    for w in c.writes:
        if w.func.module.name in mods and w.lifetime in ('IMPORT', 'CONNECTION') and w.func not in c.import_only:
            res.fail(w.func.fq, f'parsefresh:{w.kind}', f'{w.func.qualname} writes `{w.receiver}` ({w.why}) while parsing: state kept between '
                     f'two parses', f'{w.func.module.path}:{getattr(w.node, "lineno", 0)}')
    if n < 15:
        raise AnalysisError(f'only {n} functions found in the parser front end')
    # the generated parser keeps its tokenizer, stacks and memo tables on the instance: parse() works on a parser object of its own
    from ..symex import Sym as _S, T as _T, Engine as _E, show as _sh
    pm = P.module('beanquery.parser')
    pf = pm.toplevel_funcs.get('parse')
    if not pf:
        raise AnalysisError('anchor vanished: beanquery.parser.parse')
    TEXT = _S('TEXT')
    receivers = []
    configs = []
    altered = []

    def on_call(fn, fv, rc, args, kw, ex, node):
        if str(fn).split('.')[-1] == 'parse' and rc is not None and args[:1] != (TEXT,) and isinstance(rc, _T) and rc.op in ('call', 'new') \
                and str(rc.args[0]).split('.')[-1].endswith('Parser'):
            altered.append(args[0] if args else None)
            receivers.append(rc)
            return _S('TREE')
        if str(fn).split('.')[-1] == 'parse' and rc is not None and args[:1] == (TEXT,):
            receivers.append(rc)
            configs.append((tuple(args[1:]), tuple(kw), rc))
            return _S('TREE')
        return NotImplemented
    for p in _E(P, on_call=on_call, max_depth=1).paths(pf[-1], {pf[-1].params[0]: TEXT}):
        pass
    if not receivers:
        raise AnalysisError('beanquery.parser.parse: the call of the generated parser was not found on terms')
    for rc in receivers:
        fresh = isinstance(rc, _T) and rc.op in ('call', 'new') and str(rc.args[0]).split('.')[-1].endswith('Parser')
        if not fresh:
            res.fail(pf[-1].fq, 'parsefresh:parser', f'parse() runs the statement through `{_sh(rc)[:60]}`, a parser object that outlives the call: '
                     f'the generated parser keeps its tokenizer, stacks and memo tables on the instance, so two statements parsed at the '
                     f'same time (two threads, any connections) corrupt each other', loc(pf[-1]))
    for a in altered:
        res.fail(pf[-1].fq, 'parsefresh:text', f'parse(text) hands the generated parser `{_sh(a)[:60]}` instead of the text it was given: '
                 f'string literals are data (a tab, a blank or a letter case inside quotes is part of the value), and positions in the tree '
                 f'refer to the text the caller holds', loc(pf[-1]))
    # the language parsed is the grammar's: the only thing parse() adds to the generated parser is the semantic actions
    for extra, kw_, rc in configs:
        over = [k for k, _ in kw_ if k not in ('semantics',)] + [f'positional argument {i + 2}' for i in range(len(extra))]
        if isinstance(rc, _T) and rc.op in ('call', 'new'):
            cargs = rc.args[1] if len(rc.args) > 1 else ()
            ckw = rc.args[2] if len(rc.args) > 2 else ()
            over += [f'{k} (parser constructor)' for k, _ in ckw if k not in ('semantics',)] + \
                [f'constructor argument {i + 1}' for i in range(len(cargs))]
        if over:
            res.fail(pf[-1].fq, 'parsefresh:config', f'parse() overrides the configuration the parser was generated with ({", ".join(over)}): '
                     f'white space, comments, keywords, name guard and case folding are part of the grammar (bql.ebnf and its directives); '
                     f'an override makes the shipped parser accept a different language than the grammar describes', loc(pf[-1]))
    if not res.findings:
        res.ok({'modules': list(mods), 'functions_examined': n, 'memoised': 0, 'writes_outliving_a_parse': 0, 'parser_object': 'one per call'})
    return res


# ----------------------------------------------------------------------
# R-PARSELOC (C05): the location a ParseError carries is an offset into the statement text

def rule_parseloc(P) -> RuleResult:
    """parse() on terms with the generated parser failing: the ParseInfo handed to ParseError is built over the tokenizer of the
    failure with pos = the offset of the failure in the whole text (exc.pos) and endpos = pos + 1 - the coordinates every consumer
    (Node.text, the shell's error marker) slices the statement with; a column within the line is an offset only on line one."""
    from ..symex import Sym as _S, T as _T, Engine as _E, Raise as _R, show as _sh, simplify as _simp
    res = RuleResult('R-PARSELOC')
    pm = P.module('beanquery.parser')
    pf = pm.toplevel_funcs.get('parse')
    if not pf:
        raise AnalysisError('anchor vanished: beanquery.parser.parse')
    TEXT = _S('TEXT')
    infos = []

    def on_call(fn, fv, rc, args, kw, ex, node):
        last = str(fn).split('.')[-1]
        if last == 'parse' and rc is not None:
            raise _R('tatsu.exceptions.ParseError', ())
        if last == 'ParseInfo':
            infos.append((tuple(args), tuple(kw)))
            return _T('new', ('ParseInfo', tuple(args), tuple(kw)))
        return NotImplemented
    n = 0
    for p in _E(P, on_call=on_call, max_depth=2).paths(pf[-1], {pf[-1].params[0]: TEXT}):
        n += 1
        if p.outcome != 'raise' or str(p.value[0]).split('.')[-1] != 'ParseError':
            res.fail(pf[-1].fq, 'parseloc:class', f'a syntax error must leave parse() as ParseError; the path ends with {p.outcome} '
                     f'`{_sh(p.value)[:60] if p.outcome != "raise" else p.value[0]}`', loc(pf[-1]))
    if n == 0 or not infos:
        raise AnalysisError('beanquery.parser.parse: the construction of the error location (ParseInfo) was not found on terms')
    EXC = _T('exc', ('tatsu.exceptions.ParseError',))
    pos = _T('attr', (EXC, 'pos'))
    for args, kw in infos:
        fields = dict(zip(('tokenizer', 'rule', 'pos', 'endpos', 'line', 'endline'), args))
        fields.update(dict(kw))
        got_pos, got_end = fields.get('pos'), fields.get('endpos')
        want_end = _simp(_T('bin', ('+', pos, 1)))
        if got_pos != pos or (_simp(got_end) if isinstance(got_end, _T) else got_end) != want_end \
                or fields.get('tokenizer') != _T('attr', (EXC, 'tokenizer')):
            res.fail(pf[-1].fq, 'parseloc:offset', f'the location of a ParseError must be the offset of the failure in the statement text '
                     f'(pos = exc.pos, endpos = exc.pos + 1, over exc.tokenizer); it is built with pos = `{_sh(got_pos)[:50]}`, endpos = '
                     f'`{_sh(got_end)[:50]}`: Node.text and the error marker slice the whole text with these numbers', loc(pf[-1]))
        else:
            res.ok({'function': pf[-1].fq, 'pos': 'exc.pos', 'endpos': 'exc.pos + 1'})
    return res


# ----------------------------------------------------------------------
# R-ROWPURE (C01, C02): evaluating a node on a row leaves no trace on the node

# state an evaluator may keep across rows, confirmed by reading: (class, attribute) -> why it is not row-dependent
ROWPURE_ALLOWED = {
    ('EvalConstantSubquery1D', 'value'): 'the result of an uncorrelated subquery, computed on the first row it is asked for and the same for every row',
}


def rule_rowpure(P) -> RuleResult:
    """The __call__ of every evaluator class (everything below EvalNode except the aggregate protocol, whose per-group state lives in
    the store it is handed) writes nothing to the node: a cell is computed from its row alone, so what one row - or one group - left
    behind can never be read by the next.  From the write census: attribute and item stores, mutator calls and setattr on `self`."""
    res = RuleResult('R-ROWPURE')
    c = _census(P)
    seen = 0
    for m in P.modules.values():
        for ci in m.classes.values():
            try:
                if not P.is_subclass(ci, 'beanquery.query_compile:EvalNode'):
                    continue
            except AnalysisError:
                continue
            call = ci.methods.get('__call__')
            if call is None:
                continue
            seen += 1
            bad = []
            for w in c.writes:
                if w.func is not call or not w.receiver.startswith('self'):
                    continue
                attr = w.receiver.split('.')[1].split('[')[0].split('(')[0] if '.' in w.receiver else ''
                if (ci.name, attr) in ROWPURE_ALLOWED:
                    continue
                bad.append((w, attr))
            if bad:
                w, attr = bad[0]
                res.fail(call.fq, f'rowpure:{attr or w.kind}', f'{ci.name}.__call__ writes `{w.receiver}` while evaluating a row: the node is shared by every '
                         f'row (and every group) of the execution, so a value computed for one row is what a later row is evaluated with',
                         f'{call.module.path}:{getattr(w.node, "lineno", 0)}')
            else:
                res.ok({'evaluator': ci.fq, 'writes_to_the_node_while_evaluating': 0})
    if seen < 12:
        raise AnalysisError(f'only {seen} evaluator classes with __call__ found')
    return res
