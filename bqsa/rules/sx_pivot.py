"""R-PIVOTSHAPE on the term interpreter: the PIVOT BY branch of execute_query interpreted on an abstract result
(concrete column descriptors, opaque rows) for the two naming regimes; obligations over terms and events."""
from __future__ import annotations

from ..symex import Sym, T, SList, Engine, Exec, show, canon, gname, contains
from ..loader import AnalysisError, loc
from ..report import RuleResult
from .sx_exec import loop_events

QX = 'beanquery.query_execute'
Q = Sym('PIVOT_QUERY')
RESULT = Sym('RESULT_ROWS')


def _run(P, fi, ncols, pivots):
    cols = [Sym(f'COLUMN{i}') for i in range(ncols)]
    state = {}

    def on_attr(base, attr, ex):
        if base == Q and attr == 'pivots':
            return SList(list(pivots))
        if base in cols:
            i = cols.index(base)
            if attr == 'name':
                return f'c{i}'
            if attr == 'datatype':
                return Sym(f'DTYPE{i}')
        return NotImplemented

    def on_isinstance(v, c, ex):
        if v == Q:
            return gname(c).endswith('EvalPivot')
        return NotImplemented

    def on_call(fname, fval, recv, args, kwargs, ex, node):
        last = str(fname).split('.')[-1]
        if last == 'execute_select':
            rows = SList(origin=(RESULT, Sym('ROW'), ()))
            state[id(ex)] = (args, rows)
            return T('tuple', (T('tuple', tuple(cols)), rows))
        return NotImplemented
    eng = Engine(P, on_attr=on_attr, on_isinstance=on_isinstance, on_call=on_call)
    paths = eng.paths(fi, {fi.params[0]: Q})
    return eng, cols, paths, state


def _key_of(eng, k, row):
    """The value the key function `k` extracts from `row` (itemgetter or a local function), else None."""
    if isinstance(k, T) and k.op == 'call' and str(k.args[0]).endswith('itemgetter') and len(k.args[1]) == 1 and not k.args[2]:
        return T('item', (row, k.args[1][0]))
    if isinstance(k, T) and k.op in ('lambda', 'func'):
        ex = Exec(eng, [])
        try:
            return ex.apply_closure(k.args[1], (row,), ())
        except Exception:
            return None
    return None


def _subst(c, mapping):
    if c in mapping:
        return mapping[c]
    if isinstance(c, tuple):
        return tuple(_subst(x, mapping) for x in c)
    return c


def _fold(c, colnames):
    """resolve COLUMNi.name to its constant and merge adjacent literal parts of template strings"""
    if isinstance(c, tuple):
        if len(c) == 3 and c[0] == 'attr' and c[2] == 'name' and c[1] in colnames:
            return colnames[c[1]]
        c = tuple(_fold(x, colnames) for x in c)
        if c and c[0] == 'fstr':
            parts = []
            for x in c[1:]:
                if isinstance(x, str) and parts and isinstance(parts[-1], str):
                    parts[-1] += x
                else:
                    parts.append(x)
            return ('fstr', *parts)
    return c


def _foreach(c, colnames):
    """sequence descriptions in one normal form: concat of literal runs and foreach(seq, body) blocks; a comprehension over
    product(A, <enumerated B>) is foreach(A, [element with the B item substituted, for every B item])"""
    if not isinstance(c, tuple) or not c:
        return c
    if c[0] == 'concat':
        parts = []
        for x in c[1]:
            y = _foreach(x, colnames)
            parts.extend(y[1] if isinstance(y, tuple) and y and y[0] == 'concat' else [y])
        return ('concat', tuple(parts))
    if c[0] == 'each' and not c[3] and not c[4]:
        seq, elt = c[1], c[2]
        if isinstance(seq, tuple) and seq[0] == 'call' and str(seq[1]).endswith('product') and len(seq[2]) == 2 and \
                isinstance(seq[2][1], tuple) and seq[2][1] and seq[2][1][0] in ('tuple', 'L'):
            a, b = seq[2]
            items = b[1:] if b[0] == 'tuple' else b[1]
            body = tuple(_fold(_subst(elt, {('elem', seq, (0,)): ('elem', a), ('elem', seq, (1,)): x}), colnames) for x in items)
            return ('foreach', a, (('L', body),))
        return ('foreach', seq, (('L', (_fold(elt, colnames),)),))
    if c[0] == 'foreach':
        seq = c[1]
        if isinstance(seq, tuple) and seq[0] == 'call' and str(seq[1]).endswith('product') and len(seq[2]) == 2 and \
                isinstance(seq[2][1], tuple) and seq[2][1] and seq[2][1][0] in ('tuple', 'L') and \
                all(isinstance(x, tuple) and x and x[0] == 'L' for x in c[2]):
            # an append loop over product(A, <enumerated B>): the same blocks as the comprehension over it
            a, b = seq[2]
            items = b[1:] if b[0] == 'tuple' else b[1]
            body = tuple(_fold(_subst(e, {('elem', seq, (0,)): ('elem', a), ('elem', seq, (1,)): x}), colnames)
                         for x in items for part in c[2] for e in part[1])
            return ('foreach', a, (('L', body),))
        return ('foreach', c[1], tuple(_foreach(x, colnames) for x in c[2]))
    if c[0] == 'L':
        return ('L', tuple(_fold(x, colnames) for x in c[1]))
    return c


def rule_pivotshape_deep(P):
    return rule_pivotshape(P, deep=True)


def rule_pivotshape(P, deep=False) -> RuleResult:
    """deep: 3 to 6 result columns and every ordered pair of distinct pivot columns."""
    res = RuleResult('R-PIVOTSHAPE-DEEP' if deep else 'R-PIVOTSHAPE')
    res.exhaustive = True
    fi = P.func(QX, 'execute_query')
    construct = fi.fq + ':pivot'
    n0 = len(res.findings)

    def fail(detail, msg):
        res.fail(construct, 'pivotshape:' + detail, msg, loc(fi))
    cases = ((4, (2, 0)), (3, (2, 0)), (3, (0, 1)))
    if deep:
        cases = [(n, (a, b)) for n in (3, 4, 5, 6) for a in range(n) for b in range(n) if a != b]
    for ncols, pivots in cases:
        col1, col2 = pivots
        others = [i for i in range(ncols) if i not in pivots]
        nother = len(others)
        eng, cols, paths, state = _run(P, fi, ncols, pivots)
        label = f'{ncols} result columns, PIVOT BY {col1 + 1}, {col2 + 1}'
        nf = len(res.findings)
        for p in paths:
            if p.outcome != 'return' or not (isinstance(p.value, T) and p.value.op == 'tuple' and len(p.value.args) == 2):
                fail('shape', f'{label}: the pivot branch must return (columns, rows); got {p.outcome} `{show(p.value)[:60]}`')
                continue
            st = [v for v in state.values()]
            if not st:
                raise AnalysisError('anchor vanished: the PIVOT branch of execute_query does not run the underlying SELECT')
            args, rows = st[-1]
            if args != (T('attr', (Q, 'query')),):
                fail('source', f'{label}: the pivot is not computed from the underlying SELECT of this very statement: '
                     f'execute_select({", ".join(map(show, args))})')
                continue
            # rows: the list object of this path (state is keyed per Exec; take the one whose id appears in this path's events)
            for a, r in st:
                if any(e[0] in ('mutate', 'loop-begin') and (e[1] == r.id or e[1] is r or contains(e[1], r)) for e in p.events):
                    rows = r
            row = T('elem', (rows,))
            out_cols, out_rows = p.value.args
            # --- keys: sorted distinct values of the second pivot column
            KEYS = None
            want_each = ('each', canon(rows), canon(T('item', (row, col2))), (), True)
            for e in p.events:
                pass
            cands = []

            def find_sorted(v):
                if isinstance(v, T):
                    if v.op == 'call' and v.args[0] == 'sorted' and len(v.args[1]) == 1:
                        cands.append(v)
                    for a in v.args:
                        find_sorted(a)
                elif isinstance(v, tuple):
                    for a in v:
                        find_sorted(a)
                elif isinstance(v, SList):
                    for a in v.items + v.tail:
                        find_sorted(a)
                    if v.origin is not None:
                        find_sorted(v.origin[0])
                        find_sorted(v.origin[1])
            find_sorted(out_cols)
            keyterms = {repr(canon(c)): c for c in cands}
            good = [c for c in keyterms.values() if canon(c.args[1][0]) == want_each and not c.args[2]]
            if not good:
                # which term plays the role: the one whose length scales the datatypes / that is iterated for the names
                lens = []

                def find_len(v):
                    if isinstance(v, T):
                        if v.op == 'call' and v.args[0] == 'len' and len(v.args[1]) == 1:
                            lens.append(v.args[1][0])
                        for a in v.args:
                            find_len(a)
                    elif isinstance(v, tuple):
                        for a in v:
                            find_len(a)
                    elif isinstance(v, SList):
                        for a in v.items + v.tail:
                            find_len(a)
                        if v.origin is not None:
                            find_len(v.origin[0])
                            find_len(v.origin[1])
                find_len(out_cols)
                found = lens[0] if lens else (cands[0] if cands else None)
                fail('keys', f'{label}: one block per *distinct* value of the second pivot column, *ascending*: '
                     f'sorted(set of row[{col2}] for every row); found `{show(found)[:120]}`')
                continue
            KEYS = good[0]
            cK = canon(KEYS)
            # --- names
            lead = f'c{col1}/c{col2}'
            colnames = {canon(cols[i]): f'c{i}' for i in range(ncols)}
            if nother > 1:
                body = tuple(('fstr', ('elem', cK), f'/c{i}') for i in others)
            else:
                body = (('fstr', ('elem', cK)),)
            blocks = ('foreach', cK, (('L', body),))
            want_names = ('concat', (('L', (lead,)), blocks))
            key_only = ('foreach', cK, (('L', (('fstr', ('elem', cK)),)),))
            want_types = ('concat', (('L', (Sym(f'DTYPE{col1}'),)), ('rep', ('L', tuple(Sym(f'DTYPE{i}') for i in others)), ('call', 'len', (cK,), ()))))
            # the columns: tuple(Column(name, datatype) for name, datatype in zip(names, datatypes))
            c = canon(out_cols)
            names_c = types_c = None
            if isinstance(c, tuple) and c[0] == 'call' and c[1] == 'tuple' and len(c[2]) == 1 and c[2][0][0] == 'each':
                _, seq, elt, conds, _s = c[2][0]
                if seq[0] == 'call' and seq[1] == 'zip' and len(seq[2]) == 2 and not conds and \
                        elt == ('call', 'Column', (('elem', seq, (0,)), ('elem', seq, (1,))), ()):
                    names_c, types_c = seq[2]
                    names_c = _foreach(names_c, colnames)
            if names_c is None:
                fail('columns', f'{label}: the result columns must be Column(name, datatype) for the names and datatypes pairwise; '
                     f'found `{show(out_cols)[:140]}`')
                continue
            if names_c != want_names:
                got_lead = names_c[1][0] if names_c[0] == 'concat' and names_c[1] else names_c
                if got_lead != ('L', (lead,)):
                    fail('lead-name', f'{label}: the leading column is named first/second (`{lead}`); found `{got_lead}`')
                elif nother > 1:
                    # the wrong regime or the wrong order of the product
                    if names_c[0] == 'concat' and names_c[1][1:] == (key_only,):
                        fail('names-switch', f'{label}: value/column names apply exactly when more than one column remains; here {nother} '
                             f'remain and the blocks are named by the key alone')
                    else:
                        fail('names-many', f'{label}: with several remaining columns the blocks are named value/column, key-major '
                             f'(product(keys, remaining columns)); found `{names_c[1][1:]}`'[:400])
                else:
                    if names_c[0] == 'concat' and len(names_c[1]) > 1 and names_c[1][1][0] == 'foreach' and names_c[1][1] != key_only:
                        fail('names-switch', f'{label}: with one remaining column each block is named by its key value alone; the '
                             f'value/column regime is applied')
                    else:
                        fail('names-one', f'{label}: with one remaining column each block is named by its key value; found '
                             f'`{names_c[1][1:]}`'[:400])
                continue
            if types_c != want_types:
                fail('datatypes', f"{label}: the leading column keeps the first pivot column's datatype and each of the len(keys) blocks "
                     f"repeats the datatypes of the remaining columns; found `{types_c}`"[:500])
                continue
            # --- rows sorted by the first pivot column, ascending, before grouping
            sorts = [(i, e) for i, e in enumerate(p.events) if e[0] == 'mutate' and e[1] == rows.id and e[2] == 'sort']
            gloops = [(i, e) for i, e in enumerate(p.events) if e[0] == 'loop-begin' and isinstance(e[1], T) and e[1].op == 'call'
                      and str(e[1].args[0]).endswith('groupby')]
            if len(gloops) != 1:
                fail('rows', f'{label}: output rows are the groups of result rows sharing the value of the first pivot column '
                     f'(itertools.groupby); found {len(gloops)} such loops')
                continue
            gi, ge = gloops[0]
            G = ge[1]
            gk = dict(G.args[2]).get('key', G.args[1][1] if len(G.args[1]) > 1 else None)
            if not G.args[1] or G.args[1][0] is not rows or _key_of(eng, gk, row) != T('item', (row, col1)):
                fail('rows', f'{label}: output rows are the groups of result rows sharing the value of the first pivot column; '
                     f'found `{show(G)[:120]}`')
                continue
            if not sorts:
                fail('rows-sorted', f'{label}: rows must be sorted by the first pivot column before they are grouped (groupby only merges '
                     f'adjacent rows)')
                continue
            if len(sorts) > 1 or sorts[0][0] > gi:
                fail('rows-sorted', f'{label}: rows are sorted {"after they were grouped" if sorts[0][0] > gi else "more than once"}')
                continue
            kw = dict(sorts[0][1][4])
            if _key_of(eng, kw.get('key'), row) != T('item', (row, col1)) or kw.get('reverse', False) is not False or sorts[0][1][3]:
                fail('rows-sorted', f'{label}: rows must be sorted ascending by the first pivot column; found sort('
                     f'{", ".join(f"{k}={show(v)}" for k, v in kw.items())})')
                continue
            # --- per group: the output row
            inner = loop_events(p, G)
            field1, group = T('elem', (G, (0,))), T('elem', (G, (1,)))
            grow = T('elem', (group,))
            stores = [e for d, e in inner if e[0] == 'store' and isinstance(e[1], T) and e[1].op == 'slice']
            prods = [e for d, e in inner if e[0] == 'produce' and d == 0]
            if len(stores) != 1 or len(prods) != 1:
                fail('placement', f'{label}: each result row must be placed once into the output row of its group, and each group gives one '
                     f'output row; found {len(stores)} placements, {len(prods)} output rows')
                continue
            outrow = stores[0][1].args[0]
            n_cols = ('call', 'len', (canon(out_cols),), ())
            # the row a group contributes: the list the blocks are stored into, with `lead` cells put in front of it when the row is made
            made = prods[0][2]
            while isinstance(made, T) and made.op == 'call' and made.args[0] in ('tuple', 'list') and len(made.args[1]) == 1 and not made.args[2]:
                made = made.args[1][0]
            if made is outrow or (not isinstance(outrow, SList) and made == outrow):
                lead = 0
            elif isinstance(made, T) and made.op == 'tuple' and len(made.args) == 2 and made.args[0] == field1 and \
                    made.args[1] == T('star', (outrow,)):
                lead = 1
            elif isinstance(made, SList) and len(made.items) == 1 and made.items[0] == field1 and made.tail == [outrow]:
                lead = 1
            elif isinstance(made, T) and made.op == 'bin' and made.args[0] == '+' and canon(made.args[1]) in (('L', (canon(field1),)), ('tuple', canon(field1))) \
                    and made.args[2] == outrow:
                lead = 1
            else:
                fail('rows', f'{label}: each group gives one output row: the first pivot value followed by the blocks; found `{show(prods[0][2])[:100]}`')
                continue
            if not (isinstance(out_rows, SList) and out_rows.id == prods[0][1]):
                fail('rows', f'{label}: the output rows are the rows made for the groups; `{show(prods[0][2])[:60]}` goes elsewhere')
                continue
            slot0 = [e for d, e in inner if e[0] == 'store' and isinstance(e[1], T) and e[1].op == 'item' and e[1].args == (outrow, 0)]
            if lead == 0:
                want_fill = ('concat', (('L', (canon(field1),)), ('rep', ('L', (None,)), ('bin', '-', n_cols, 1))))
                alt_fill = canon(outrow) == ('rep', ('L', (None,)), n_cols) and len(slot0) == 1 and slot0[0][2] == field1
                filled = canon(outrow) == want_fill or alt_fill
            else:
                filled = canon(outrow) == ('rep', ('L', (None,)), ('bin', '-', n_cols, 1)) and not slot0
            if not filled:
                fail('fill', f'{label}: missing combinations are NULL: the output row is the first value followed by NULL in each of the '
                     f'(columns - 1) block cells before the blocks are placed; found `{show(outrow)[:140]}`'
                     + (' behind the first value' if lead else ''))
                continue
            kidx = ('call', f'{show(KEYS)}.index', (canon(T('item', (grow, col2))),), ())
            scaled = kidx if nother == 1 else ('bin', '*', *sorted((kidx, nother), key=repr))       # x * 1 is x on terms
            want_idx = ('bin', '+', *sorted((scaled, 1), key=repr)) if lead == 0 else scaled
            lo, hi = stores[0][1].args[1], stores[0][1].args[2]
            if canon(lo) != want_idx:
                fail('placement', f'{label}: the block of key k starts at cell keys.index(k) * (number of remaining columns) + 1 of the output '
                     f'row; found `{show(lo)[:120]}`' + (' in the list that follows the first value' if lead else ''))
                continue
            want_hi = ('bin', '+', *sorted((want_idx, nother), key=repr))
            if canon(hi) != want_hi:
                fail('placement', f'{label}: a block occupies [index : index + number of remaining columns]; found `[{show(lo)[:60]}:{show(hi)[:80]}]`')
                continue
            if canon(stores[0][2]) != canon(T('tuple', tuple(T('item', (grow, i)) for i in others))):
                fail('placement', f'{label}: a block holds the values of the remaining columns of the row, in order; found `{show(stores[0][2])[:100]}`')
                continue
        if len(res.findings) == nf:
            res.ok({'case': label, 'remaining_columns': nother, 'probes': ['source', 'keys sorted distinct', 'names', 'datatypes', 'sorted before '
                    'grouping', 'grouping by first column', 'NULL fill', 'block placement', 'one row per group']})
    return res


# ----------------------------------------------------------------------
# R-PIVOTFLOW (C15): the compiled pivot is the compiled query plus the two resolved columns, first then second

def rule_pivotflow(P) -> RuleResult:
    """_compile_select on terms, with the clause resolvers stubbed: when PIVOT BY resolves to the columns (i, j) the statement compiles
    to EvalPivot(the compiled query, [i, j]) - the same two positions in the order PIVOT BY names them (the first one labels the rows, the
    second one the column blocks) - and to the plain query when there is no PIVOT BY."""
    res = RuleResult('R-PIVOTFLOW')
    res.exhaustive = True
    comp = P.cls('beanquery.compiler', 'Compiler')
    fi = comp.methods.get('_compile_select')
    if fi is None:
        raise AnalysisError('anchor vanished: Compiler._compile_select')
    SELF, NODE = Sym('COMPILER'), Sym('SELECT')
    FIRST, SECOND = Sym('PIVOT_ROW_COLUMN'), Sym('PIVOT_BLOCK_COLUMN')
    queries = {}
    for with_pivot, ordered in ((True, True), (False, True), (True, False), (False, False)):
        made = []
        qargs = []
        queries[(with_pivot, ordered)] = qargs

        def on_call(fname, fval, recv, args, kwargs, ex, node):
            f = str(fname).split('.')[-1]
            if f == '_compile_from':
                return Sym('C_FROM')
            if f == '_compile_targets':
                return SList([Sym('TARGET1'), Sym('TARGET2'), Sym('TARGET3')])
            if f == '_compile':
                return Sym('C_WHERE')
            if f == 'is_aggregate':
                return False
            if f == '_compile_group_by':
                return T('tuple', (SList([]), SList([0, 1]), None))
            if f == '_compile_order_by':
                return T('tuple', (SList([]), Sym('ORDER_SPEC') if ordered else None))
            if f == '_compile_pivot_by':
                return SList([FIRST, SECOND]) if with_pivot else None
            if f == 'EvalQuery':
                from .sx_compiler import ctor_args
                qargs.append(tuple(list(x.items) if isinstance(x, SList) and not x.opaque_tail else x for x in ctor_args(P, 'EvalQuery', args, kwargs)))
                return T('new', ('EvalQuery', ()))
            if f == 'EvalPivot':
                made.append((tuple(args), tuple(kwargs)))
                return T('new', ('EvalPivot', (len(made) - 1,)))
            return NotImplemented
        def on_attr(base, attr, ex, _wp=with_pivot):
            if attr == 'is_aggregate' and isinstance(base, Sym) and base.name.startswith('TARGET'):
                return base.name == 'TARGET3'
            if base == NODE and attr == 'pivot_by':
                return Sym('PIVOT_BY_CLAUSE') if _wp else None
            return NotImplemented
        n = 0
        for p in Engine(P, on_call=on_call, on_attr=on_attr).paths(fi, {'self': SELF, fi.params[1]: NODE}):
            if p.outcome != 'return':
                continue
            n += 1
            v = p.value
            if not with_pivot:
                if v == T('new', ('EvalQuery', ())):
                    res.ok({'pivot_by': 'absent', 'compiles_to': 'the query'})
                else:
                    res.fail(fi.fq, 'pivotflow:plain', f'without PIVOT BY the statement must compile to the query itself; it gives `{show(v)[:80]}`', loc(fi))
                continue
            if not (isinstance(v, T) and v.op == 'new' and v.args[0] == 'EvalPivot'):
                res.fail(fi.fq, 'pivotflow:node', f'with PIVOT BY the statement must compile to EvalPivot(query, columns); it gives `{show(v)[:80]}`', loc(fi))
                continue
            args, kw = made[v.args[1][0]]
            vals = list(args) + [x for _, x in kw]
            q = [x for x in vals if x == T('new', ('EvalQuery', ()))]
            lists = [x for x in vals if isinstance(x, SList)] + [SList(list(x.args)) for x in vals if isinstance(x, T) and x.op == 'tuple']
            good = len(q) == 1 and len(lists) == 1 and not lists[0].opaque_tail and not lists[0].tail and list(lists[0].items) == [FIRST, SECOND]
            if good:
                res.ok({'pivot_by': 'two resolved columns', 'compiles_to': 'EvalPivot(query, [first, second])'})
            else:
                res.fail(fi.fq, 'pivotflow:columns', f'PIVOT BY resolved to [first, second] must reach EvalPivot as exactly these two positions in '
                         f'this order (the first labels the rows, the second the column blocks); EvalPivot is given '
                         f'`{", ".join(show(x)[:90] for x in vals)}`', loc(fi))
        if n == 0:
            raise AnalysisError(f'{fi.fq}: no returning path on terms')
    # the query that is pivoted is the query the statement is without PIVOT BY: same table, targets, condition, grouping, ORDER BY
    # specification, LIMIT and DISTINCT (ORDER BY and LIMIT decide which rows there are to reshape)
    for ordered in (True, False):
      a, b = queries[(True, ordered)], queries[(False, ordered)]
      if a and b and repr(a[-1]) != repr(b[-1]):
        diff = [i for i, (x, y) in enumerate(zip(a[-1], b[-1])) if repr(x) != repr(y)]
        names = ['table', 'targets', 'condition', 'group indexes', 'HAVING index', 'ORDER BY specification', 'LIMIT', 'DISTINCT']
        res.fail(fi.fq, 'pivotflow:query', f'with PIVOT BY the compiled query differs from the one compiled without it in its '
                 f'{", ".join(names[i] if i < len(names) else "argument " + str(i) for i in diff) or "arguments"}: the pivot reshapes other rows than '
                 f'the un-pivoted statement returns ({"with" if ordered else "without"} ORDER BY)', loc(fi))
      elif a and b:
        res.ok({'pivoted_query': 'the same EvalQuery arguments as without PIVOT BY', 'order_by': 'present' if ordered else 'absent'})
    return res


# ----------------------------------------------------------------------
# R-SELECTNODE (C07): every SELECT compiles to a query node of its own over its own targets

def rule_selectnode(P) -> RuleResult:
    """_compile_select on terms for the barest statement (no FROM expression, no WHERE, GROUP BY, ORDER BY, PIVOT BY; LIMIT and DISTINCT
    left symbolic) and for a full one, on every kind of table (the isinstance tests on self.table fork): every path that accepts the
    statement returns the EvalQuery built here, and that node is given this statement's compiled targets - the objects that carry the
    output names and the visibility of this SELECT, not those of a subquery or of another statement."""
    res = RuleResult('R-SELECTNODE')
    res.exhaustive = True
    comp = P.cls('beanquery.compiler', 'Compiler')
    fi = comp.methods.get('_compile_select')
    if fi is None:
        raise AnalysisError('anchor vanished: Compiler._compile_select')
    SELF, NODE = Sym('COMPILER'), Sym('SELECT')
    TG = [Sym('TARGET1'), Sym('TARGET2')]
    for bare in (True, False):
        made = []

        def on_call(fname, fval, recv, args, kwargs, ex, node):
            f = str(fname).split('.')[-1]
            if f == '_compile_from':
                return None if bare else Sym('C_FROM')
            if f == '_compile_targets':
                return SList(list(TG))
            if f == '_compile':
                return None if bare else Sym('C_WHERE')
            if f == 'is_aggregate':
                return False
            if f == '_compile_group_by':
                return T('tuple', (SList([]), None, None))
            if f == '_compile_order_by':
                return T('tuple', (SList([]), None if bare else Sym('ORDER_SPEC')))
            if f == '_compile_pivot_by':
                return None
            if f == 'EvalQuery':
                made.append([list(a.items) if isinstance(a, SList) and not a.opaque_tail else a for a in list(args) + [v for _, v in kwargs]])
                return T('new', ('EvalQuery', (len(made) - 1,)))
            return NotImplemented

        def on_attr(base, attr, ex):
            if base == NODE and attr in ('pivot_by', 'group_by', 'order_by', 'where_clause'):
                return None
            return NotImplemented
        n = 0
        for p in Engine(P, on_call=on_call, on_attr=on_attr).paths(fi, {'self': SELF, fi.params[1]: NODE}):
            if p.outcome != 'return':
                continue
            n += 1
            v = p.value
            tests = [f'{show(t)[:50]} is {o}' for t, o in p.decisions]
            if isinstance(v, T) and v.op == 'new' and v.args[0] == 'EvalQuery' and TG in made[v.args[1][0]]:
                res.ok({'statement': 'bare SELECT' if bare else 'SELECT with FROM, WHERE, ORDER BY', 'conditions_on_the_path': tests,
                        'compiles_to': 'EvalQuery(..., this statement\'s targets, ...)'})
            else:
                res.fail(fi.fq, 'selectnode:foreign', f'{"a bare SELECT" if bare else "a SELECT"}{" when " + " and ".join(tests) if tests else ""} compiles to '
                         f'`{show(v)[:80]}` instead of a query node over its own compiled targets: the output names, their order and the '
                         f'visibility flags of this SELECT list are not the ones the result is described with', loc(fi))
        if n == 0:
            raise AnalysisError(f'{fi.fq}: no returning path on terms')
    return res
