"""C01 rules on evaluator nodes: R-3VL, R-NULLSTRICT, R-DIVGUARD, R-PROMOTE, R-OPSEM."""
from __future__ import annotations

import ast
import datetime
from decimal import Decimal

from .. import registry, finite
from ..registry import ANY, tname
from ..absint import Interp, Frame, A, TOP, NoneT, Val, Struct, Coll, NodeRef, atoms_of, Obj, Fn
from ..loader import AnalysisError, FuncInfo, ClassInfo, loc, body_without_docstring, is_none
from ..report import RuleResult

QC = 'beanquery.query_compile'


# ----------------------------------------------------------------------
# R-3VL



V = finite.Sym('V')




# ----------------------------------------------------------------------
# R-NULLSTRICT

# Which evaluator classes must be NULL-propagating, and for which operand attributes.
# 'aware' classes implement their own NULL semantics and are checked elsewhere.
NULL_CONTRACT = {
    'EvalUnaryOpSafe': ('strict', ['operand'], 'unary operators other than NOT / IS [NOT] NULL'),
    'EvalBinaryOp': ('strict', ['left', 'right'], 'arithmetic, comparison, match, membership'),
    'EvalBetween': ('strict', ['operand', 'lower', 'upper'], 'BETWEEN'),
    'EvalGetItem': ('strict', ['operand'], 'subscript on a NULL container is NULL'),
    'EvalGetter': ('strict', ['operand'], 'attribute of a NULL structure is NULL'),
    'EvalUnaryOp': ('aware', [], 'base of NOT / IS NULL / IS NOT NULL: receives NULL'),
    'EvalAnd': ('aware', [], 'R-3VL'), 'EvalOr': ('aware', [], 'R-3VL'), 'EvalCoalesce': ('aware', [], 'R-3VL'),
    'EvalConstant': ('leaf', [], ''), 'EvalColumn': ('leaf', [], ''), 'EvalConstantSubquery1D': ('leaf', [], ''),
    'EvalAggregator': ('aware', [], 'R-AGGCLASS'), 'EvalFunction': ('abstract', [], ''), 'EvalNode': ('abstract', [], ''),
}






# ----------------------------------------------------------------------
# R-DIVGUARD

def _operand_syms(fi):
    from ..symex import Sym as _S, T as _T
    # operands are attribute reads of an opaque record: `x is None` stays a term instead of being decided
    return [_T('attr', (_S('OPERANDS'), n)) for n in ('x', 'y', 'z')][:len(fi.params)]


def _zero_oracle(Y, zero):
    """Answers every zero test of the divisor Y (== 0, != 0, truthiness, either operand order) for one case."""
    from ..symex import T as _T

    def is_zero(v):
        return isinstance(v, (int, float)) and not isinstance(v, bool) and v == 0

    def oracle(term, ex):
        if term == Y:
            return not zero
        if isinstance(term, _T) and term.op == 'cmp' and term.args[0] in ('==', '!='):
            l, r = term.args[1], term.args[2]
            if (l == Y and is_zero(r)) or (r == Y and is_zero(l)):
                return zero == (term.args[0] == '==')
        return None
    return oracle


_DIV_CALLS = ('operator.truediv', 'operator.mod', 'operator.floordiv', 'divmod')


def _zero_guarded(P, fi: FuncInfo):
    """-> list of problems, decided on the term interpreter: with a zero divisor (second operand) every path returns NULL and none
    evaluates a division by it; with a non-zero divisor the operation is computed."""
    from ..symex import Engine as _E, show as _sh, contains as _has
    if len(fi.params) < 2:
        return ['implementation does not take two operands']
    ops = _operand_syms(fi)
    Y = ops[1]
    env = dict(zip(fi.params, ops))
    problems = []

    def divisions(p):
        out = [f'{_sh(e[2])} {e[1]} {_sh(e[3])}' for e in p.events if e[0] == 'div' and _has(e[3], Y)]
        out += [f'{e[1]}({", ".join(_sh(a) for a in e[2])})' for e in p.events
                if e[0] == 'call' and e[1] in _DIV_CALLS and len(e[2]) > 1 and _has(e[2][1], Y)]
        return out
    for p in _E(P, oracle=_zero_oracle(Y, True)).paths(fi, dict(env)):
        d = divisions(p)
        if d:
            problems.append(f'`{d[0]}` is evaluated when the divisor is zero: no `divisor == 0 -> NULL` test comes before it')
        elif p.outcome != 'return' or p.value is not None:
            problems.append(f'with a zero divisor the implementation must return NULL; it '
                            f'{"returns " + _sh(p.value)[:50] if p.outcome == "return" else p.outcome}')
    divided = False
    for p in _E(P, oracle=_zero_oracle(Y, False)).paths(fi, dict(env)):
        divided = divided or bool(divisions(p))
    if not divided:
        problems.append('no division/modulo by the second operand found in the implementation')
    return problems


def rule_divguard(P) -> RuleResult:
    res = RuleResult('R-DIVGUARD')
    reg = registry.get(P)
    seen = {}
    n = 0
    for o in reg.ops:
        if o.kind not in ('Div', 'Mod'):
            continue
        n += 1
        if not isinstance(o.impl, FuncInfo):
            res.fail(f'operator:{o.label}', 'unguarded', f'{o.label} is implemented by {o.impl}, which raises on a zero divisor')
            continue
        if o.impl.fq not in seen:
            seen[o.impl.fq] = _zero_guarded(P, o.impl)
        probs = seen[o.impl.fq]
        if probs:
            res.fail(f'operator:{o.label}', 'unguarded', f'{o.label} ({o.impl.name}): {probs[0]}', loc(o.impl))
        else:
            res.ok({'overload': o.label, 'impl': o.impl.name, 'guard': 'divisor == 0 -> NULL'})
    if n == 0:
        raise AnalysisError('anchor vanished: no Div/Mod overloads registered')
    return res


# ----------------------------------------------------------------------
# R-PROMOTE

def rule_promote(P) -> RuleResult:
    res = RuleResult('R-PROMOTE')
    res.exhaustive = True
    reg = registry.get(P)
    by = {}
    for o in reg.ops:
        by.setdefault(o.kind, {})[tuple(o.intypes)] = o
    num = [(int, int), (int, Decimal), (Decimal, int), (Decimal, Decimal)]
    for kind in ('Add', 'Sub', 'Mul', 'Mod', 'Div'):
        for sig in num:
            o = by.get(kind, {}).get(sig)
            label = f'{kind}[{sig[0].__name__},{sig[1].__name__}]'
            if o is None:
                res.fail(f'operator:{label}', 'missing', f'numeric overload {label} is not registered: int/decimal mixes '
                         f'must be accepted and promote')
                continue
            want = Decimal if (kind == 'Div' or Decimal in sig) else int
            if o.outtype is not want:
                res.fail(f'operator:{label}', 'result', f'{label} must announce {want.__name__} '
                         f'({"int/int division is decimal" if kind == "Div" else "int/decimal mixes promote to decimal"}), '
                         f'announces {tname(o.outtype)}', f'{o.cls.info.module.path}:{getattr(o.site, "lineno", 0)}')
            else:
                res.ok({'overload': label, 'announces': want.__name__})
    for kind in ('Equal', 'NotEqual', 'Less', 'LessEq', 'Greater', 'GreaterEq'):
        for sig in num + [(datetime.date, datetime.date), (str, str)]:
            label = f'{kind}[{sig[0].__name__},{sig[1].__name__}]'
            if sig not in by.get(kind, {}):
                res.fail(f'operator:{label}', 'missing', f'comparison overload {label} is not registered')
            else:
                res.ok({'overload': label})
    for o in reg.ops:
        if o.kind in ('Equal', 'NotEqual', 'Less', 'LessEq', 'Greater', 'GreaterEq', 'Between', 'Match', 'NotMatch',
                      'In', 'NotIn', 'Not', 'IsNull', 'IsNotNull'):
            if o.outtype is not bool:
                res.fail(f'operator:{o.label}', 'result', f'{o.label} must announce bool, announces {tname(o.outtype)}')
            else:
                res.ok({'overload': o.label, 'announces': 'bool'})
    for kind in ('Neg',):
        for t in (int, Decimal):
            o = by.get(kind, {}).get((t,))
            if o is None:
                res.fail(f'operator:{kind}[{t.__name__}]', 'missing', f'{kind}[{t.__name__}] is not registered')
            elif o.outtype is not t:
                res.fail(f'operator:{kind}[{t.__name__}]', 'result', f'-{t.__name__} must announce {t.__name__}')
            else:
                res.ok({'overload': o.label, 'announces': t.__name__})
    return res


# ----------------------------------------------------------------------
# R-OPSEM: each operator kind applies the Python operation of its name to its operands in order



def _search_flags(P, fi: FuncInfo):
    """The options (third argument / flags=) of the re.search / re.match / re.fullmatch calls an operator implementation makes, as text."""
    from ..symex import Engine as _E, T as _T, show as _sh
    ops = _operand_syms(fi)
    seen = []

    def on_call(fn, fv, rc, a, k, ex, nd):
        d = str(fn)
        if d.split('.')[0] == 're' and d.split('.')[-1] in ('search', 'match', 'fullmatch', 'compile', 'findall', 'finditer'):
            fl = a[2] if len(a) > 2 and d.split('.')[-1] != 'compile' else a[1] if len(a) > 1 and d.split('.')[-1] == 'compile' else dict(k).get('flags')
            seen.append((d.split('.')[-1] if d.split('.')[-1] != 'compile' else 'search', _sh(fl) if fl is not None else ''))
        return NotImplemented
    for _p in _E(P, on_call=on_call).paths(fi, dict(zip(fi.params, ops))):
        pass
    return sorted(set(seen))


def _term(P, fi: FuncInfo, kind=None):
    """Result term of an operator implementation, computed on the term interpreter for non-NULL operands (and a non-zero divisor):
    every path must return the same term.  -> old tuple form, or None when the paths disagree / the shape is not understood."""
    from ..symex import Engine as _E
    ops = _operand_syms(fi)
    env = dict(zip(fi.params, ops))
    oracle = _zero_oracle(ops[1], False) if len(ops) > 1 and kind in ('Div', 'Mod') else None
    vals = []
    for p in _E(P, oracle=oracle).paths(fi, dict(env)):
        if p.outcome != 'return' or p.decisions:
            return None
        v = _from_sx(p.value, ops)
        if v not in vals:
            vals.append(v)
    return vals[0] if len(vals) == 1 else None


def _terms(P, fi: FuncInfo, kind=None):
    """[(condition text, result term)] for every returning path of an operator implementation (non-NULL operands, non-zero divisor)."""
    from ..symex import Engine as _E, show as _sh
    ops = _operand_syms(fi)
    env = dict(zip(fi.params, ops))
    oracle = _zero_oracle(ops[1], False) if len(ops) > 1 and kind in ('Div', 'Mod') else None
    out = []
    for p in _E(P, oracle=oracle).paths(fi, dict(env)):
        if p.outcome != 'return':
            continue
        cond = ' and '.join(f'{_sh(t)[:50]} is {o}' for t, o in p.decisions)
        out.append((cond, _from_sx(p.value, ops)))
    return out


def _from_sx(v, ops):
    """symex term -> the tuple form `_expected_terms` is written in."""
    from ..symex import T as _T, Sym as _S
    if v in ops:
        return ('p', ops.index(v))
    if v is None or isinstance(v, (bool, int, str, float)):
        return ('const', v)
    f = lambda x: _from_sx(x, ops)
    if isinstance(v, _T):
        a = v.args
        if v.op == 'bin':
            return ('bin', a[0], f(a[1]), f(a[2]))
        if v.op == 'cmp':
            l, r = f(a[1]), f(a[2])
            # `re.search(..) is not None` is the truth of the match object
            if a[0] in ('is not', 'is') and r == ('const', None) and l[0] == 're.search':
                return ('truth', l) if a[0] == 'is not' else ('not', ('truth', l))
            return ('bin', a[0], l, r)
        if v.op == 'neg':
            return ('neg', f(a[0]))
        if v.op == 'not':
            return ('not', f(a[0]))
        if v.op == 'attr':
            return ('attr', f(a[0]), a[1])
        if v.op == 'global':
            return ('name', a[0])
        if v.op == 'call':
            d, args, kws = a[0], [f(x) for x in a[1]], tuple(sorted((k, f(x)) for k, x in a[2]))
            if d in _OPERATOR_MODULE and len(args) == 2:
                return ('bin', _OPERATOR_MODULE[d], args[0], args[1])
            if d == 'operator.contains' and len(args) == 2:
                return ('bin', 'in', args[1], args[0])
            if d == 'operator.neg' and len(args) == 1:
                return ('neg', args[0])
            if d == 'operator.not_' and len(args) == 1:
                return ('not', args[0])
            if d == 'bool' and len(args) == 1:
                return ('truth', args[0])
            if d == 're.search' and len(args) >= 2:
                return ('re.search', args[0], args[1])      # flags are not constrained
            if d == 'datetime.timedelta' and not args and len(kws) == 1 and kws[0][0] == 'days':
                return ('days', kws[0][1])
            if d in ('Decimal', 'decimal.Decimal') and len(args) == 1:
                return ('Decimal', args[0])
            return ('call', d if isinstance(d, str) else repr(d), tuple(args), kws)
    return ('expr', repr(v))


_OPNAMES = {ast.Add: '+', ast.Sub: '-', ast.Mult: '*', ast.Div: '/', ast.Mod: '%', ast.FloorDiv: '//'}
_CMPNAMES = {ast.Eq: '==', ast.NotEq: '!=', ast.Lt: '<', ast.LtE: '<=', ast.Gt: '>', ast.GtE: '>=', ast.Is: 'is',
             ast.IsNot: 'is not', ast.In: 'in', ast.NotIn: 'not in'}
_OPERATOR_MODULE = {
    'operator.add': '+', 'operator.sub': '-', 'operator.mul': '*', 'operator.truediv': '/', 'operator.mod': '%',
    'operator.eq': '==', 'operator.ne': '!=', 'operator.lt': '<', 'operator.le': '<=', 'operator.gt': '>',
    'operator.ge': '>=',
}


def _tx(e, env, fi):
    if isinstance(e, ast.Name):
        return env.get(e.id, ('name', e.id))
    if isinstance(e, ast.Constant):
        return ('const', e.value)
    if isinstance(e, ast.BinOp) and type(e.op) in _OPNAMES:
        return ('bin', _OPNAMES[type(e.op)], _tx(e.left, env, fi), _tx(e.right, env, fi))
    if isinstance(e, ast.UnaryOp):
        if isinstance(e.op, ast.USub):
            return ('neg', _tx(e.operand, env, fi))
        if isinstance(e.op, ast.Not):
            return ('not', _tx(e.operand, env, fi))
    if isinstance(e, ast.Compare):
        if len(e.ops) == 1:
            return ('bin', _CMPNAMES[type(e.ops[0])], _tx(e.left, env, fi), _tx(e.comparators[0], env, fi))
        return ('chain', tuple(_CMPNAMES[type(o)] for o in e.ops),
                tuple(_tx(x, env, fi) for x in [e.left] + list(e.comparators)))
    if isinstance(e, ast.Attribute):
        return ('attr', _tx(e.value, env, fi), e.attr)
    if isinstance(e, ast.Call):
        d = fi.module.dotted(e.func) if not (isinstance(e.func, ast.Name) and e.func.id in env) else None
        args = [_tx(a, env, fi) for a in e.args]
        kws = tuple(sorted((k.arg, _tx(k.value, env, fi)) for k in e.keywords))
        if d in _OPERATOR_MODULE and len(args) == 2:
            return ('bin', _OPERATOR_MODULE[d], args[0], args[1])
        if d == 'operator.contains' and len(args) == 2:
            return ('bin', 'in', args[1], args[0])
        if d == 'operator.neg':
            return ('neg', args[0])
        if d == 'operator.not_':
            return ('not', args[0])
        if d == 'builtins.bool' and len(args) == 1:
            return ('truth', args[0])
        if d == 're.search':
            return ('re.search', args[0], args[1])      # flags are not constrained
        if d == 'datetime.timedelta' and not args and len(kws) == 1 and kws[0][0] == 'days':
            return ('days', kws[0][1])
        if d == 'decimal.Decimal' and len(args) == 1:
            return ('Decimal', args[0])
        return ('call', d or ast.unparse(e.func), tuple(args), kws)
    return ('expr', ast.unparse(e))


def _external_term(dotted, nparams):
    p = [('p', i) for i in range(nparams)]
    if dotted in _OPERATOR_MODULE:
        return ('bin', _OPERATOR_MODULE[dotted], p[0], p[1])
    if dotted == 'operator.not_':
        return ('not', p[0])
    if dotted == 'operator.neg':
        return ('neg', p[0])
    if dotted == 'operator.contains':
        return ('bin', 'in', p[1], p[0])
    return ('call', dotted, tuple(p), ())


P0, P1 = ('p', 0), ('p', 1)


def _expected_terms(o):
    """Accepted canonical terms for an overload, derived from the operator's *name* and operand types."""
    k = o.kind
    t = tuple(o.intypes)
    isdate = lambda x: x is datetime.date
    arith = {'Add': '+', 'Sub': '-', 'Mul': '*', 'Div': '/', 'Mod': '%'}
    cmp_ = {'Equal': '==', 'NotEqual': '!=', 'Less': '<', 'LessEq': '<=', 'Greater': '>', 'GreaterEq': '>='}
    if k in arith:
        sym = arith[k]
        if k == 'Add' and t == (datetime.date, int):
            return [('bin', '+', P0, ('days', P1)), ('bin', '+', ('days', P1), P0)]
        if k == 'Add' and t == (int, datetime.date):
            return [('bin', '+', P1, ('days', P0)), ('bin', '+', ('days', P0), P1)]
        if k == 'Sub' and t == (datetime.date, int):
            return [('bin', '-', P0, ('days', P1))]
        if k == 'Sub' and t == (datetime.date, datetime.date):
            return [('attr', ('bin', '-', P0, P1), 'days')]
        if k == 'Div' and t == (int, int):
            return [('bin', '/', ('Decimal', P0), P1), ('bin', '/', P0, ('Decimal', P1)),
                    ('bin', '/', ('Decimal', P0), ('Decimal', P1))]
        out = [('bin', sym, P0, P1)]
        if k == 'Add' and relativedelta_in(t):
            out.append(('bin', '+', P1, P0))   # date + interval commutes
        return out
    if k in cmp_:
        return [('bin', cmp_[k], P0, P1)]
    if k == 'Neg':
        return [('neg', P0)]
    if k == 'Not':
        return [('not', P0)]
    if k == 'IsNull':
        return [('bin', 'is', P0, ('const', None))]
    if k == 'IsNotNull':
        return [('bin', 'is not', P0, ('const', None))]
    if k == 'In':
        return [('bin', 'in', P0, P1)]
    if k == 'NotIn':
        return [('not', ('bin', 'in', P0, P1)), ('bin', 'not in', P0, P1)]
    if k == 'Match':
        return [('truth', ('re.search', P1, P0))]
    if k == 'NotMatch':
        return [('not', ('truth', ('re.search', P1, P0))), ('not', ('re.search', P1, P0))]
    return None


def relativedelta_in(t):
    return any(getattr(x, '__name__', '') == 'relativedelta' for x in t)


def rule_opsem(P) -> RuleResult:
    res = RuleResult('R-OPSEM')
    res.exhaustive = True
    reg = registry.get(P)
    for o in reg.ops:
        construct = f'operator:{o.label}'
        where = f'{o.cls.info.module.path}:{getattr(o.site, "lineno", 0)}'
        if o.kind == 'Between':
            continue
        exp = _expected_terms(o)
        if exp is None:
            res.info(f'new-instance: operator kind {o.kind} has no semantics on record')
            continue
        if isinstance(o.impl, FuncInfo):
            term = _term(P, o.impl, o.kind)
            where = loc(o.impl)
        elif isinstance(o.impl, str):
            term = _external_term(o.impl, len(o.intypes))
        else:
            term = None
        if term is None and isinstance(o.impl, FuncInfo):
            # the paths of the implementation disagree (a fast path, a special case): each of them must compute the operation
            alts = _terms(P, o.impl, o.kind)
            if alts and all(t[0] != 'expr' for _, t in alts):
                wrong = [(c, t) for c, t in alts if t not in exp]
                if wrong:
                    res.fail(construct, 'operation', f'{o.label} must compute {_show(exp[0])} for all operands; when {wrong[0][0] or "(always)"} its '
                             f'implementation computes {_show(wrong[0][1])}', where)
                else:
                    res.ok({'overload': o.label, 'paths': len(alts), 'every_path': _show(exp[0])})
                continue
        if term is None:
            res.unresolved += 1
            res.info(f'{o.label}: implementation shape not understood (not judged)')
            continue
        if term in exp:
            res.ok({'overload': o.label, 'term': repr(term)})
        else:
            res.fail(construct, 'operation',
                     f'{o.label} must compute {_show(exp[0])} but its implementation computes {_show(term)}', where)
    # `x !~ y` is the negation of `x ~ y`: both search with the same options (the terms above leave the flags open)
    flags = {}
    for o in reg.ops:
        if o.kind in ('Match', 'NotMatch') and isinstance(o.impl, FuncInfo):
            flags.setdefault(tuple(getattr(t, '__name__', str(t)) for t in o.intypes), {})[o.kind] = (_search_flags(P, o.impl), o)
    for types_, d in sorted(flags.items()):
        if 'Match' in d and 'NotMatch' in d:
            (f1, o1), (f2, o2) = d['Match'], d['NotMatch']
            if f1 != f2:
                res.fail(f'operator:{o2.label}', 'operation:flags', f'`~` searches with the options {f1 or "(none)"} and `!~` with {f2 or "(none)"}: '
                         f'`x !~ y` is no longer NOT (x ~ y) - a pattern that matches only under one of them makes both TRUE or both FALSE',
                         loc(o2.impl))
            else:
                res.ok({'siblings': [o1.label, o2.label], 'search_options': f1 or '(none)', 'agree': True})
    # BETWEEN: lower <= operand <= upper, both bounds inclusive
    ci = P.cls(QC, 'EvalBetween')
    call = ci.methods.get('__call__')
    if call is None:
        raise AnalysisError('anchor vanished: EvalBetween.__call__')
    from ..symex import Sym as _S, T as _T, Engine as _E, show as _sh
    SELF_, CTXT = _S('NODE'), _S('ROW')
    V = {'operand': _S('OPERAND'), 'lower': _S('LOWER'), 'upper': _S('UPPER')}

    def on_call(fn, fv, rc, a, k, ex, nd):
        if isinstance(fv, _T) and fv.op == 'attr' and fv.args[0] == SELF_ and fv.args[1] in V and a == (CTXT,):
            return V[fv.args[1]]
        return NotImplemented
    seen_cmps = []

    def oracle(term, ex):
        if isinstance(term, _T) and term.op == 'cmp' and term.args[0] in ('<=', '>=', '<', '>') and \
                isinstance(term.args[1], _S) and isinstance(term.args[2], _S):
            seen_cmps.append(term)
            return True
        return None
    good = False
    shown = None
    for p in _E(P, on_call=on_call, oracle=oracle).paths(call, {'self': SELF_, call.params[1]: CTXT}):
        if p.outcome != 'return' or p.decisions:
            shown = f'{p.outcome} under {[_sh(t) for t, _ in p.decisions]}'
            continue
        cmps = list(seen_cmps)
        if isinstance(p.value, _T) and p.value.op == 'cmp':
            cmps.append(p.value)
        norm = set()
        for c in cmps:
            op, l, r = c.args
            if op in ('>=', '>'):
                l, r = r, l
                op = '<=' if op == '>=' else '<'
            norm.add((op, l, r))
        shown = ' and '.join(sorted(f'{_sh(l)} {op} {_sh(r)}' for op, l, r in norm))
        if norm == {('<=', V['lower'], V['operand']), ('<=', V['operand'], V['upper'])} and (p.value is True or (isinstance(p.value, _T) and p.value.op == 'cmp')):
            good = True
    if good:
        res.ok({'overload': 'Between (10 overloads)', 'term': 'LOWER <= OPERAND and OPERAND <= UPPER'})
    else:
        res.fail(ci.fq + '.__call__', 'operation',
                 f'BETWEEN must compute lower <= operand <= upper (both bounds inclusive) on non-NULL operands, computes {shown}', loc(call))
    return res




def _show(t):
    if not isinstance(t, tuple):
        return repr(t)
    k = t[0]
    if k == 'p':
        return 'xy'[t[1]] if t[1] < 2 else f'p{t[1]}'
    if k == 'const':
        return repr(t[1])
    if k == 'bin':
        return f'({_show(t[2])} {t[1]} {_show(t[3])})'
    if k == 'neg':
        return f'-{_show(t[1])}'
    if k == 'not':
        return f'not {_show(t[1])}'
    if k == 'attr':
        return f'{_show(t[1])}.{t[2]}'
    if k == 'days':
        return f'timedelta(days={_show(t[1])})'
    if k == 'Decimal':
        return f'Decimal({_show(t[1])})'
    if k == 'truth':
        return f'bool({_show(t[1])})'
    if k == 're.search':
        return f're.search(pattern={_show(t[1])}, string={_show(t[2])})'
    if k == 'slot':
        return t[1]
    if k == 'chain':
        s = _show(t[2][0])
        for op, x in zip(t[1], t[2][1:]):
            s += f' {op} {_show(x)}'
        return s
    if k == 'call':
        return f'{t[1]}({", ".join(_show(a) for a in t[2])})'
    return repr(t)


# ----------------------------------------------------------------------
# NULL truth table of the NULL-propagating nodes (part of R-NULLSTRICT)





