"""C11: ledger tables.  R-ACCESSPATH, R-ROWGEN, R-TABLEFIELDS, R-METAREWRITE."""
from __future__ import annotations

import ast
import json
import os
import re

from .. import registry, finite
from ..registry import tname
from ..loader import AnalysisError, FuncInfo, ClassInfo, loc, body_without_docstring, is_none
from ..report import RuleResult, VERIF
from .executor import Tracer

QE = 'beanquery.query_env'
SB = 'beanquery.sources.beancount'
CO = 'beanquery.compiler'


def unparse(n):
    return ast.unparse(n)


def access_summary(fi: FuncInfo):
    """Access paths rooted at the row context that flow into the returned values, and the callables applied.

    Locals are inlined (single assignment), so temporaries and renames do not matter.
    """
    ctx = fi.params[0]
    env = {}
    paths, calls, keys = set(), set(), set()

    class Inline(ast.NodeTransformer):
        def visit_Name(self, n):
            if isinstance(n.ctx, ast.Load) and n.id in env:
                return env[n.id]
            return n

    def collect(e):
        for n in ast.walk(e):
            if isinstance(n, ast.Attribute):
                chain = []
                x = n
                while isinstance(x, ast.Attribute):
                    chain.append(x.attr)
                    x = x.value
                if isinstance(x, ast.Name) and x.id == ctx:
                    paths.add('.'.join([ctx] + list(reversed(chain))).replace(ctx, 'row', 1))
            if isinstance(n, ast.Subscript) and isinstance(n.slice, ast.Constant):
                keys.add(f'{unparse(n.value).replace(ctx, "row", 1)}[{n.slice.value!r}]')
            if isinstance(n, ast.Call):
                f = n.func
                d = fi.module.dotted(f) if not isinstance(f, ast.Attribute) or isinstance(f.value, ast.Name) else None
                if isinstance(f, ast.Attribute) and not (d and not d.startswith('builtins.')):
                    calls.add('.' + f.attr)
                elif d:
                    calls.add(d.replace('builtins.', ''))
    stmts = body_without_docstring(fi.node)
    import copy

    def do(body):
        for st in body:
            if isinstance(st, ast.Assign) and len(st.targets) == 1 and isinstance(st.targets[0], ast.Name):
                env[st.targets[0].id] = Inline().visit(copy.deepcopy(st.value))
            elif isinstance(st, ast.Return) and st.value is not None:
                collect(Inline().visit(copy.deepcopy(st.value)))
            elif isinstance(st, ast.If):
                collect(Inline().visit(copy.deepcopy(st.test)))
                do(st.body)
                do(st.orelse)
            elif isinstance(st, ast.Expr):
                collect(Inline().visit(copy.deepcopy(st.value)))
            elif isinstance(st, ast.Assign):
                collect(Inline().visit(copy.deepcopy(st.value)))
                for t in st.targets:
                    collect(t)
    do(stmts)
    # only maximal paths: row.posting.units.number subsumes row.posting.units
    maximal = sorted(p for p in paths if not any(q != p and q.startswith(p + '.') for q in paths))
    return {'paths': maximal, 'calls': sorted(calls), 'keys': sorted(keys)}


def rule_accesspath(P) -> RuleResult:
    res = RuleResult('R-ACCESSPATH')
    res.exhaustive = True
    reg = registry.get(P)
    with open(os.path.join(VERIF, 'tables', 'access_paths.json'), encoding='utf-8') as f:
        table = json.load(f)
    n = 0
    for fq in ('beanquery.query_env:EntriesTable', 'beanquery.query_env:PostingsTable'):
        cols = reg.tables.get(fq)
        if cols is None:
            raise AnalysisError(f'anchor vanished: {fq}')
        tn = reg.table_info[fq].name
        for name, c in cols.items():
            if c.kind != 'func':
                continue
            n += 1
            from .sx_tables import access_summary as term_summary
            got = term_summary(P, c.impl)
            key = f'{tn}.{name}'
            # a column inherited by the postings table from the entries table has the entries accessor
            want = table.get(key) or (table.get(f'EntriesTable.{name}') if c.impl.module.classes.get('PostingsTable') and
                                      c.impl.node.lineno < c.impl.module.classes['PostingsTable'].node.lineno else None)
            construct = f'column:{key}'
            if want is None:
                # default rule for new columns: the value is the attribute named like the column
                if any(p.split('.')[-1] == name for p in got['paths']):
                    res.info(f'new-instance: column {key} reads {got["paths"]} (default rule: attribute named like the column)')
                    res.ok({'column': key, 'default_rule': True, **got})
                else:
                    res.info(f'new-instance: column {key} has no access path on record and does not read an attribute of its name '
                             f'(not judged)')
                continue
            diffs = []
            for k in ('paths', 'calls', 'keys'):
                if sorted(want.get(k, [])) != got[k]:
                    diffs.append(f'{k}: reads {got[k]}, the column is defined as {sorted(want.get(k, []))}')
            if 'call_consts' in want and sorted(want['call_consts']) != got['call_consts']:
                diffs.append(f'options fixed in the calls it makes: now {got["call_consts"] or "none"}, on record '
                             f'{sorted(want["call_consts"]) or "none"}')
            if 'consts' in want and sorted(want['consts']) != got['consts']:
                diffs.append(f'values not read from the ledger: it can give {got["consts"] or "none"}, the column is defined with '
                             f'{sorted(want["consts"]) or "none"} (NULL where the ledger has nothing, never a made-up value)')
            if diffs:
                res.fail(construct, 'accesspath', f'column `{name}` of {tn} ({want["meaning"]}) no longer presents that attribute: '
                         + '; '.join(diffs), loc(c.impl))
            else:
                res.ok({'column': key, **got})
    if n < 35:
        raise AnalysisError(f'only {n} column accessors found')
    return res


# ----------------------------------------------------------------------
# R-ROWGEN





# ----------------------------------------------------------------------
# R-TABLEFIELDS

PLURALS = {'transactions': 'Transaction', 'prices': 'Price', 'balances': 'Balance', 'notes': 'Note', 'events': 'Event',
           'documents': 'Document'}


def rule_tablefields(P) -> RuleResult:
    import typing
    from beancount.core import data
    res = RuleResult('R-TABLEFIELDS')
    res.exhaustive = True
    reg = registry.get(P)
    sb = P.module(SB)
    names = reg.table_by_name()
    for tn, rec_name in PLURALS.items():
        fq = names.get(tn)
        if fq is None:
            res.fail(f'{SB}:table[{tn}]', 'tablefields:missing', f'there is no table named `{tn}`')
            continue
        ci = reg.table_info[fq]
        dt = ci.attrs.get('datatype')
        want = getattr(data, rec_name)
        got = reg.tok(ci.module, dt) if dt is not None else None
        construct = ci.fq
        if got is not want:
            res.fail(construct, 'tablefields:datatype', f'table `{tn}` must present {rec_name} directives; its datatype is {tname(got)}', loc(ci))
            continue
        rec = reg.record_of.get(fq)
        if rec is not want:
            res.fail(construct, 'tablefields:columns-from', f'the columns of `{tn}` are derived from {tname(rec)}, not from {rec_name}', loc(ci))
            continue
        fields = set(typing.get_type_hints(want))
        for cname, c in reg.tables[fq].items():
            if c.kind != 'getattr' or c.impl not in fields:
                res.fail(construct, f'tablefields:field:{cname}', f'column `{cname}` of `{tn}` reads `{c.impl}`, which is not a field of {rec_name}', loc(ci))
        covered = {c.impl for c in reg.tables[fq].values()}
        missing = fields - covered - ({'postings'} if tn == 'transactions' else set())
        if missing:
            res.fail(construct, 'tablefields:coverage', f'`{tn}` does not present field(s) {sorted(missing)} of {rec_name}', loc(ci))
        else:
            res.ok({'table': tn, 'datatype': rec_name, 'columns': list(reg.tables[fq])})
    # the derivation: the accessor reads the *field* name, the column is registered under the (renamed) column name
    f = sb.toplevel_funcs.get('_typed_namedtuple_to_columns')
    if not f:
        raise AnalysisError('anchor vanished: _typed_namedtuple_to_columns')
    fi = f[-1]
    from .sx_tables import derivation_cases
    derivation_cases(P, fi, res)
    # accounts table: column index <-> position in the row tuple
    acc = sb.classes.get('AccountsTable')
    fq = acc.fq if acc else None
    if fq in reg.tables:
        cols = reg.tables[fq]
        want_idx = {'account': 0, 'open': 1, 'close': 2}
        it = acc.methods.get('__iter__')
        good_iter = False
        if it is not None:
            from ..symex import Sym as _S, T as _T, SList as _SL, Engine as _E

            def nrm(t):
                # value[k] of a loop element and an unpacked component are the same thing
                if isinstance(t, _T) and t.op == 'item' and isinstance(t.args[0], _T) and t.args[0].op == 'elem' and type(t.args[1]) is int:
                    b = t.args[0]
                    path = (b.args[1] if len(b.args) > 1 and b.args[1] is not None else ()) + (t.args[1],)
                    return _T('elem', (b.args[0], path))
                if isinstance(t, _T):
                    return _T(t.op, tuple(nrm(a) if isinstance(a, _T) else a for a in t.args))
                return t
            TBL = _S('ACCOUNTS_TABLE')
            for p_ in _E(P).paths(it, {'self': TBL}):
                v = p_.value
                while isinstance(v, _T) and v.op == 'call' and v.args[0] in ('iter', 'list', 'tuple') and len(v.args[1]) == 1:
                    v = v.args[1][0]
                rowterm = seqterm = None
                if isinstance(v, _SL) and v.origin is not None and not v.origin[2]:
                    seqterm, rowterm = v.origin[0], v.origin[1]
                else:
                    ys = [e for e in p_.events if e[0] == 'yield']
                    lb = [e for e in p_.events if e[0] == 'loop-begin']
                    if len(ys) == 1 and len(lb) == 1:
                        seqterm, rowterm = lb[0][1], ys[0][1]
                if seqterm == _T('call', (f'{TBL.name}.accounts.items', (), ())) and rowterm is not None:
                    want_row = _T('tuple', (_T('elem', (seqterm, (0,))), _T('elem', (seqterm, (1, 0))), _T('elem', (seqterm, (1, 1)))))
                    good_iter = nrm(rowterm) == want_row
        for cname, idx in want_idx.items():
            c = cols.get(cname)
            if c is None or c.kind != 'getitem' or c.impl != idx:
                res.fail(acc.fq, f'tablefields:accounts:{cname}', f'#accounts.{cname} must read element {idx} of the row (name, open, close)', loc(acc))
        if not good_iter:
            res.fail(acc.fq + '.__iter__', 'tablefields:accounts-row', 'accounts rows are (name, open directive, close directive), in this order', loc(acc))
        else:
            res.ok({'table': 'accounts', 'row': '(name, open, close)', 'columns': {k: v.impl for k, v in cols.items()}})
    # every table class is registered
    declared = [c for c in list(sb.classes.values()) + list(P.module(QE).classes.values())
                if c.parent is None and 'name' in c.attrs and isinstance(c.attrs['name'], ast.Constant) and c.attrs['name'].value
                and P.is_subclass(c, 'beanquery.tables:Table')]
    for c in declared:
        if c.fq not in reg.table_list:
            res.fail(c.fq, 'tablefields:unregistered', f'table class {c.name} is not in TABLES: `#{c.attrs["name"].value}` does not exist for users', loc(c))
        else:
            res.ok({'registered': c.name})
    # structured type aliases
    for py, sfq in reg.aliases.items():
        rec = reg.record_of.get(sfq)
        if rec is not py:
            res.fail(sfq, 'tablefields:alias', f'attribute access on {py.__name__} values uses a structure derived from {tname(rec)}')
        else:
            res.ok({'alias': py.__name__, 'structure': sfq})
    return res


# ----------------------------------------------------------------------
# R-METAREWRITE

def rule_metarewrite(P) -> RuleResult:
    res = RuleResult('R-METAREWRITE')
    # meta()/entry_meta()/any_meta(): decided on the paths of Compiler._function
    from .sx_compiler import rewrite_cases
    rewrite_cases(P, res)
    # getitem(container, key[, default]): the stored value when the key is present - whatever it is, including 0, '' and
    # FALSE - else the default (NULL without one); a NULL container gives NULL
    qe0 = P.module(QE)
    V, Z, D = finite.Sym('STORED'), finite.Falsy('STORED0'), finite.Sym('DEFAULT')
    for cname, has_default in (('GetItem2', False), ('GetItem3', True)):
        ci = qe0.classes.get(cname)
        call = ci.methods.get('__call__') if ci else None
        if call is None:
            raise AnalysisError(f'anchor vanished: {cname}.__call__')
        okc = True
        for present, stored, container_null in ((True, V, False), (True, Z, False), (True, None, False), (False, None, False), (False, None, True)):
            ops = {}

            def callh(e, st, m, _p=present, _s=stored, _cn=container_null):
                f = unparse(e.func)
                if isinstance(e.func, ast.Name) and e.func.id in st and isinstance(st[e.func.id], finite.Sym) \
                        and st[e.func.id].name.startswith('OP'):
                    return {'OP0': None if _cn else finite.Sym('CONTAINER'), 'OP1': finite.Sym('KEY'), 'OP2': D}[st[e.func.id].name]
                # the lookup method bound to a local first: `lookup = obj.get` ... `lookup(key)`
                bound = st.get(e.func.id) if isinstance(e.func, ast.Name) else None
                if isinstance(bound, finite.Sym) and bound.name in ('BOUND.get', 'BOUND.setdefault'):
                    f = bound.name
                if (f.endswith('.get') or f.endswith('.setdefault')) and (isinstance(e.func, ast.Attribute) or bound is not None):
                    args = [m.ev(a, st) for a in e.args]
                    if f.endswith('.setdefault'):
                        ops['writes'] = True
                    if _p:
                        return _s
                    return args[1] if len(args) > 1 else None
                return NotImplemented

            class M(finite.Machine):
                def stmt(self, s_, st):
                    if isinstance(s_, ast.Assign) and isinstance(s_.targets[0], ast.Tuple) and unparse(s_.value) == 'self.operands':
                        st = dict(st)
                        for i, t in enumerate(s_.targets[0].elts):
                            st[t.id] = finite.Sym(f'OP{i}')
                        return st
                    return super().stmt(s_, st)
            def exprh(e, st, m):
                if isinstance(e, ast.Attribute) and e.attr in ('get', 'setdefault'):
                    m.ev(e.value, st)
                    return finite.Sym('BOUND.' + e.attr)
                return NotImplemented
            mach = M(call=callh, expr=exprh, contains=lambda l, c, st, _p=present: _p, names={'self': finite.Sym('self'), call.params[1]: finite.Sym('row')})
            try:
                mach.run(body_without_docstring(call.node), {})
                got = None
            except finite.Return as r:
                got = r.value
            want = None if container_null else stored if present else (D if has_default else None)
            if ops.get('writes'):
                okc = False
                res.fail(ci.fq + '.__call__', 'metarewrite:getitem:writes', f'{cname} looks the key up with setdefault(): the default is '
                         f'written into the metadata of the directive, so a later meta() lookup finds a value the ledger does not have', loc(call))
                break
            if got != want or (isinstance(got, finite.Sym) and isinstance(want, finite.Sym) and type(got) is not type(want)):
                okc = False
                res.fail(ci.fq + '.__call__', f'metarewrite:getitem:{"nocontainer" if container_null else "present" if present else "missing"}:{stored!r}',
                         f'{cname}: ' + ('the container is NULL (a posting without metadata: the lookup gives NULL, with or without a default)' if container_null else '') +
                         f'key {"present with value " + ("NULL" if stored is None else "zero/empty/false" if stored is Z else "set") if present else "missing"}'
                         f' -> {got!r}, must be {want!r} (a stored value is returned as it is, even when it is 0, "" or FALSE)', loc(call))
                break
        if okc:
            res.ok({'node': cname, 'cases': 5, 'semantics': 'stored value if present else default'})
    # open/close selection from the (open, close) pair; NULL default: on terms
    from ..symex import Sym as _S, T as _T, Engine as _E, show as _sh
    qe = P.module(QE)
    CTX, ACC, OPEN, CLOSE = _S('CTX'), _S('ACC'), _S('OPEN'), _S('CLOSE')
    # the key given is a string of undecided truth ('' is a key like any other: only a key left out means "the whole dict")
    KEY = _T('attr', (_S('ARGUMENTS'), 'key'))
    directory = _T('attr', (_T('item', (_T('attr', (CTX, 'tables')), 'accounts')), 'accounts'))
    cases = [('open_date', False, lambda o, c: _T('attr', (o, 'date')) if o is not None else None, 0),
             ('close_date', False, lambda o, c: _T('attr', (c, 'date')) if c is not None else None, 1),
             ('open_meta', False, lambda o, c: _T('attr', (o, 'meta')) if o is not None else None, 0),
             ('open_meta', True, lambda o, c: _T('call', (_sh(_T('attr', (_T('attr', (o, 'meta')), 'get'))), (KEY,), ())) if o is not None else None, 0)]
    for fname, with_key, want_f, idx in cases:
        fs = qe.toplevel_funcs.get(fname)
        if not fs:
            raise AnalysisError(f'anchor vanished: query_env.{fname}')
        f = fs[-1]
        if with_key and len(f.params) < 3:
            raise AnalysisError(f'{f.fq}: no key parameter')
        good = True
        for scen, pair in (('both', (OPEN, CLOSE)), ('open-only', (OPEN, None)), ('unknown', None)):
            looked = []

            def on_call(fn, fv, rc, args, kw, ex, node, _pair=pair):
                if rc == directory and str(fn).endswith('.get') and args[:1] == (ACC,):
                    looked.append(1)
                    if _pair is None:
                        return args[1] if len(args) > 1 else None
                    return _T('tuple', _pair)
                return NotImplemented

            def on_item(base, i, ex, _pair=pair):
                if base == directory and i == ACC:
                    looked.append(1)
                    if _pair is None:
                        from ..symex import Raise as _R
                        raise _R('KeyError', (ACC,))
                    return _T('tuple', _pair)
                return NotImplemented
            env = {f.params[0]: CTX, f.params[1]: ACC}
            if with_key:
                env[f.params[2]] = KEY
            want = want_f(*pair) if pair is not None else None
            all_paths = []
            for key_truth in ((True, False) if with_key else (True,)):
                def oracle_k(term, ex, _t=key_truth):
                    if term == KEY:
                        return _t
                    if isinstance(term, _T) and term.op == 'cmp' and term.args[0] in ('is', 'is not') and term.args[1] == KEY and term.args[2] is None:
                        return term.args[0] == 'is not'
                    return None
                all_paths += _E(P, on_call=on_call, on_item=on_item, oracle=oracle_k).paths(f, env)
            for p in all_paths:
                if not good:
                    break
                if p.decisions:
                    raise AnalysisError(f'{f.fq}: undecided test `{_sh(p.decisions[0][0])[:60]}` ({scen})')
                if not looked:
                    good = False
                    res.fail(f.fq, 'metarewrite:pair', f'{fname} must look the account up in the (open, close) directory with a NULL default', loc(f))
                elif p.outcome != 'return' or p.value != want:
                    good = False
                    got = _sh(p.value)[:60] if p.outcome == 'return' else f'{p.outcome} {p.value[0] if p.value else ""}'
                    if pair is None:
                        res.fail(f.fq, 'metarewrite:default', f'{fname} of an unknown account must be NULL (default pair of Nones); it gives {got}', loc(f))
                    else:
                        res.fail(f.fq, 'metarewrite:pair-index', f'{fname}{"(key)" if with_key else ""} must use the {"open" if idx == 0 else "close"} '
                                 f'directive (element {idx} of the pair): with {"both directives" if scen == "both" else "no close directive"} it must '
                                 f'give {_sh(want)}, gives {got}', loc(f))
        if good:
            res.ok({'function': fname, 'with_key': with_key, 'uses': f'element {idx} of (open, close)', 'scenarios': 3})
    return res
