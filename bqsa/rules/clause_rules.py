"""C13 R-CALLORDER, R-DEFAULTCLOSE; C14 R-FIELDFLOW; C15 R-PIVOTSHAPE; C19 R-SETTINGS, R-OPTUSED, R-DISPATCH."""
from __future__ import annotations

import ast
import itertools
import re

from .. import finite, registry
from ..loader import AnalysisError, FuncInfo, ClassInfo, loc, body_without_docstring, is_none
from ..report import RuleResult
from .executor import Tracer

QE = 'beanquery.query_env'
CO = 'beanquery.compiler'
SH = 'beanquery.shell'
QX = 'beanquery.query_execute'


def unparse(n):
    return ast.unparse(n)


# ----------------------------------------------------------------------
# R-CALLORDER (C13)

def rule_callorder(P) -> RuleResult:
    res = RuleResult('R-CALLORDER')
    res.exhaustive = True
    m = P.module(QE)
    bt = m.classes.get('BeanTable')
    prep = bt.methods.get('prepare') if bt else None
    if prep is None:
        raise AnalysisError('anchor vanished: BeanTable.prepare')
    D1, D2 = finite.Sym('OPENDATE'), finite.Sym('CLOSEDATE')
    ncases = 0
    ok = True
    for op, cl, cr in itertools.product((None, D1), (None, D2, True), (None, True)):
        ncases += 1
        attrs = {'open': op, 'close': cl, 'clear': cr, 'entries': finite.Sym('E0'), 'options': finite.Sym('OPTS')}
        calls = []
        counter = [0]

        def exprh(e, st, mm, _a=attrs):
            if isinstance(e, ast.Attribute) and unparse(e.value) == 'self' and e.attr in _a:
                return _a[e.attr]
            return finite.Sym(unparse(e))

        def callh(e, st, mm, _calls=calls, _c=counter):
            f = unparse(e.func)
            if f.startswith('summarize.'):
                args = [mm.ev(a, st) for a in e.args]
                _c[0] += 1
                out = finite.Sym(f'E{_c[0]}')
                _calls.append((f.split('.')[1], args, out))
                return (out, finite.Sym('index'))
            return finite.Sym(f)

        class M(finite.Machine):
            def stmt(self, s, st):
                if isinstance(s, ast.Assign) and len(s.targets) == 1 and isinstance(s.targets[0], ast.Tuple):
                    v = self.ev(s.value, st)
                    st = dict(st)
                    for t, x in zip(s.targets[0].elts, v if isinstance(v, tuple) else ()):
                        if isinstance(t, ast.Name):
                            st[t.id] = x
                    return st
                return super().stmt(s, st)
        mach = M(expr=exprh, call=callh, isinstance_=lambda v, c: v is D2 if 'date' in unparse(c) else False,
                 names={'self': finite.Sym('self')})
        try:
            mach.run(body_without_docstring(prep.node), {})
            ret = None
        except finite.Return as r:
            ret = r.value
        # specification: OPEN, then CLOSE, then CLEAR, each fed the result of the previous stage
        want = []
        cur = finite.Sym('E0')
        k = 0
        if op is not None:
            k += 1
            want.append(('open_opt', [cur, D1, finite.Sym('OPTS')], finite.Sym(f'E{k}')))
            cur = finite.Sym(f'E{k}')
        if cl is not None:
            k += 1
            want.append(('close_opt', [cur, D2 if cl is D2 else None, finite.Sym('OPTS')], finite.Sym(f'E{k}')))
            cur = finite.Sym(f'E{k}')
        if cr is not None:
            k += 1
            want.append(('clear_opt', [cur, None, finite.Sym('OPTS')], finite.Sym(f'E{k}')))
            cur = finite.Sym(f'E{k}')
        desc = f'OPEN {"ON d" if op else "absent"}, CLOSE {"ON e" if cl is D2 else "(no date)" if cl else "absent"}, CLEAR {"present" if cr else "absent"}'
        if calls != want or ret != cur:
            ok = False
            got = ' -> '.join(f'{c[0]}({", ".join(map(repr, c[1]))})' for c in calls) or 'nothing'
            exp = ' -> '.join(f'{c[0]}({", ".join(map(repr, c[1]))})' for c in want) or 'nothing'
            res.fail(prep.fq, f'callorder:{"O" if op else "-"}{"D" if cl is D2 else "C" if cl else "-"}{"X" if cr else "-"}',
                     f'with {desc} the entries are prepared by {got} (returning {ret!r}); the clauses apply in the fixed order '
                     f'OPEN, CLOSE, CLEAR, each on the result of the previous one: {exp}', loc(prep))
            break
    if ok:
        res.ok({'function': prep.fq, 'clause_combinations_executed': ncases, 'order': 'open_opt -> close_opt -> clear_opt'})
    # both row generators and PRINT start from prepare()
    for cname in ('EntriesTable', 'PostingsTable'):
        it = m.classes[cname].methods.get('__iter__') if cname in m.classes else None
        if it is None or 'self.prepare()' not in unparse(it.node):
            res.fail(f'{QE}:{cname}.__iter__', 'callorder:prepare', f'{cname} must iterate the prepared entries', loc(it) if it else '')
        else:
            res.ok({'generator': f'{cname}.__iter__', 'source': 'self.prepare()'})
    return res


def rule_defaultclose(P) -> RuleResult:
    res = RuleResult('R-DEFAULTCLOSE')
    res.exhaustive = True
    sh = P.module(SH)
    shell = sh.classes.get('BQLShell')
    parse = shell.methods.get('parse') if shell else None
    if parse is None:
        raise AnalysisError('anchor vanished: BQLShell.parse')
    DEF = finite.Sym('DEFAULT')
    ok = True
    n = 0
    for is_select, is_from, close in itertools.product((True, False), (True, False), (None, False, finite.Sym('CLOSE'))):
        n += 1
        stored = []

        def exprh(e, st, mm, _c=close):
            s = unparse(e)
            if s.endswith('.from_clause.close'):
                return _c
            return finite.Sym(s)

        class M(finite.Machine):
            def stmt(self, s, st):
                if isinstance(s, ast.Assign) and isinstance(s.targets[0], ast.Attribute):
                    stored.append((unparse(s.targets[0]), self.ev(s.value, st)))
                    return st
                return super().stmt(s, st)

        def isinst(v, c, _s=is_select, _f=is_from):
            u = unparse(c)
            return _s if u.endswith('Select') else _f if u.endswith('From') else False
        mach = M(expr=exprh, call=lambda e, st, mm: finite.Sym('STMT'), isinstance_=isinst,
                 names={'self': finite.Sym('self'), parse.params[1]: finite.Sym('line'), parse.params[2]: DEF, 'kwargs': finite.Sym('kw')})
        try:
            mach.run(body_without_docstring(parse.node), {})
        except finite.Return:
            pass
        want = is_select and is_from and not close
        did = any(t.endswith('.from_clause.close') and v is DEF for t, v in stored)
        if did != want or (not want and stored):
            ok = False
            res.fail(parse.fq, f'defaultclose:{int(is_select)}{int(is_from)}{"set" if close else "unset"}',
                     f'statement {"is" if is_select else "is not"} a SELECT, FROM clause {"is" if is_from else "is not"} a FROM expression, '
                     f'CLOSE {"given" if close else "not given"}: default close date {"applied" if did else "not applied"}; it must be '
                     f'applied exactly when a SELECT has a FROM expression without CLOSE', loc(parse))
            break
    if ok:
        res.ok({'function': parse.fq, 'cases': n})
    run = shell.methods.get('do_run')
    if run is None or unparse(run.node).count('default_close_date=query.date') < 2:
        res.fail(f'{shell.fq}.do_run', 'defaultclose:run', '.run must execute the named query with the date of its query directive as default close date',
                 loc(run) if run else '')
    else:
        res.ok({'function': run.fq, 'passes': 'default_close_date=query.date'})
    return res


# ----------------------------------------------------------------------
# R-FIELDFLOW (C14)

SELECT_FIELDS = ['targets', 'from_clause', 'where_clause', 'group_by', 'order_by', 'pivot_by', 'limit', 'distinct']


def rule_fieldflow(P) -> RuleResult:
    res = RuleResult('R-FIELDFLOW')
    m = P.module(CO)
    astm = P.module('beanquery.parser.ast')
    sel = astm.assigns.get('Select')
    if not (isinstance(sel, ast.Call) and len(sel.args) == 2 and sel.args[1].value.split() == SELECT_FIELDS):
        raise AnalysisError('ast.Select no longer has the field list this rule knows')
    spec = {
        'transform_balances': ('Balances', {
            'targets': 'cooked.targets', 'from_clause': 'node.from_clause', 'where_clause': 'node.where_clause',
            'group_by': 'cooked.group_by', 'order_by': 'cooked.order_by', 'pivot_by': None, 'limit': None, 'distinct': None},
            ['summary_func']),
        'transform_journal': ('Journal', {
            'targets': 'cooked.targets', 'from_clause': 'node.from_clause', 'where_clause': 'cooked.where_clause',
            'group_by': None, 'order_by': None, 'pivot_by': None, 'limit': None, 'distinct': None},
            ['summary_func', 'account']),
    }
    for fname, (cls, want, in_template) in spec.items():
        fs = m.toplevel_funcs.get(fname)
        if not fs:
            raise AnalysisError(f'anchor vanished: compiler.{fname}')
        fi = fs[-1]
        p = fi.params[0]
        rets = [n for n in ast.walk(fi.node) if isinstance(n, ast.Return)]
        if len(rets) != 1 or not (isinstance(rets[0].value, ast.Call) and unparse(rets[0].value.func) == 'ast.Select'):
            raise AnalysisError(f'{fi.fq}: does not return ast.Select(...)')
        call = rets[0].value
        cooked = None
        for n in ast.walk(fi.node):
            if isinstance(n, ast.Assign) and isinstance(n.value, ast.Call) and unparse(n.value.func) == 'parser.parse':
                cooked = unparse(n.targets[0])
        if cooked is None:
            raise AnalysisError(f'{fi.fq}: template parse not found')
        got = {}
        for i, a in enumerate(call.args):
            if i < len(SELECT_FIELDS):
                got[SELECT_FIELDS[i]] = a
        for k in call.keywords:
            got[k.arg] = k.value
        n0 = len(res.findings)
        if len(call.args) + len(call.keywords) != len(SELECT_FIELDS):
            res.fail(fi.fq, 'fieldflow:arity', f'ast.Select takes {len(SELECT_FIELDS)} fields; {fname} passes {len(call.args) + len(call.keywords)}', loc(fi, call))
        for field, w in want.items():
            g = got.get(field)
            gs = None if g is None or is_none(g) else unparse(g).replace(cooked, 'cooked').replace(p + '.', 'node.')
            if gs != w:
                res.fail(fi.fq, f'fieldflow:{field}', f'the SELECT built for {cls} takes `{field}` from `{gs}`; it must come from '
                         f'`{w}`' + (' (the clause of the statement is dropped)' if w and w.startswith('node.') else ''), loc(fi, call))
        # fields that go into the template text
        tsrc = unparse(fi.node)
        for f_ in in_template:
            if f'{p}.{f_}' not in tsrc:
                res.fail(fi.fq, f'fieldflow:{f_}', f'`{f_}` of the {cls} statement is not used in its expansion', loc(fi))
        if len(res.findings) == n0:
            res.ok({'function': fi.fq, 'statement': cls, 'fields_flow': {**{k: v for k, v in want.items() if v}, **{f_: 'template' for f_ in in_template}}})
    # PRINT: FROM clause compiled against the entries table
    pr = P.func(CO, 'Compiler._print')
    src = unparse(pr.node)
    if "tables.get('entries')" not in src or 'self._compile_from(node.from_clause)' not in src or 'EvalPrint(self.table, ' not in src:
        res.fail(pr.fq, 'fieldflow:print', 'PRINT must compile its FROM clause against the entries table and carry table and filter into EvalPrint', loc(pr))
    else:
        res.ok({'function': pr.fq, 'statement': 'Print', 'fields_flow': {'from_clause': '_compile_from'}})
    # delegation in the compiler and the shell
    comp = P.cls(CO, 'Compiler')
    for meth, tr in (('_balances', 'transform_balances'), ('_journal', 'transform_journal')):
        f = comp.methods.get(meth)
        if f is None or f'self._compile({tr}(node))' not in unparse(f.node):
            res.fail(f'{comp.fq}.{meth}', 'fieldflow:delegate', f'{meth} must compile the SELECT expansion {tr}(node)', loc(f) if f else '')
        else:
            res.ok({'handler': meth, 'compiles': f'{tr}(node)'})
    sh = P.modules.get(SH)
    if sh is not None:
        shell = sh.classes.get('BQLShell')
        for meth in ('on_Journal', 'on_Balances'):
            f = shell.methods.get(meth) if shell else None
            if f is None or 'return self.on_Select(' not in unparse(f.node):
                res.fail(f'{SH}:BQLShell.{meth}', 'fieldflow:shell', f'{meth} must be handled like a SELECT', loc(f) if f else '')
            else:
                res.ok({'shell_handler': meth, 'delegates': 'on_Select'})
    return res


# ----------------------------------------------------------------------
# R-PIVOTSHAPE (C15)

def rule_pivotshape(P) -> RuleResult:
    res = RuleResult('R-PIVOTSHAPE')
    fi = P.func(QX, 'execute_query')
    blk = None
    for n in ast.walk(fi.node):
        if isinstance(n, ast.If) and 'EvalPivot' in unparse(n.test):
            blk = n
    if blk is None:
        raise AnalysisError('anchor vanished: the PIVOT branch of execute_query')
    src = unparse(blk)
    n0 = len(res.findings)

    def need(cond, detail, msg):
        if not cond:
            res.fail(fi.fq + ':pivot', 'pivotshape:' + detail, msg, loc(fi, blk))
    need(re.search(r'col1, col2 = \w+\.pivots', src), 'unpack', 'the two pivot column indexes are not taken from query.pivots in order')
    need('execute_select(query.query)' in src.replace(' ', '').replace('query.query', 'query.query') or 'execute_select(' in src,
         'source', 'the pivot must be computed from the result of the underlying SELECT')
    need(re.search(r'othercols = \[i for i in range\(len\(columns\)\) if i not in \w+\.pivots\]', src), 'others',
         'the remaining columns are all result columns except the two pivot columns, in order')
    need('keys = sorted({row[col2] for row in rows})' in src, 'keys', 'one block per distinct value of the second column, ascending')
    need("names = [f'{columns[col1].name}/{columns[col2].name}']" in src, 'lead-name', 'the leading column is named first/second')
    need("[f'{key}/{col.name}' for key, col in it]" in src and 'itertools.product(keys, other(columns))' in src, 'names-many',
         'with several remaining columns the blocks are named value/column, key-major')
    need("[f'{key}' for key in keys]" in src, 'names-one', 'with one remaining column the blocks are named by the key value')
    need(re.search(r'if nother > 1:', src), 'names-switch', 'value/column naming applies exactly when more than one column remains')
    need('datatypes = [columns[col1].datatype] + [col.datatype for col in other(columns)] * len(keys)' in src, 'datatypes',
         'the leading column keeps the first pivot column\'s datatype and each block repeats the datatypes of the remaining columns')
    need('rows.sort(key=operator.itemgetter(col1))' in src and 'itertools.groupby(rows, key=operator.itemgetter(col1))' in src, 'rows',
         'one output row per distinct value of the first column, ascending')
    need('index = keys.index(row[col2]) * nother + 1' in src and 'outrow[index:index + nother] = other(row)' in src, 'placement',
         'the block of key k starts at keys.index(k) * (number of remaining columns) + 1 and holds the remaining values of the row')
    need('outrow = [field1] + [None] * (len(columns) - 1)' in src, 'fill', 'missing combinations are NULL')
    if len(res.findings) == n0:
        res.ok({'function': fi.fq, 'clauses': ['others', 'keys sorted', 'names', 'datatypes', 'rows sorted+grouped', 'block placement', 'NULL fill']})
    return res


# ----------------------------------------------------------------------
# C19

def rule_settings(P) -> RuleResult:
    res = RuleResult('R-SETTINGS')
    sh = P.module(SH)
    st = sh.classes.get('Settings')
    if st is None:
        raise AnalysisError('anchor vanished: shell.Settings')
    fields = {}
    for s in st.node.body:
        if isinstance(s, ast.AnnAssign) and isinstance(s.target, ast.Name):
            fields[s.target.id] = unparse(s.annotation)
    if len(fields) < 8:
        raise AnalysisError('Settings dataclass fields not found')
    # (a) every field has a parser that rejects invalid input where invalid input exists
    for name, typ in fields.items():
        parser = st.methods.get(f'_parse_{name}') or st.methods.get(f'_parse_{typ}')
        if typ == 'bool' or name == 'format':
            if parser is None or not any(isinstance(n, ast.Raise) and 'ValueError' in unparse(n) for n in ast.walk(parser.node)):
                res.fail(f'{st.fq}.{name}', f'settings:parser:{name}', f'setting `{name}` ({typ}) has no parser that rejects invalid values with ValueError')
                continue
        res.ok({'setting': name, 'type': typ, 'parser': parser.name if parser else typ})
    # (b) setstr: parse before the single store
    ss = st.methods.get('setstr')
    if ss is None:
        raise AnalysisError('anchor vanished: Settings.setstr')
    stores = [n for n in ast.walk(ss.node) if isinstance(n, ast.Call) and unparse(n.func) == 'setattr']
    astores = [n for n in ast.walk(ss.node) if isinstance(n, ast.Assign) and isinstance(n.targets[0], ast.Attribute)]
    if len(stores) != 1 or astores or 'parse(value)' not in unparse(stores[0]):
        res.fail(ss.fq, 'settings:atomic', 'setstr must evaluate the parse and then store once, so that an invalid value changes nothing', loc(ss))
    else:
        look = unparse(ss.node)
        if "f'_parse_{name}'" not in look or '_parse_{vtype.__name__}' not in look:
            res.fail(ss.fq, 'settings:lookup', 'the parser is looked up by setting name, then by type, then the type itself', loc(ss))
        else:
            res.ok({'method': ss.fq, 'order': 'parse, then one setattr'})
    # (d) do_set validates the name against the fields before reflecting on it
    ds = sh.classes['DispatchingShell'].methods.get('do_set') if 'DispatchingShell' in sh.classes else None
    if ds is None:
        raise AnalysisError('anchor vanished: DispatchingShell.do_set')
    guard = None
    for n in ast.walk(ds.node):
        if isinstance(n, ast.If) and re.fullmatch(r'name not in self\.settings', unparse(n.test)):
            guard = n
    uses = [n for n in ast.walk(ds.node) if isinstance(n, ast.Call) and unparse(n.func) in ('self.settings.getstr', 'self.settings.setstr')
            and n.args and unparse(n.args[0]) == 'name']
    safe_loops = [n for n in ast.walk(ds.node) if isinstance(n, ast.For) and unparse(n.iter) == 'self.settings']
    uses = [u for u in uses if not any(any(u is x for x in ast.walk(lp)) for lp in safe_loops)]   # names taken from the settings themselves
    in_else = set()
    if guard is not None:
        for st_ in guard.orelse:
            in_else.update(id(x) for x in ast.walk(st_))
    if guard is None or not uses or not all(id(u) in in_else for u in uses):
        res.fail(ds.fq, 'settings:name-check', '.set must check the name against the settings fields before getattr(): method names like '
                 '`todict` resolve to bound methods and the command fails with TypeError instead of "variable does not exist"', loc(ds))
    else:
        res.ok({'method': ds.fq, 'name_validated': True})
    # no-argument form lists all fields; errors reported for invalid value / arity
    src = unparse(ds.node)
    for needle, what in (('for name in self.settings', 'lists all settings'), ('except ValueError', 'reports invalid values'),
                         ("'invalid number of arguments'", 'rejects extra arguments')):
        if needle not in src:
            res.fail(ds.fq, f'settings:{what.split()[0]}', f'.set no longer {what}', loc(ds))
    # (e) every setting is consumed: keyword of a renderer, or read explicitly
    consumed = set()
    for mod in ('beanquery.query_render',):
        rm = P.modules.get(mod)
        if rm:
            for fn in ('render_text', 'render_csv', 'render_rows'):
                for f in rm.toplevel_funcs.get(fn, []):
                    consumed.update(a.arg for a in f.node.args.args + f.node.args.kwonlyargs)
    shell_src = unparse(sh.tree)
    for name in fields:
        if name in consumed or f'self.settings.{name}' in shell_src:
            res.ok({'setting': name, 'consumed': True})
        else:
            res.fail(f'{st.fq}.{name}', f'settings:unused:{name}', f'setting `{name}` is neither a keyword parameter of a renderer nor read by '
                     f'the shell: changing it has no effect')
    return res


def rule_optused(P) -> RuleResult:
    res = RuleResult('R-OPTUSED')
    sh = P.module(SH)
    mains = sh.toplevel_funcs.get('main')
    if not mains:
        raise AnalysisError('anchor vanished: shell.main')
    fi = mains[-1]
    opts = [unparse(d) for d in fi.node.decorator_list if 'click.option' in unparse(d) or 'click.argument' in unparse(d)]
    params = fi.params
    if len(opts) < 5:
        raise AnalysisError('click options of main not found')
    body = ast.Module(body=fi.node.body, type_ignores=[])
    for p in params:
        reads = [n for n in ast.walk(body) if isinstance(n, ast.Name) and n.id == p and isinstance(n.ctx, ast.Load)]
        if not reads:
            res.fail(fi.fq, f'optused:{p}', f'command line option `{p}` is accepted but never read: it has no effect', loc(fi))
        else:
            res.ok({'option': p, 'reads': len(reads)})
    # the options reach the shell
    shell = sh.classes.get('BQLShell')
    init = shell.methods.get('__init__') if shell else None
    calls = [n for n in ast.walk(body) if isinstance(n, ast.Call) and unparse(n.func) == 'BQLShell']
    if init is None or len(calls) != 1:
        raise AnalysisError('construction of BQLShell in main not understood')
    ip = init.params[1:]
    bound = {}
    for i, a in enumerate(calls[0].args):
        if i < len(ip):
            bound[ip[i]] = unparse(a)
    for k in calls[0].keywords:
        bound[k.arg] = unparse(k.value)
    for opt, param in (('format', 'format'), ('numberify', 'numberify'), ('output', 'outfile'), ('no_errors', 'no_errors'), ('filename', 'filename')):
        if bound.get(param) != opt:
            res.fail(fi.fq, f'optused:wire:{opt}', f'option `{opt}` must be passed to the shell as `{param}`; the shell receives `{bound.get(param)}`', loc(fi))
        else:
            res.ok({'option': opt, 'shell_parameter': param})
    # and are used there
    isrc = unparse(init.node)
    if 'Settings(format=format, numberify=numberify)' not in isrc:
        res.fail(init.fq, 'optused:settings', '-f and -m must initialise the format and numberify settings', loc(init))
    rl = shell.methods.get('do_reload')
    if 'no_errors' in ip:
        gated = False
        if rl is not None:
            for n in ast.walk(rl.node):
                if isinstance(n, ast.If) and 'print_errors' in unparse(ast.Module(body=n.body, type_ignores=[])):
                    t = unparse(n.test).replace('(', '').replace(')', '')
                    gated = 'not self.no_errors' in t and 'self.context.errors' in t
        if not gated or 'self.no_errors = no_errors' not in isrc:
            res.fail(f'{shell.fq}.do_reload', 'optused:no_errors', '-q must suppress the ledger error report printed when the ledger is loaded', loc(rl) if rl else '')
        else:
            res.ok({'option': 'no_errors', 'effect': 'error report skipped'})
    return res


def rule_dispatch(P) -> RuleResult:
    res = RuleResult('R-DISPATCH')
    res.exhaustive = True
    sh = P.module(SH)
    ds = sh.classes.get('DispatchingShell')
    oc = ds.methods.get('onecmd') if ds else None
    pl = ds.methods.get('parseline') if ds else None
    if oc is None or pl is None:
        raise AnalysisError('anchor vanished: DispatchingShell.onecmd / parseline')
    # the legacy command set
    legacy = None
    for n in ast.walk(oc.node):
        if isinstance(n, ast.Set) and all(isinstance(e, ast.Constant) for e in n.elts):
            legacy = {e.value for e in n.elts}
    if legacy is None:
        raise AnalysisError('legacy command set of onecmd not found')
    from .compiler_rules import grammar_classes
    _, text = grammar_classes(P)
    kw = set(re.findall(r"'([A-Z]+)'", '\n'.join(l for l in text.splitlines() if l.startswith('@@keyword') or l.startswith("    '"))))
    starters = {'SELECT', 'BALANCES', 'JOURNAL', 'PRINT'}
    clash = {c for c in legacy if c.upper() in starters}
    if clash:
        res.fail(oc.fq, 'dispatch:clash', f'bare command names {sorted(clash)} are also statement keywords: such statements are run as commands', loc(oc))
    else:
        res.ok({'legacy_commands': sorted(legacy), 'disjoint_from_statement_keywords': True})
    for c in sorted(legacy):
        if not any(f'do_{c}' in k.methods or f'do_{c}' in k.attrs for k in sh.classes.values()):
            res.fail(oc.fq, f'dispatch:missing:{c}', f'bare command `{c}` has no do_{c} method', loc(oc))
    # execute the dispatch over its cases
    n = 0
    ok = True
    for dotted, known, is_legacy in itertools.product((True, False), (True, False), (True, False)):
        n += 1
        events = []
        cmd = 'KNOWN' if known else 'UNKNOWN'
        line = ('.' if dotted else '') + 'x'

        def callh(e, st, mm, _d=dotted, _k=known):
            f = unparse(e.func)
            if f == 'self.parseline':
                return (finite.Sym('CMD'), finite.Sym('ARG'), finite.Sym('LINE'))
            if f.endswith('.startswith'):
                return _d
            if f.endswith('.lower'):
                return finite.Sym('CMD')
            if f == 'getattr':
                return finite.Sym('FUNC') if _k else None
            if f == 'self.execute':
                events.append('execute')
                return finite.Sym('R')
            if f == 'func':
                events.append('command')
                return finite.Sym('R')
            if f == 'self.error':
                events.append('error')
                return None
            if f == 'warnings.warn':
                events.append('warn')
                return None
            return finite.Sym(f)

        class M(finite.Machine):
            def stmt(self, s, st):
                if isinstance(s, ast.Assign) and isinstance(s.targets[0], ast.Tuple):
                    v = self.ev(s.value, st)
                    st = dict(st)
                    for t, x in zip(s.targets[0].elts, v):
                        st[t.id] = x
                    return st
                return super().stmt(s, st)
        mach = M(call=callh, contains=lambda l, c, st, _l=is_legacy: _l, names={'self': finite.Sym('self'), oc.params[1]: finite.Sym('line')},
                 expr=lambda e, st, mm: finite.Sym(unparse(e)))
        try:
            mach.run(body_without_docstring(oc.node), {})
        except finite.Return:
            pass
        if dotted:
            want = ['command'] if known else ['error']
        elif not is_legacy:
            want = ['execute']
        else:
            want = ['warn', 'command'] if known else ['warn', 'error']
        if events != want:
            ok = False
            res.fail(oc.fq, f'dispatch:{"dot" if dotted else "bare"}:{"known" if known else "unknown"}:{"legacy" if is_legacy else "other"}',
                     f'a line {"with" if dotted else "without"} the dot prefix, command {"defined" if known else "not defined"}, '
                     f'{"in" if is_legacy else "not in"} the legacy set leads to {events}; expected {want} (dot-commands are never run as '
                     f'queries nor queries as commands)', loc(oc))
            break
    if ok:
        res.ok({'function': oc.fq, 'cases': n})
    # statement handlers render through the selected format with the settings
    shell = sh.classes.get('BQLShell')
    sel = shell.methods.get('on_Select') if shell else None
    if sel is None:
        raise AnalysisError('anchor vanished: BQLShell.on_Select')
    s = unparse(sel.node)
    for needle, what in (('FORMATS.get(self.settings.format)', 'renders with the format selected by the settings'),
                         ('**self.settings.todict()', 'passes all settings to the renderer'),
                         ('if self.settings.numberify:', 'numberifies exactly when the setting is on'),
                         ('self.context.execute(statement)', 'executes the statement through the API')):
        if needle not in s:
            res.fail(sel.fq, f'dispatch:select:{what.split()[0]}', f'on_Select no longer {what}', loc(sel))
        else:
            res.ok({'on_Select': what})
    return res
