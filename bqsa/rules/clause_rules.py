"""C13 R-CALLORDER, R-DEFAULTCLOSE; C14 R-FIELDFLOW; C15 R-PIVOTSHAPE; C19 R-SETTINGS, R-OPTUSED, R-DISPATCH."""
from __future__ import annotations

import ast
import itertools
import re

from .. import finite, registry
from ..loader import AnalysisError, FuncInfo, ClassInfo, loc, body_without_docstring, is_none
from ..report import RuleResult
from .executor import Tracer

QE = 'beanquery.query_env'
CO = 'beanquery.compiler'
SH = 'beanquery.shell'
QX = 'beanquery.query_execute'


def unparse(n):
    return ast.unparse(n)


# ----------------------------------------------------------------------
# R-CALLORDER (C13)

def rule_callorder(P) -> RuleResult:
    res = RuleResult('R-CALLORDER')
    res.exhaustive = True
    m = P.module(QE)
    bt = m.classes.get('BeanTable')
    prep = bt.methods.get('prepare') if bt else None
    if prep is None:
        raise AnalysisError('anchor vanished: BeanTable.prepare')
    D1, D2 = finite.Sym('OPENDATE'), finite.Sym('CLOSEDATE')
    ncases = 0
    ok = True
    for op, cl, cr in itertools.product((None, D1), (None, D2, True), (None, True)):
        ncases += 1
        attrs = {'open': op, 'close': cl, 'clear': cr, 'entries': finite.Sym('E0'), 'options': finite.Sym('OPTS')}
        calls = []
        counter = [0]

        def exprh(e, st, mm, _a=attrs):
            if isinstance(e, ast.Attribute) and unparse(e.value) == 'self' and e.attr in _a:
                return _a[e.attr]
            return finite.Sym(unparse(e))

        def callh(e, st, mm, _calls=calls, _c=counter):
            f = unparse(e.func)
            if f.startswith('summarize.'):
                args = [mm.ev(a, st) for a in e.args]
                _c[0] += 1
                out = finite.Sym(f'E{_c[0]}')
                _calls.append((f.split('.')[1], args, out))
                return (out, finite.Sym('index'))
            return finite.Sym(f)

        class M(finite.Machine):
            def stmt(self, s, st):
                if isinstance(s, ast.Assign) and len(s.targets) == 1 and isinstance(s.targets[0], ast.Tuple):
                    v = self.ev(s.value, st)
                    st = dict(st)
                    for t, x in zip(s.targets[0].elts, v if isinstance(v, tuple) else ()):
                        if isinstance(t, ast.Name):
                            st[t.id] = x
                    return st
                return super().stmt(s, st)
        mach = M(expr=exprh, call=callh, isinstance_=lambda v, c: v is D2 if 'date' in unparse(c) else False,
                 names={'self': finite.Sym('self')})
        try:
            mach.run(body_without_docstring(prep.node), {})
            ret = None
        except finite.Return as r:
            ret = r.value
        # specification: OPEN, then CLOSE, then CLEAR, each fed the result of the previous stage
        want = []
        cur = finite.Sym('E0')
        k = 0
        if op is not None:
            k += 1
            want.append(('open_opt', [cur, D1, finite.Sym('OPTS')], finite.Sym(f'E{k}')))
            cur = finite.Sym(f'E{k}')
        if cl is not None:
            k += 1
            want.append(('close_opt', [cur, D2 if cl is D2 else None, finite.Sym('OPTS')], finite.Sym(f'E{k}')))
            cur = finite.Sym(f'E{k}')
        if cr is not None:
            k += 1
            want.append(('clear_opt', [cur, None, finite.Sym('OPTS')], finite.Sym(f'E{k}')))
            cur = finite.Sym(f'E{k}')
        desc = f'OPEN {"ON d" if op else "absent"}, CLOSE {"ON e" if cl is D2 else "(no date)" if cl else "absent"}, CLEAR {"present" if cr else "absent"}'
        if calls != want or ret != cur:
            ok = False
            got = ' -> '.join(f'{c[0]}({", ".join(map(repr, c[1]))})' for c in calls) or 'nothing'
            exp = ' -> '.join(f'{c[0]}({", ".join(map(repr, c[1]))})' for c in want) or 'nothing'
            res.fail(prep.fq, f'callorder:{"O" if op else "-"}{"D" if cl is D2 else "C" if cl else "-"}{"X" if cr else "-"}',
                     f'with {desc} the entries are prepared by {got} (returning {ret!r}); the clauses apply in the fixed order '
                     f'OPEN, CLOSE, CLEAR, each on the result of the previous one: {exp}', loc(prep))
            break
    if ok:
        res.ok({'function': prep.fq, 'clause_combinations_executed': ncases, 'order': 'open_opt -> close_opt -> clear_opt'})
    # both row generators and PRINT start from prepare()
    from .sx_tables import rule_rowgen
    rg = rule_rowgen(P)
    for cname in ('EntriesTable', 'PostingsTable'):
        bad = [f for f in rg.findings if f.detail == 'rowgen:prepare' and f.construct.endswith(f'{cname}.__iter__')]
        it = m.classes[cname].methods.get('__iter__') if cname in m.classes else None
        if it is None or bad:
            res.fail(f'{QE}:{cname}.__iter__', 'callorder:prepare', f'{cname} must iterate the prepared entries (self.prepare(), directly or '
                     f'through the generator it builds on)', loc(it) if it else '')
        else:
            res.ok({'generator': f'{cname}.__iter__', 'source': 'self.prepare()'})
    return res




# ----------------------------------------------------------------------
# R-FIELDFLOW (C14)

SELECT_FIELDS = ['targets', 'from_clause', 'where_clause', 'group_by', 'order_by', 'pivot_by', 'limit', 'distinct']


def rule_fieldflow(P) -> RuleResult:
    res = RuleResult('R-FIELDFLOW')
    m = P.module(CO)
    astm = P.module('beanquery.parser.ast')
    sel = astm.assigns.get('Select')
    if not (isinstance(sel, ast.Call) and len(sel.args) == 2 and sel.args[1].value.split() == SELECT_FIELDS):
        raise AnalysisError('ast.Select no longer has the field list this rule knows')
    from .sx_compiler import transform_cases
    transform_cases(P, res)
    sh = P.modules.get(SH)
    if sh is not None:
        shell = sh.classes.get('BQLShell')
        for meth in ('on_Journal', 'on_Balances'):
            f = shell.methods.get(meth) if shell else None
            if f is None or 'return self.on_Select(' not in unparse(f.node):
                res.fail(f'{SH}:BQLShell.{meth}', 'fieldflow:shell', f'{meth} must be handled like a SELECT', loc(f) if f else '')
            else:
                res.ok({'shell_handler': meth, 'delegates': 'on_Select'})
    return res


# ----------------------------------------------------------------------
# R-PIVOTSHAPE (C15): role-based probes on the PIVOT branch of execute_query.  Every probe finds its anchor by what the
# statement *does* (not by variable names); a missing anchor is an unknown shape (AnalysisError), a found anchor with the
# wrong property is a violation.



# ----------------------------------------------------------------------
# C19

def rule_settings(P) -> RuleResult:
    res = RuleResult('R-SETTINGS')
    sh = P.module(SH)
    st = sh.classes.get('Settings')
    if st is None:
        raise AnalysisError('anchor vanished: shell.Settings')
    fields = {}
    for s in st.node.body:
        if isinstance(s, ast.AnnAssign) and isinstance(s.target, ast.Name):
            fields[s.target.id] = unparse(s.annotation)
    if len(fields) < 8:
        raise AnalysisError('Settings dataclass fields not found')
    # (a) parsers, (b) setstr, (c) echo: on terms
    from . import sx_shell
    if 'format' in fields and '_parse_format' not in st.methods:
        res.fail(f'{st.fq}.format', 'settings:parser:format', 'setting `format` has no parser that rejects invalid values with ValueError')
    sx_shell.bool_parser_cases(P, res)
    sx_shell.setstr_cases(P, res)
    sx_shell.getstr_cases(P, res)
    # (d) do_set validates the name against the fields before reflecting on it
    ds = sh.classes['DispatchingShell'].methods.get('do_set') if 'DispatchingShell' in sh.classes else None
    if ds is None:
        raise AnalysisError('anchor vanished: DispatchingShell.do_set')
    from .sx_compiler import set_name_cases, format_parser_cases
    set_name_cases(P, res)
    format_parser_cases(P, res)
    # (e) every setting is consumed: keyword of a renderer, or read explicitly
    consumed = set()
    for mod in ('beanquery.query_render',):
        rm = P.modules.get(mod)
        if rm:
            for fn in ('render_text', 'render_csv', 'render_rows'):
                for f in rm.toplevel_funcs.get(fn, []):
                    consumed.update(a.arg for a in f.node.args.args + f.node.args.kwonlyargs)
    # read by the shell: an attribute of that name is read in a method of a shell class (through self.settings or a local for it)
    read_attrs = set()
    for k in sh.classes.values():
        if k.name == 'Settings':
            continue
        for meth in k.methods.values():
            for n in ast.walk(meth.node):
                if isinstance(n, ast.Attribute) and isinstance(n.ctx, ast.Load):
                    read_attrs.add(n.attr)
    for name in fields:
        if name in consumed or name in read_attrs:
            res.ok({'setting': name, 'consumed': True})
        else:
            res.fail(f'{st.fq}.{name}', f'settings:unused:{name}', f'setting `{name}` is neither a keyword parameter of a renderer nor read by '
                     f'the shell: changing it has no effect')
    return res




def rule_dispatch(P) -> RuleResult:
    """DispatchingShell.onecmd on terms, over dot prefix x command defined x bare name in the legacy set: dot-commands never reach
    execute(), other lines do unless their first word is a legacy command name; the legacy names are disjoint from the statement
    keywords and each has its do_ method."""
    from ..symex import Sym as _S, T as _T, SList as _L, Engine as _E, show as _sh, _const_eval, _fresh_constant, _NotConstant
    res = RuleResult('R-DISPATCH')
    res.exhaustive = True
    sh = P.module(SH)
    ds = sh.classes.get('DispatchingShell')
    oc = ds.methods.get('onecmd') if ds else None
    pl = ds.methods.get('parseline') if ds else None
    if oc is None or pl is None:
        raise AnalysisError('anchor vanished: DispatchingShell.onecmd / parseline')
    SELF, LINE_IN = _S('SHELL'), _S('INPUT_LINE')
    CMD, ARG, LINE, CMD_L, HANDLER = _S('CMD'), _S('ARG'), _S('LINE'), _S('cmd'), _S('HANDLER')
    legacy_seen = []
    outcomes = {}
    for dotted, known, is_legacy in itertools.product((True, False), (True, False), (True, False)):
        def on_attr(base, attr, ex):
            if base == SELF and attr in ds.attrs:
                try:
                    return _fresh_constant(('lit', _const_eval(ds.attrs[attr])))
                except _NotConstant:
                    return NotImplemented
            return NotImplemented

        def on_call(fn, fv, rc, args, kw, ex, node, _k=known, _d=dotted):
            name = str(fn)
            last = name.split('.')[-1]
            if rc == SELF and last == 'parseline':
                return _T('tuple', (CMD, ARG, LINE))
            if last == 'startswith' and rc in (LINE, LINE_IN) and args == ('.',):
                return _d
            if last == 'lower' and rc in (CMD, CMD_L):
                return CMD_L
            if name == 'getattr' and len(args) >= 2 and args[0] == SELF:
                return HANDLER if _k else (args[2] if len(args) > 2 else None)
            if name == 'hasattr' and len(args) == 2 and args[0] == SELF:
                return _k
            if rc == SELF and last == 'execute':
                ex.events.append(('did', 'execute', args))
                return _S('RESULT')
            if fv == HANDLER:
                ex.events.append(('did', 'command', args))
                return _S('RESULT')
            if rc == SELF and last == 'error':
                ex.events.append(('did', 'error', args))
                return None
            if name == 'warnings.warn':
                ex.events.append(('did', 'warn', args))
                return None
            return NotImplemented

        def oracle(term, ex, _l=is_legacy):
            if term in (CMD, CMD_L):
                return True
            if isinstance(term, _T) and term.op == 'cmp' and term.args[0] in ('in', 'not in') and term.args[1] in (CMD, CMD_L):
                c = term.args[2]
                if isinstance(c, _L) and not c.opaque_tail and all(isinstance(x, str) for x in c.items):
                    legacy_seen.append(frozenset(c.items))
                return _l == (term.args[0] == 'in')
            return None
        paths = _E(P, on_attr=on_attr, on_call=on_call, oracle=oracle, max_depth=0).paths(oc, {'self': SELF, oc.params[1]: LINE_IN})
        key = (dotted, known, is_legacy)
        for p in paths:
            if p.decisions:
                raise AnalysisError(f'{oc.fq}: undecided test `{_sh(p.decisions[0][0])[:60]}`')
            outcomes.setdefault(key, []).append([e[1] for e in p.events if e[0] == 'did'] + (['raise ' + p.value[0]] if p.outcome == 'raise' else []))
    if not legacy_seen:
        # no fixed set of bare command names: then every line without the dot prefix must be a statement
        bare_cmd = sorted({(known, tuple(ev)) for (dotted, known, _l), evs in outcomes.items() if not dotted for ev in evs if ev != ['execute']})
        if bare_cmd:
            res.fail(oc.fq, 'dispatch:bare:open', f'a line without the dot prefix is run as a command ({list(bare_cmd[0][1])}) although its first '
                     f'word is not tested against a fixed set of legacy command names: with a test like "a do_ method exists" every '
                     f'command name (tables, describe, explain, reload ...) typed without the dot is run as a command instead of being '
                     f'parsed as a statement', loc(oc))
        else:
            res.ok({'legacy_commands': [], 'bare_lines': 'always statements'})
        return res
    if len(set(legacy_seen)) != 1:
        raise AnalysisError(f'legacy command set of onecmd not found on terms ({len(set(legacy_seen))} candidate sets)')
    legacy = set(legacy_seen[0])
    from .compiler_rules import grammar_classes
    _, text = grammar_classes(P)
    kw = set(re.findall(r"'([A-Z]+)'", '\n'.join(l for l in text.splitlines() if l.startswith('@@keyword') or l.startswith("    '"))))
    starters = {'SELECT', 'BALANCES', 'JOURNAL', 'PRINT'}
    clash = {c for c in legacy if c.upper() in starters}
    if clash:
        res.fail(oc.fq, 'dispatch:clash', f'bare command names {sorted(clash)} are also statement keywords: such statements are run as commands', loc(oc))
    else:
        res.ok({'legacy_commands': sorted(legacy), 'disjoint_from_statement_keywords': True})
    for c in sorted(legacy):
        if not any(f'do_{c}' in k.methods or f'do_{c}' in k.attrs for k in sh.classes.values()):
            res.fail(oc.fq, f'dispatch:missing:{c}', f'bare command `{c}` has no do_{c} method', loc(oc))
    # the dispatch over its cases
    n = 0
    ok = True
    for (dotted, known, is_legacy), evs in sorted(outcomes.items(), reverse=True):
        n += 1
        if dotted:
            want = ['command'] if known else ['error']
        elif not is_legacy:
            want = ['execute']
        else:
            want = ['warn', 'command'] if known else ['warn', 'error']
        for events in evs:
            if events != want and ok:
                ok = False
                res.fail(oc.fq, f'dispatch:{"dot" if dotted else "bare"}:{"known" if known else "unknown"}:{"legacy" if is_legacy else "other"}',
                         f'a line {"with" if dotted else "without"} the dot prefix, command {"defined" if known else "not defined"}, '
                         f'{"in" if is_legacy else "not in"} the legacy set leads to {events}; expected {want} (dot-commands are never run as '
                         f'queries nor queries as commands)', loc(oc))
            elif events == want:
                res.ok({'function': oc.fq, 'dot_prefix': dotted, 'command_defined': known, 'legacy_name': is_legacy, 'leads_to': events})
    return res

