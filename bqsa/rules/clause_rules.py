"""C13 R-CALLORDER, R-DEFAULTCLOSE; C14 R-FIELDFLOW; C15 R-PIVOTSHAPE; C19 R-SETTINGS, R-OPTUSED, R-DISPATCH."""
from __future__ import annotations

import ast
import itertools
import re

from .. import finite, registry
from ..loader import AnalysisError, FuncInfo, ClassInfo, loc, body_without_docstring, is_none
from ..report import RuleResult
from .executor import Tracer

QE = 'beanquery.query_env'
CO = 'beanquery.compiler'
SH = 'beanquery.shell'
QX = 'beanquery.query_execute'


def unparse(n):
    return ast.unparse(n)


# ----------------------------------------------------------------------
# R-CALLORDER (C13)

def rule_callorder(P) -> RuleResult:
    res = RuleResult('R-CALLORDER')
    res.exhaustive = True
    m = P.module(QE)
    bt = m.classes.get('BeanTable')
    prep = bt.methods.get('prepare') if bt else None
    if prep is None:
        raise AnalysisError('anchor vanished: BeanTable.prepare')
    D1, D2 = finite.Sym('OPENDATE'), finite.Sym('CLOSEDATE')
    ncases = 0
    ok = True
    for op, cl, cr in itertools.product((None, D1), (None, D2, True), (None, True)):
        ncases += 1
        attrs = {'open': op, 'close': cl, 'clear': cr, 'entries': finite.Sym('E0'), 'options': finite.Sym('OPTS')}
        calls = []
        counter = [0]

        def exprh(e, st, mm, _a=attrs):
            if isinstance(e, ast.Attribute) and unparse(e.value) == 'self' and e.attr in _a:
                return _a[e.attr]
            return finite.Sym(unparse(e))

        def callh(e, st, mm, _calls=calls, _c=counter):
            f = unparse(e.func)
            if f.startswith('summarize.'):
                args = [mm.ev(a, st) for a in e.args]
                _c[0] += 1
                out = finite.Sym(f'E{_c[0]}')
                _calls.append((f.split('.')[1], args, out))
                return (out, finite.Sym('index'))
            return finite.Sym(f)

        class M(finite.Machine):
            def stmt(self, s, st):
                if isinstance(s, ast.Assign) and len(s.targets) == 1 and isinstance(s.targets[0], ast.Tuple):
                    v = self.ev(s.value, st)
                    st = dict(st)
                    for t, x in zip(s.targets[0].elts, v if isinstance(v, tuple) else ()):
                        if isinstance(t, ast.Name):
                            st[t.id] = x
                    return st
                return super().stmt(s, st)
        mach = M(expr=exprh, call=callh, isinstance_=lambda v, c: v is D2 if 'date' in unparse(c) else False,
                 names={'self': finite.Sym('self')})
        try:
            mach.run(body_without_docstring(prep.node), {})
            ret = None
        except finite.Return as r:
            ret = r.value
        # specification: OPEN, then CLOSE, then CLEAR, each fed the result of the previous stage
        want = []
        cur = finite.Sym('E0')
        k = 0
        if op is not None:
            k += 1
            want.append(('open_opt', [cur, D1, finite.Sym('OPTS')], finite.Sym(f'E{k}')))
            cur = finite.Sym(f'E{k}')
        if cl is not None:
            k += 1
            want.append(('close_opt', [cur, D2 if cl is D2 else None, finite.Sym('OPTS')], finite.Sym(f'E{k}')))
            cur = finite.Sym(f'E{k}')
        if cr is not None:
            k += 1
            want.append(('clear_opt', [cur, None, finite.Sym('OPTS')], finite.Sym(f'E{k}')))
            cur = finite.Sym(f'E{k}')
        desc = f'OPEN {"ON d" if op else "absent"}, CLOSE {"ON e" if cl is D2 else "(no date)" if cl else "absent"}, CLEAR {"present" if cr else "absent"}'
        if calls != want or ret != cur:
            ok = False
            got = ' -> '.join(f'{c[0]}({", ".join(map(repr, c[1]))})' for c in calls) or 'nothing'
            exp = ' -> '.join(f'{c[0]}({", ".join(map(repr, c[1]))})' for c in want) or 'nothing'
            res.fail(prep.fq, f'callorder:{"O" if op else "-"}{"D" if cl is D2 else "C" if cl else "-"}{"X" if cr else "-"}',
                     f'with {desc} the entries are prepared by {got} (returning {ret!r}); the clauses apply in the fixed order '
                     f'OPEN, CLOSE, CLEAR, each on the result of the previous one: {exp}', loc(prep))
            break
    if ok:
        res.ok({'function': prep.fq, 'clause_combinations_executed': ncases, 'order': 'open_opt -> close_opt -> clear_opt'})
    # both row generators and PRINT start from prepare()
    from .sx_tables import rule_rowgen
    rg = rule_rowgen(P)
    for cname in ('EntriesTable', 'PostingsTable'):
        bad = [f for f in rg.findings if f.detail == 'rowgen:prepare' and f.construct.endswith(f'{cname}.__iter__')]
        it = m.classes[cname].methods.get('__iter__') if cname in m.classes else None
        if it is None or bad:
            res.fail(f'{QE}:{cname}.__iter__', 'callorder:prepare', f'{cname} must iterate the prepared entries (self.prepare(), directly or '
                     f'through the generator it builds on)', loc(it) if it else '')
        else:
            res.ok({'generator': f'{cname}.__iter__', 'source': 'self.prepare()'})
    return res


def rule_defaultclose(P) -> RuleResult:
    res = RuleResult('R-DEFAULTCLOSE')
    res.exhaustive = True
    sh = P.module(SH)
    shell = sh.classes.get('BQLShell')
    parse = shell.methods.get('parse') if shell else None
    if parse is None:
        raise AnalysisError('anchor vanished: BQLShell.parse')
    DEF = finite.Sym('DEFAULT')
    ok = True
    n = 0
    # the default date must be a per-call value: a parameter of parse(), handed over by .run for that one statement
    stores_ = [x for x in ast.walk(parse.node) if isinstance(x, ast.Assign) and unparse(x.targets[0]).endswith('.from_clause.close')]
    if len(stores_) != 1:
        raise AnalysisError(f'{parse.fq}: the store of the default close date not found')
    src_v = stores_[0].value
    if not (isinstance(src_v, ast.Name) and src_v.id in parse.params):
        res.fail(parse.fq, 'defaultclose:state', f'the default close date is taken from `{unparse(src_v)}`, not from an argument of this '
                 f'call: kept in the shell it survives the statement it was meant for and silently closes a later, unrelated '
                 f'statement', loc(parse, stores_[0]))
        return res
    dparam = src_v.id
    for is_select, is_from, close in itertools.product((True, False), (True, False), (None, False, finite.Sym('CLOSE'))):
        n += 1
        stored = []

        def exprh(e, st, mm, _c=close):
            s = unparse(e)
            if s.endswith('.from_clause.close'):
                return _c
            return finite.Sym(s)

        class M(finite.Machine):
            def stmt(self, s, st):
                if isinstance(s, ast.Assign) and isinstance(s.targets[0], ast.Attribute):
                    stored.append((unparse(s.targets[0]), self.ev(s.value, st)))
                    return st
                return super().stmt(s, st)

        def isinst(v, c, _s=is_select, _f=is_from):
            u = unparse(c)
            return _s if u.endswith('Select') else _f if u.endswith('From') else False
        mach = M(expr=exprh, call=lambda e, st, mm: finite.Sym('STMT'), isinstance_=isinst,
                 names={'self': finite.Sym('self'), parse.params[1]: finite.Sym('line'), dparam: DEF, 'kwargs': finite.Sym('kw')})
        try:
            mach.run(body_without_docstring(parse.node), {})
        except finite.Return:
            pass
        want = is_select and is_from and not close
        did = any(t.endswith('.from_clause.close') and v is DEF for t, v in stored)
        if did != want or (not want and stored):
            ok = False
            res.fail(parse.fq, f'defaultclose:{int(is_select)}{int(is_from)}{"set" if close else "unset"}',
                     f'statement {"is" if is_select else "is not"} a SELECT, FROM clause {"is" if is_from else "is not"} a FROM expression, '
                     f'CLOSE {"given" if close else "not given"}: default close date {"applied" if did else "not applied"}; it must be '
                     f'applied exactly when a SELECT has a FROM expression without CLOSE', loc(parse))
            break
    if ok:
        res.ok({'function': parse.fq, 'cases': n})
    run = shell.methods.get('do_run')
    if run is None or unparse(run.node).count('default_close_date=query.date') < 2:
        res.fail(f'{shell.fq}.do_run', 'defaultclose:run', '.run must execute the named query with the date of its query directive as default close date',
                 loc(run) if run else '')
    else:
        res.ok({'function': run.fq, 'passes': 'default_close_date=query.date'})
    return res


# ----------------------------------------------------------------------
# R-FIELDFLOW (C14)

SELECT_FIELDS = ['targets', 'from_clause', 'where_clause', 'group_by', 'order_by', 'pivot_by', 'limit', 'distinct']


def rule_fieldflow(P) -> RuleResult:
    res = RuleResult('R-FIELDFLOW')
    m = P.module(CO)
    astm = P.module('beanquery.parser.ast')
    sel = astm.assigns.get('Select')
    if not (isinstance(sel, ast.Call) and len(sel.args) == 2 and sel.args[1].value.split() == SELECT_FIELDS):
        raise AnalysisError('ast.Select no longer has the field list this rule knows')
    from .sx_compiler import transform_cases
    transform_cases(P, res)
    sh = P.modules.get(SH)
    if sh is not None:
        shell = sh.classes.get('BQLShell')
        for meth in ('on_Journal', 'on_Balances'):
            f = shell.methods.get(meth) if shell else None
            if f is None or 'return self.on_Select(' not in unparse(f.node):
                res.fail(f'{SH}:BQLShell.{meth}', 'fieldflow:shell', f'{meth} must be handled like a SELECT', loc(f) if f else '')
            else:
                res.ok({'shell_handler': meth, 'delegates': 'on_Select'})
    return res


# ----------------------------------------------------------------------
# R-PIVOTSHAPE (C15): role-based probes on the PIVOT branch of execute_query.  Every probe finds its anchor by what the
# statement *does* (not by variable names); a missing anchor is an unknown shape (AnalysisError), a found anchor with the
# wrong property is a violation.

def rule_pivotshape(P) -> RuleResult:
    res = RuleResult('R-PIVOTSHAPE')
    fi = P.func(QX, 'execute_query')
    blk = None
    for n in ast.walk(fi.node):
        if isinstance(n, ast.If) and 'EvalPivot' in unparse(n.test):
            blk = n
    if blk is None:
        raise AnalysisError('anchor vanished: the PIVOT branch of execute_query')
    body = blk.body
    construct = fi.fq + ':pivot'

    def assigns():
        for st in ast.walk(ast.Module(body=body, type_ignores=[])):
            if isinstance(st, ast.Assign) and len(st.targets) == 1:
                yield st

    def fail(detail, msg, node=None):
        res.fail(construct, 'pivotshape:' + detail, msg, loc(fi, node or blk))

    def unknown(what):
        raise AnalysisError(f'{fi.fq}: pivot branch: {what} not found: shape not understood')
    n0 = len(res.findings)
    # roles --------------------------------------------------------------
    piv = [st for st in assigns() if isinstance(st.targets[0], ast.Tuple) and len(st.targets[0].elts) == 2
           and unparse(st.value).endswith('.pivots')]
    if len(piv) != 1:
        unknown('`first, second = query.pivots`')
    c1, c2 = (unparse(x) for x in piv[0].targets[0].elts)
    pivots_src = unparse(piv[0].value)
    sel = [st for st in assigns() if isinstance(st.value, ast.Call) and unparse(st.value.func) == 'execute_select'
           and isinstance(st.targets[0], ast.Tuple)]
    if len(sel) != 1:
        unknown('`columns, rows = execute_select(...)`')
    cols, rows = (unparse(x) for x in sel[0].targets[0].elts)
    if unparse(sel[0].value.args[0]) != pivots_src[:-len('.pivots')] + '.query':
        fail('source', 'the pivot is not computed from the underlying SELECT of this very statement', sel[0])
    # remaining columns: all result columns but the two pivots
    oth = [st for st in assigns() if isinstance(st.value, ast.ListComp) and 'range(len(' + cols + '))' in unparse(st.value)]
    if len(oth) != 1:
        unknown('the list of remaining column indexes')
    othercols = unparse(oth[0].targets[0])
    g = oth[0].value.generators[0]
    iv = unparse(g.target)
    if not (unparse(oth[0].value.elt) == iv and len(g.ifs) == 1 and unparse(g.ifs[0]) in (f'{iv} not in {pivots_src}', f'{iv} not in ({c1}, {c2})')):
        fail('others', f'the remaining columns are all result columns except the two pivot columns; found `{unparse(oth[0].value)}`', oth[0])
    nd = [st for st in assigns() if unparse(st.value) == f'len({othercols})']
    if len(nd) != 1:
        unknown('the number of remaining columns')
    nother = unparse(nd[0].targets[0])
    # keys: distinct values of the second column, ascending
    kd = [st for st in assigns() if any(isinstance(x, (ast.SetComp, ast.GeneratorExp, ast.ListComp)) and unparse(x.elt).endswith(f'[{c2}]')
                                        and unparse(x.generators[0].iter) == rows for x in ast.walk(st.value))]
    if len(kd) != 1:
        unknown('the set of values of the second pivot column')
    keys = unparse(kd[0].targets[0])
    v = kd[0].value
    if not (isinstance(v, ast.Call) and unparse(v.func) == 'sorted' and not any(k.arg == 'reverse' for k in v.keywords)
            and isinstance(v.args[0], (ast.SetComp,)) or
            (isinstance(v, ast.Call) and unparse(v.func) == 'sorted' and isinstance(v.args[0], ast.Call) and unparse(v.args[0].func) == 'set')):
        fail('keys', f'one block per *distinct* value of the second column, *ascending*: sorted(set of row[{c2}]); found `{unparse(v)}`', kd[0])
    # naming switch
    sw = [n for n in ast.walk(ast.Module(body=body, type_ignores=[])) if isinstance(n, ast.If) and nother in unparse(n.test)]
    if len(sw) != 1:
        unknown('the naming switch on the number of remaining columns')
    if unparse(sw[0].test) not in (f'{nother} > 1', f'{nother} >= 2', f'1 < {nother}'):
        fail('names-switch', f'value/column names apply exactly when more than one column remains; the switch is `{unparse(sw[0].test)}`', sw[0])
    many, one = unparse(ast.Module(body=sw[0].body, type_ignores=[])), unparse(ast.Module(body=sw[0].orelse, type_ignores=[]))
    if f'itertools.product({keys}, ' not in many or "/{" not in many:
        fail('names-many', 'with several remaining columns the blocks are named value/column, key-major (product(keys, remaining columns))', sw[0])
    if "f'{" not in one or '/' in one.split('+', 1)[-1]:
        fail('names-one', 'with one remaining column each block is named by its key value', sw[0])
    for part in (many, one):
        if f"{cols}[{c1}].name" not in part or f"{cols}[{c2}].name" not in part:
            fail('lead-name', 'the leading column is named first/second', sw[0])
    # datatypes
    dt = [st for st in assigns() if '.datatype' in unparse(st.value) and isinstance(st.value, ast.BinOp)]
    if len(dt) != 1:
        unknown('the list of result datatypes')
    dv = dt[0].value
    if not (isinstance(dv.op, ast.Add) and unparse(dv.left) == f'[{cols}[{c1}].datatype]' and isinstance(dv.right, ast.BinOp)
            and isinstance(dv.right.op, ast.Mult) and unparse(dv.right.right) == f'len({keys})'
            and '.datatype' in unparse(dv.right.left)):
        fail('datatypes', "the leading column keeps the first pivot column's datatype and each of the len(keys) blocks repeats the "
             f'datatypes of the remaining columns; found `{unparse(dv)}`', dt[0])
    # rows: sorted by the first column, unconditionally, then grouped by it
    sorts = [n for n in ast.walk(ast.Module(body=body, type_ignores=[])) if isinstance(n, ast.Call) and isinstance(n.func, ast.Attribute)
             and n.func.attr == 'sort' and unparse(n.func.value) == rows]
    srt_assign = [st for st in assigns() if unparse(st.targets[0]) == rows and isinstance(st.value, ast.Call) and unparse(st.value.func) == 'sorted']
    grp = [n for n in ast.walk(ast.Module(body=body, type_ignores=[])) if isinstance(n, ast.For) and isinstance(n.iter, ast.Call)
           and unparse(n.iter.func) == 'itertools.groupby']
    if len(grp) != 1:
        unknown('the loop over groups of rows sharing the first pivot value')
    gl = grp[0]
    keyok = lambda call: any(k.arg == 'key' and unparse(k.value) in (f'operator.itemgetter({c1})', f'lambda row: row[{c1}]', f'lambda r: r[{c1}]')
                             for k in call.keywords)
    if not keyok(gl.iter) or unparse(gl.iter.args[0]) != rows:
        fail('rows', f'output rows are the groups of result rows sharing the value of the first pivot column; found `{unparse(gl.iter)}`', gl)
    top_sorts = [st for st in body if isinstance(st, ast.Expr) and any(st.value is c for c in sorts)] + [st for st in body if st in srt_assign]
    if not sorts and not srt_assign:
        fail('rows-sorted', 'rows must be sorted by the first pivot column before they are grouped (groupby only merges adjacent rows)', gl)
    elif not top_sorts:
        fail('rows-sorted', 'the sort by the first pivot column is conditional: when it is skipped, groupby splits the rows of one value '
             'into several output rows and the rows are not ascending', sorts[0] if sorts else srt_assign[0])
    else:
        call = sorts[0] if sorts else srt_assign[0].value
        if not keyok(call) or any(k.arg == 'reverse' for k in call.keywords):
            fail('rows-sorted', f'rows must be sorted ascending by the first pivot column; found `{unparse(call)}`', top_sorts[0])
        elif body.index(top_sorts[0]) > next(i for i, st in enumerate(body) if any(x is gl for x in ast.walk(st))):
            fail('rows-sorted', 'rows are sorted after they were grouped', top_sorts[0])
    # block placement
    idx = [st for st in ast.walk(gl) if isinstance(st, ast.Assign) and f'{keys}.index(' in unparse(st.value)]
    if len(idx) != 1:
        unknown('the block index computation')
    iv2 = idx[0].value
    want_idx = isinstance(iv2, ast.BinOp) and isinstance(iv2.op, ast.Add) and unparse(iv2.right) == '1' and isinstance(iv2.left, ast.BinOp) \
        and isinstance(iv2.left.op, ast.Mult) and {unparse(iv2.left.left), unparse(iv2.left.right)} >= {nother} \
        and re.fullmatch(re.escape(keys) + r'\.index\(\w+\[' + re.escape(c2) + r'\]\)', unparse(iv2.left.left if nother == unparse(iv2.left.right) else iv2.left.right))
    if not want_idx:
        fail('placement', f'the block of key k starts at keys.index(k) * (number of remaining columns) + 1; found `{unparse(iv2)}`', idx[0])
    index = unparse(idx[0].targets[0])
    sl = [st for st in ast.walk(gl) if isinstance(st, ast.Assign) and isinstance(st.targets[0], ast.Subscript) and isinstance(st.targets[0].slice, ast.Slice)]
    if len(sl) != 1:
        unknown('the block store into the output row')
    s0 = sl[0].targets[0].slice
    if not (unparse(s0.lower) == index and unparse(s0.upper).replace(' ', '') in (f'{index}+{nother}', f'{nother}+{index}')):
        fail('placement', f'a block occupies [index : index + number of remaining columns]; found `[{unparse(s0)}]`', sl[0])
    outrow = unparse(sl[0].targets[0].value)
    od = [st for st in ast.walk(gl) if isinstance(st, ast.Assign) and unparse(st.targets[0]) == outrow]
    if len(od) != 1:
        unknown('the initial output row')
    if 'None' not in unparse(od[0].value) or f'len({cols}) - 1' not in unparse(od[0].value).replace(f'len({cols})-1', f'len({cols}) - 1'):
        fail('fill', f'missing combinations are NULL: the output row starts as [first value] + [None] * (columns - 1); found `{unparse(od[0].value)}`', od[0])
    if len(res.findings) == n0:
        res.ok({'function': fi.fq, 'probes': ['source', 'remaining columns', 'keys sorted distinct', 'naming switch', 'names', 'datatypes',
                                              'rows sorted unconditionally + grouped', 'block placement', 'NULL fill']})
    return res


# ----------------------------------------------------------------------
# C19

def rule_settings(P) -> RuleResult:
    res = RuleResult('R-SETTINGS')
    sh = P.module(SH)
    st = sh.classes.get('Settings')
    if st is None:
        raise AnalysisError('anchor vanished: shell.Settings')
    fields = {}
    for s in st.node.body:
        if isinstance(s, ast.AnnAssign) and isinstance(s.target, ast.Name):
            fields[s.target.id] = unparse(s.annotation)
    if len(fields) < 8:
        raise AnalysisError('Settings dataclass fields not found')
    # (a) parsers, (b) setstr, (c) echo: on terms
    from . import sx_shell
    if 'format' in fields and '_parse_format' not in st.methods:
        res.fail(f'{st.fq}.format', 'settings:parser:format', 'setting `format` has no parser that rejects invalid values with ValueError')
    sx_shell.bool_parser_cases(P, res)
    sx_shell.setstr_cases(P, res)
    sx_shell.getstr_cases(P, res)
    # (d) do_set validates the name against the fields before reflecting on it
    ds = sh.classes['DispatchingShell'].methods.get('do_set') if 'DispatchingShell' in sh.classes else None
    if ds is None:
        raise AnalysisError('anchor vanished: DispatchingShell.do_set')
    from .sx_compiler import set_name_cases, format_parser_cases
    set_name_cases(P, res)
    format_parser_cases(P, res)
    # (e) every setting is consumed: keyword of a renderer, or read explicitly
    consumed = set()
    for mod in ('beanquery.query_render',):
        rm = P.modules.get(mod)
        if rm:
            for fn in ('render_text', 'render_csv', 'render_rows'):
                for f in rm.toplevel_funcs.get(fn, []):
                    consumed.update(a.arg for a in f.node.args.args + f.node.args.kwonlyargs)
    shell_src = unparse(sh.tree)
    for name in fields:
        if name in consumed or f'self.settings.{name}' in shell_src:
            res.ok({'setting': name, 'consumed': True})
        else:
            res.fail(f'{st.fq}.{name}', f'settings:unused:{name}', f'setting `{name}` is neither a keyword parameter of a renderer nor read by '
                     f'the shell: changing it has no effect')
    return res


def rule_optused(P) -> RuleResult:
    res = RuleResult('R-OPTUSED')
    sh = P.module(SH)
    mains = sh.toplevel_funcs.get('main')
    if not mains:
        raise AnalysisError('anchor vanished: shell.main')
    fi = mains[-1]
    opts = [unparse(d) for d in fi.node.decorator_list if 'click.option' in unparse(d) or 'click.argument' in unparse(d)]
    params = fi.params
    if len(opts) < 5:
        raise AnalysisError('click options of main not found')
    body = ast.Module(body=fi.node.body, type_ignores=[])
    for p in params:
        reads = [n for n in ast.walk(body) if isinstance(n, ast.Name) and n.id == p and isinstance(n.ctx, ast.Load)]
        if not reads:
            res.fail(fi.fq, f'optused:{p}', f'command line option `{p}` is accepted but never read: it has no effect', loc(fi))
        else:
            res.ok({'option': p, 'reads': len(reads)})
    # the options reach the shell
    shell = sh.classes.get('BQLShell')
    init = shell.methods.get('__init__') if shell else None
    calls = [n for n in ast.walk(body) if isinstance(n, ast.Call) and unparse(n.func) == 'BQLShell']
    if init is None or len(calls) != 1:
        raise AnalysisError('construction of BQLShell in main not understood')
    ip = init.params[1:]
    bound = {}
    for i, a in enumerate(calls[0].args):
        if i < len(ip):
            bound[ip[i]] = unparse(a)
    for k in calls[0].keywords:
        bound[k.arg] = unparse(k.value)
    for opt, param in (('format', 'format'), ('numberify', 'numberify'), ('output', 'outfile'), ('no_errors', 'no_errors'), ('filename', 'filename')):
        if bound.get(param) != opt:
            res.fail(fi.fq, f'optused:wire:{opt}', f'option `{opt}` must be passed to the shell as `{param}`; the shell receives `{bound.get(param)}`', loc(fi))
        else:
            res.ok({'option': opt, 'shell_parameter': param})
    # and are used there
    isrc = unparse(init.node)
    if 'Settings(format=format, numberify=numberify)' not in isrc:
        res.fail(init.fq, 'optused:settings', '-f and -m must initialise the format and numberify settings', loc(init))
    rl = shell.methods.get('do_reload')
    if 'no_errors' in ip:
        gated = False
        if rl is not None:
            for n in ast.walk(rl.node):
                if isinstance(n, ast.If) and 'print_errors' in unparse(ast.Module(body=n.body, type_ignores=[])):
                    t = unparse(n.test).replace('(', '').replace(')', '')
                    gated = 'not self.no_errors' in t and 'self.context.errors' in t
        if not gated or 'self.no_errors = no_errors' not in isrc:
            res.fail(f'{shell.fq}.do_reload', 'optused:no_errors', '-q must suppress the ledger error report printed when the ledger is loaded', loc(rl) if rl else '')
        else:
            res.ok({'option': 'no_errors', 'effect': 'error report skipped'})
    return res


def rule_dispatch(P) -> RuleResult:
    """DispatchingShell.onecmd on terms, over dot prefix x command defined x bare name in the legacy set: dot-commands never reach
    execute(), other lines do unless their first word is a legacy command name; the legacy names are disjoint from the statement
    keywords and each has its do_ method."""
    from ..symex import Sym as _S, T as _T, SList as _L, Engine as _E, show as _sh, _const_eval, _fresh_constant, _NotConstant
    res = RuleResult('R-DISPATCH')
    res.exhaustive = True
    sh = P.module(SH)
    ds = sh.classes.get('DispatchingShell')
    oc = ds.methods.get('onecmd') if ds else None
    pl = ds.methods.get('parseline') if ds else None
    if oc is None or pl is None:
        raise AnalysisError('anchor vanished: DispatchingShell.onecmd / parseline')
    SELF, LINE_IN = _S('SHELL'), _S('INPUT_LINE')
    CMD, ARG, LINE, CMD_L, HANDLER = _S('CMD'), _S('ARG'), _S('LINE'), _S('cmd'), _S('HANDLER')
    legacy_seen = []
    outcomes = {}
    for dotted, known, is_legacy in itertools.product((True, False), (True, False), (True, False)):
        def on_attr(base, attr, ex):
            if base == SELF and attr in ds.attrs:
                try:
                    return _fresh_constant(('lit', _const_eval(ds.attrs[attr])))
                except _NotConstant:
                    return NotImplemented
            return NotImplemented

        def on_call(fn, fv, rc, args, kw, ex, node, _k=known, _d=dotted):
            name = str(fn)
            last = name.split('.')[-1]
            if rc == SELF and last == 'parseline':
                return _T('tuple', (CMD, ARG, LINE))
            if last == 'startswith' and rc in (LINE, LINE_IN) and args == ('.',):
                return _d
            if last == 'lower' and rc in (CMD, CMD_L):
                return CMD_L
            if name == 'getattr' and len(args) >= 2 and args[0] == SELF:
                return HANDLER if _k else (args[2] if len(args) > 2 else None)
            if name == 'hasattr' and len(args) == 2 and args[0] == SELF:
                return _k
            if rc == SELF and last == 'execute':
                ex.events.append(('did', 'execute', args))
                return _S('RESULT')
            if fv == HANDLER:
                ex.events.append(('did', 'command', args))
                return _S('RESULT')
            if rc == SELF and last == 'error':
                ex.events.append(('did', 'error', args))
                return None
            if name == 'warnings.warn':
                ex.events.append(('did', 'warn', args))
                return None
            return NotImplemented

        def oracle(term, ex, _l=is_legacy):
            if term in (CMD, CMD_L):
                return True
            if isinstance(term, _T) and term.op == 'cmp' and term.args[0] in ('in', 'not in') and term.args[1] in (CMD, CMD_L):
                c = term.args[2]
                if isinstance(c, _L) and not c.opaque_tail and all(isinstance(x, str) for x in c.items):
                    legacy_seen.append(frozenset(c.items))
                return _l == (term.args[0] == 'in')
            return None
        paths = _E(P, on_attr=on_attr, on_call=on_call, oracle=oracle, max_depth=0).paths(oc, {'self': SELF, oc.params[1]: LINE_IN})
        key = (dotted, known, is_legacy)
        for p in paths:
            if p.decisions:
                raise AnalysisError(f'{oc.fq}: undecided test `{_sh(p.decisions[0][0])[:60]}`')
            outcomes.setdefault(key, []).append([e[1] for e in p.events if e[0] == 'did'] + (['raise ' + p.value[0]] if p.outcome == 'raise' else []))
    if not legacy_seen or len(set(legacy_seen)) != 1:
        raise AnalysisError(f'legacy command set of onecmd not found on terms ({len(set(legacy_seen))} candidate sets)')
    legacy = set(legacy_seen[0])
    from .compiler_rules import grammar_classes
    _, text = grammar_classes(P)
    kw = set(re.findall(r"'([A-Z]+)'", '\n'.join(l for l in text.splitlines() if l.startswith('@@keyword') or l.startswith("    '"))))
    starters = {'SELECT', 'BALANCES', 'JOURNAL', 'PRINT'}
    clash = {c for c in legacy if c.upper() in starters}
    if clash:
        res.fail(oc.fq, 'dispatch:clash', f'bare command names {sorted(clash)} are also statement keywords: such statements are run as commands', loc(oc))
    else:
        res.ok({'legacy_commands': sorted(legacy), 'disjoint_from_statement_keywords': True})
    for c in sorted(legacy):
        if not any(f'do_{c}' in k.methods or f'do_{c}' in k.attrs for k in sh.classes.values()):
            res.fail(oc.fq, f'dispatch:missing:{c}', f'bare command `{c}` has no do_{c} method', loc(oc))
    # the dispatch over its cases
    n = 0
    ok = True
    for (dotted, known, is_legacy), evs in sorted(outcomes.items(), reverse=True):
        n += 1
        if dotted:
            want = ['command'] if known else ['error']
        elif not is_legacy:
            want = ['execute']
        else:
            want = ['warn', 'command'] if known else ['warn', 'error']
        for events in evs:
            if events != want and ok:
                ok = False
                res.fail(oc.fq, f'dispatch:{"dot" if dotted else "bare"}:{"known" if known else "unknown"}:{"legacy" if is_legacy else "other"}',
                         f'a line {"with" if dotted else "without"} the dot prefix, command {"defined" if known else "not defined"}, '
                         f'{"in" if is_legacy else "not in"} the legacy set leads to {events}; expected {want} (dot-commands are never run as '
                         f'queries nor queries as commands)', loc(oc))
            elif events == want:
                res.ok({'function': oc.fq, 'dot_prefix': dotted, 'command_defined': known, 'legacy_name': is_legacy, 'leads_to': events})
    return res

