"""Rules on compiler.py: R-IDXBOUND, R-HIDDEN, R-VISFILTER, R-TARGETCHK, R-GUARDS, R-RAISE, R-EXHAUSTIVE,
R-WILDCARD, R-NAMESLICE, R-PLACEHOLDER."""
from __future__ import annotations

import ast
import json
import os
import re

from .. import finite, registry
from ..loader import AnalysisError, FuncInfo, ClassInfo, loc, body_without_docstring, is_none
from ..report import RuleResult, VERIF

CO = 'beanquery.compiler'
QC = 'beanquery.query_compile'
QX = 'beanquery.query_execute'


def unparse(n):
    return ast.unparse(n)


def _method(P, name):
    return P.func(CO, f'Compiler.{name}')


# ----------------------------------------------------------------------
# R-IDXBOUND











# ----------------------------------------------------------------------
# R-HIDDEN  (C03, C07)

def rule_hidden(P) -> RuleResult:
    res = RuleResult('R-HIDDEN')
    # SELECT targets are named by get_target_name(); helper targets (below) have no name
    from .sx_compiler import select_target_cases
    select_target_cases(P, res)
    # helper targets are appended after the visible ones: decided on the paths of _compile_select
    from .sx_compiler import targets_flow_cases
    targets_flow_cases(P, res, 'hidden')
    from .sx_compiler import helper_target_cases
    helper_target_cases(P, res)
    # naming priority: decided on the paths of get_target_name
    from .sx_compiler import naming_cases
    naming_cases(P, res)
    return res


# ----------------------------------------------------------------------
# R-TARGETNODE (C02, C12): the part of R-HIDDEN that is about accumulation - every SELECT target, also one that repeats an
# earlier target, is compiled to an evaluator node of its own: an aggregate node is the accumulator of its target, and a node
# shared by two targets is allocated and updated twice per row

def rule_targetnode(P) -> RuleResult:
    res = RuleResult('R-TARGETNODE')
    from .sx_compiler import select_target_cases
    select_target_cases(P, res, nodes_only=True)
    return res


# ----------------------------------------------------------------------
# R-VISFILTER (C07, C08)

def rule_visfilter(P) -> RuleResult:
    """What a compiled query shows of itself is its visible targets only, in order: EvalQuery.columns and the subquery table, decided
    on terms with hidden targets between and after the visible ones (the executor's own projection is R-PIPELINE)."""
    from ..symex import Sym as _S, T as _T, SList as _L, Engine as _E, show as _sh
    res = RuleResult('R-VISFILTER')
    eq = P.cls(QC, 'EvalQuery')
    cols = eq.methods.get('columns')
    if cols is None:
        raise AnalysisError('anchor vanished: EvalQuery.columns')
    Q = _S('QUERY')
    names = {_S('T0'): 'a', _S('H'): None, _S('T1'): 'b', _S('H2'): None}
    order = list(names)

    def on_attr(base, attr, ex):
        if base == Q and attr == 'c_targets':
            return _L(list(order))
        if base in names and attr == 'name':
            return names[base]
        return NotImplemented
    for p in _E(P, on_attr=on_attr).paths(cols, {'self': Q}):
        v = p.value
        items = list(v.items) if isinstance(v, _L) and not v.opaque_tail and not v.tail else \
            list(v.args) if isinstance(v, _T) and v.op == 'tuple' else None
        if p.outcome == 'return' and not p.decisions and items == [t for t in order if names[t] is not None]:
            res.ok({'site': cols.fq, 'targets': ['a', None, 'b', None], 'columns': ['a', 'b']})
        else:
            res.fail(cols.fq, 'visfilter:unfiltered', f'EvalQuery.columns must be the visible targets (those with a name) in their '
                     f'order; with targets named a, (hidden), b, (hidden) it gives `{_sh(v)[:80]}`', loc(cols))
    _visfilter_subquery(P, res)
    return res


def rule_subqnames(P) -> RuleResult:
    """`SELECT * FROM (q)` returns q's rows and description unchanged: the subquery table presents one column per visible target
    of q, in order - also when two targets of q have the same name."""
    from ..symex import Sym as _S, T as _T, SList as _L, Engine as _E, show as _sh
    res = RuleResult('R-SUBQNAMES')
    res.exhaustive = True
    st = P.cls(QC, 'SubqueryTable')
    init = st.methods.get('__init__')
    wc = P.find_method(st, 'wildcard_columns')
    if init is None or not isinstance(wc, FuncInfo):
        raise AnalysisError('anchor vanished: SubqueryTable.__init__ / wildcard_columns')
    SELF, SUB = _S('SELF'), _S('SUBQ')
    # (un-aliased expressions are named by their source text: `sum(x)` is a column name like any other)
    for label, vis_names in (('distinct names', ['c', 'a', 'b']), ('a repeated name', ['c', 'a', 'c', 'b']),
                             ('expression texts as names', ['sum(x)', 'a', 'count(*)', 'Year(date)'])):
        tg = [_S(f'T{i}') for i in range(len(vis_names))]
        names = dict(zip(tg, vis_names))
        HID = _S('H')
        order = tg[:1] + [HID] + tg[1:]

        def on_attr(base, attr, ex):
            if base == SUB and attr == 'c_targets':
                return _L(list(order))
            if base == SUB and attr == 'columns':
                return _L(list(tg))
            if base in names and attr == 'name':
                return names[base]
            if base == HID and attr == 'name':
                return None
            return NotImplemented

        def on_call(fname, fval, recv, args, kw, ex, node):
            if recv == SELF and isinstance(fname, str) and fname.endswith('.column'):
                return _T('colclass', tuple(args))
            if isinstance(fval, _T) and fval.op == 'colclass':
                return _T('colinst', fval.args)
            return NotImplemented
        for p in _E(P, on_attr=on_attr, on_call=on_call).paths(init, {'self': SELF, 'subquery': SUB}):
            if p.outcome == 'raise':
                res.fail(init.fq, 'subqnames:rejected', f'a subquery with {label} among its targets is rejected ({p.value[0]})', loc(init))
                continue
            heap = dict(p.heap)

            def on_attr2(base, attr, ex, _h=heap):
                v = _h.get(_T('attr', (base, attr)))
                return v if v is not None else NotImplemented
            for q in _E(P, on_attr=on_attr2).paths(wc, {'self': SELF}):
                v = q.value
                items = list(v.items) if isinstance(v, _L) and not v.opaque_tail else list(v.args) if isinstance(v, _T) and v.op == 'tuple' else None
                if items is None:
                    raise AnalysisError(f'{wc.fq}: the expansion of `*` is not a concrete list of names on terms: {_sh(v)[:80]}')
                if items == vis_names:
                    res.ok({'subquery_targets': vis_names, 'star_expands_to': items})
                else:
                    res.fail(init.fq, ('subqnames:merged' if label == 'a repeated name' else 'subqnames:lost') if len(items) < len(vis_names) else 'subqnames:order',
                             f'`SELECT * FROM (q)` must return q\'s rows and description unchanged; with {label} among the visible targets '
                             f'of q ({vis_names}) the subquery table presents {items}: columns are kept in a mapping keyed by name, so '
                             f'targets of the same name collapse into one column', loc(init))
    return res


def _visfilter_subquery(P, res):
    """SubqueryTable on terms: with a hidden inner target between two visible ones, every visible name maps to a column built from
    its position among the *visible* targets and its own data type; the rows are the result rows of that same subquery."""
    from ..symex import Sym as _S, T as _T, SList as _L, Engine as _E, show as _sh
    st = P.cls(QC, 'SubqueryTable')
    init = st.methods.get('__init__')
    if init is None:
        raise AnalysisError('anchor vanished: SubqueryTable.__init__')
    SELF, SUB = _S('SELF'), _S('SUBQ')
    # a mixed-case name (names are expression texts), a hidden target in between, a repeated name, a hidden target at the end
    names = {_S('T0'): 'Sum(a)', _S('H'): None, _S('T1'): 'b', _S('T2'): 'Sum(a)', _S('T3'): 'c', _S('H2'): None}
    order = list(names)
    visible = [t for t in order if names[t] is not None]

    def on_attr(base, attr, ex):
        if base == SUB and attr == 'c_targets':
            return _L(list(order))
        if base == SUB and attr == 'columns':
            # EvalQuery.columns: the visible targets
            return _L(list(visible))
        if base in names and attr == 'name':
            return names[base]
        return NotImplemented

    def on_call(fname, fval, recv, args, kw, ex, node):
        if recv == SELF and isinstance(fname, str) and fname.endswith('.column'):
            return _T('colclass', tuple(args))
        if isinstance(fval, _T) and fval.op == 'colclass':
            return _T('colinst', fval.args)
        return NotImplemented

    # a later target of the same name replaces the earlier one; positions count every visible target
    want = {}
    for i, t in enumerate(visible):
        want[names[t]] = _T('colinst', (i, names[t], _T('attr', (_T('attr', (t, 'c_expr')), 'dtype'))))
    for p in _E(P, on_attr=on_attr, on_call=on_call).paths(init, {'self': SELF, 'subquery': SUB}):
        if p.decisions or p.outcome == 'raise':
            res.fail(init.fq, 'visfilter:subquery-index', f'SubqueryTable.__init__ does not run straight through on concrete targets '
                     f'({p.outcome}, {[_sh(d[0])[:40] for d in p.decisions]})', loc(init))
            continue
        cols = p.heap.get(_T('attr', (SELF, 'columns')))
        got = None
        if isinstance(cols, _L) and cols.kind == "dict" and not cols.tail and not cols.opaque_tail:
            got = {k: v for k, v in cols.items}
        if cols is None:
            res.fail(init.fq, 'visfilter:subquery-index', 'SubqueryTable.__init__ does not create the column mapping of this table: the '
                     'columns it registers go into a mapping that other subquery tables share, so a table shows columns its inner '
                     'query does not have', loc(init))
            continue
        if got is None:
            raise AnalysisError(f'{init.fq}: self.columns is not a concrete mapping on terms: {_sh(cols)[:80]}')
        if got == want:
            res.ok({'site': init.fq, 'targets': [names[t] for t in order], 'columns': {k: _sh(v) for k, v in got.items()}})
        elif set(got) != set(want):
            res.fail(init.fq, 'visfilter:subquery-index', f'the columns of a subquery table must be the visible targets of the inner query; '
                     f'targets named {[names[t] or "(hidden)" for t in order]} give columns {sorted(map(str, got))}', loc(init))
        else:
            bad = [k for k in want if got[k] != want[k]]
            k = bad[0]
            res.fail(init.fq, 'visfilter:subquery-index',
                     f'the result rows of the inner query hold the visible targets only, so column {k!r} must read its position among the '
                     f'visible targets with its own data type: want {_sh(want[k])}, found {_sh(got[k])[:80]}', loc(init))
        if p.heap.get(_T('attr', (SELF, 'subquery'))) != SUB:
            res.fail(init.fq, 'visfilter:subquery-rows', 'SubqueryTable does not keep the subquery it was built from', loc(init))
    # the column accessor reads exactly position i
    colf = st.methods.get('column')
    if colf is not None:
        src = unparse(colf.node)
        if 'itemgetter(i)' in src.replace(' ', '') or 'row[i]' in src:
            res.ok({'site': colf.fq, 'reads': 'row[i]'})
        else:
            res.info('SubqueryTable.column: accessor shape not recognised (not judged)')
    # rows come from execute_query on the same subquery
    it_ = st.methods.get('__iter__')
    if it_ is None:
        res.fail(st.fq + '.__iter__', 'visfilter:subquery-rows', 'the rows of a subquery table must be the result rows of that subquery',
                 loc(st))
        return
    COLS, ROWS = _S('COLS'), _S('ROWS')
    seen = []

    def on_call2(fname, fval, recv, args, kw, ex, node):
        if isinstance(fname, str) and fname.split('.')[-1] == 'execute_query':
            seen.append(tuple(args))
            return _L([COLS, ROWS], kind='tuple')
        return NotImplemented

    def on_attr2(base, attr, ex):
        if base == SELF and attr == 'subquery':
            return SUB
        return NotImplemented

    for p in _E(P, on_attr=on_attr2, on_call=on_call2).paths(it_, {'self': SELF}):
        v = p.value
        while isinstance(v, _T) and v.op == 'call' and v.args[0] in ('iter', 'list', 'tuple') and len(v.args[1]) == 1:
            v = v.args[1][0]
        if p.outcome == 'return' and v == ROWS and seen and all(a[:1] == (SUB,) for a in seen):
            res.ok({'site': it_.fq, 'rows': 'the rows of execute_query(self.subquery)'})
        else:
            res.fail(st.fq + '.__iter__', 'visfilter:subquery-rows', f'the rows of a subquery table must be the result rows of that '
                     f'subquery; found `{_sh(p.value)[:80]}` after execute_query{[tuple(_sh(x) for x in a) for a in seen]}', loc(it_))


# ----------------------------------------------------------------------
# R-TARGETCHK (C05)







# ----------------------------------------------------------------------
# R-RAISE (C05)

ALLOW_RAISE = {
    ('Compiler._compile', 'NotImplementedError'): 'default of the dispatcher: unreachable for nodes the grammar produces (R-EXHAUSTIVE)',
    ('Compiler._compile_from', 'NotImplementedError'): 'after the three node kinds the grammar admits in FROM',
    ('Compiler._compile_pivot_by', 'RuntimeError'): 'after the two element kinds the grammar admits in PIVOT BY',
}
# TypeError for the wrong kind of `parameters` argument is misuse of the DB-API call, not a statement rejection: allowed wherever
# the raise is guarded by an isinstance test against Mapping / Sequence (whichever function holds the check)
PARAM_KIND_WHY = 'wrong kind of `parameters` argument: misuse of the DB-API call, not a statement rejection'


def _param_kind_guard(fi, node):
    parents = {}
    for n in ast.walk(fi.node):
        for c in ast.iter_child_nodes(n):
            parents[id(c)] = n
    cur = node
    while id(cur) in parents:
        cur = parents[id(cur)]
        if isinstance(cur, ast.If):
            for x in ast.walk(cur.test):
                if isinstance(x, ast.Call) and isinstance(x.func, ast.Name) and x.func.id == 'isinstance' and len(x.args) == 2 \
                        and unparse(x.args[1]).split('.')[-1] in ('Mapping', 'Sequence'):
                    return True
    return False


def _exc_family(P, module, name):
    """Does class `name` (as seen from module) derive from errors.ProgrammingError?"""
    d = module.dotted(ast.Name(id=name, ctx=ast.Load())) if '.' not in name else None
    tgt = P.lookup(d) if d else None
    if isinstance(tgt, ClassInfo):
        return P.is_subclass(tgt, 'beanquery.errors:ProgrammingError')
    return False


def _raise_owner(m, fi):
    """The function a raise site belongs to for the purpose of ALLOW_RAISE: closures belong to the function that defines them, and a
    private helper belongs to the one function that uses it."""
    q = fi.qualname.split('.<locals>.')[0]
    name = q.split('.')[-1]
    if name.startswith('_') and (q, ) and not any(k[0] == q for k in ALLOW_RAISE):
        users = set()
        for other in m.functions.values():
            oq = other.qualname.split('.<locals>.')[0]
            if oq == q:
                continue
            for n in ast.walk(other.node):
                if (isinstance(n, ast.Attribute) and n.attr == name) or (isinstance(n, ast.Name) and n.id == name):
                    users.add(oq)
        if len(users) == 1:
            return users.pop()
    return q


def rule_raise(P) -> RuleResult:
    res = RuleResult('R-RAISE')
    mods = [P.module(CO), P.module('beanquery.parser')]
    n = 0
    for m in mods:
        for fi in m.functions.values():
            for node in ast.walk(fi.node):
                if not isinstance(node, ast.Raise) or node.exc is None:
                    continue
                # nested function raises are attributed to the nested function
                owner = fi
                n += 1
                e = node.exc.func if isinstance(node.exc, ast.Call) else node.exc
                name = unparse(e)
                # `raise make_error(...)`: the class is that of what the helper of the package returns on all its returns
                if isinstance(node.exc, ast.Call):
                    d = m.dotted(e)
                    helper = P.lookup(d) if d and d.split('.')[0] == P.PACKAGE else None
                    if isinstance(helper, FuncInfo):
                        made = {unparse(r.value.func) if isinstance(r.value, ast.Call) else unparse(r.value)
                                for r in ast.walk(helper.node) if isinstance(r, ast.Return) and r.value is not None}
                        if len(made) == 1:
                            name = made.pop()
                construct = f'{fi.fq}:raise {name}'
                if _exc_family(P, m, name):
                    res.ok({'site': fi.fq, 'raises': name})
                elif (_raise_owner(m, fi), name) in ALLOW_RAISE:
                    res.ok({'site': fi.fq, 'raises': name, 'allowed': ALLOW_RAISE[(_raise_owner(m, fi), name)]})
                elif name == 'TypeError' and _param_kind_guard(fi, node):
                    res.ok({'site': fi.fq, 'raises': name, 'allowed': PARAM_KIND_WHY})
                else:
                    res.fail(construct, 'raise:class', f'{fi.qualname} rejects input with {name}, which is not a ProgrammingError '
                             f'(ParseError / CompilationError)', loc(fi, node))
    # functions may be nested: de-duplicate by line
    if n < 30:
        raise AnalysisError(f'only {n} raise sites found in the compiler and parser')
    return res


# ----------------------------------------------------------------------
# R-EXCTREE (C05, C10)

PEP249 = {
    'Warning': 'Exception', 'Error': 'Exception', 'InterfaceError': 'Error', 'DatabaseError': 'Error',
    'DataError': 'DatabaseError', 'OperationalError': 'DatabaseError', 'IntegrityError': 'DatabaseError',
    'InternalError': 'DatabaseError', 'ProgrammingError': 'DatabaseError', 'NotSupportedError': 'DatabaseError',
}


def rule_exctree(P) -> RuleResult:
    res = RuleResult('R-EXCTREE')
    res.exhaustive = True
    m = P.module('beanquery.errors')
    for name, base in PEP249.items():
        ci = m.classes.get(name)
        if ci is None:
            res.fail(f'beanquery.errors:{name}', 'exctree:missing', f'DB-API exception {name} is not defined')
            continue
        bases = [unparse(b) for b in ci.node.bases]
        if bases != [base]:
            res.fail(ci.fq, 'exctree:base', f'{name} must derive from {base} (PEP 249), derives from {bases}', loc(ci))
        else:
            res.ok({'class': name, 'base': base})
    for mod, name in ((CO, 'CompilationError'), ('beanquery.parser', 'ParseError')):
        ci = P.cls(mod, name)
        if P.is_subclass(ci, 'beanquery.errors:ProgrammingError'):
            res.ok({'class': name, 'base': 'ProgrammingError'})
        else:
            res.fail(ci.fq, 'exctree:base', f'{name} must be a ProgrammingError', loc(ci))
    # exported from the package
    init = P.module('beanquery')
    for name in list(PEP249) + ['CompilationError', 'ParseError']:
        if name not in init.imports:
            res.fail(f'beanquery:{name}', 'exctree:export', f'{name} is not importable from the beanquery module')
        else:
            res.ok({'export': name})
    return res


# ----------------------------------------------------------------------
# R-GUARDS (C05): the census of acceptance rules







# ----------------------------------------------------------------------
# R-EXHAUSTIVE (C05, C14)

def grammar_classes(P):
    path = os.path.join(P.repo, 'beanquery', 'parser', 'bql.ebnf')
    if not os.path.exists(path):
        raise AnalysisError('anchor vanished: bql.ebnf')
    text = open(path, encoding='utf-8').read()
    out = {}
    for mm in re.finditer(r'^([a-z_]+)::([A-Za-z]+)(?:::([A-Za-z]+))?\s*$', text, re.M):
        out[mm.group(1)] = (mm.group(2), mm.group(3))
    return out, text


def rule_exhaustive(P) -> RuleResult:
    res = RuleResult('R-EXHAUSTIVE')
    res.exhaustive = True
    classes, text = grammar_classes(P)
    astm = P.module('beanquery.parser.ast')
    m = P.module(CO)
    # classes declared in ast.py: dataclasses made with node(...) and class statements
    declared = {}
    for name, v in astm.assigns.items():
        if isinstance(v, ast.Call) and unparse(v.func) == 'node' and v.args and isinstance(v.args[0], ast.Constant):
            declared[name] = ('Node',)
    for ci in astm.classes.values():
        declared[ci.name] = tuple(unparse(b) for b in ci.node.bases)
    # handlers registered on Compiler._compile
    handled = {}
    for fi in m.functions.values():
        if not fi.qualname.startswith('Compiler.') or fi.qualname.count('.') != 1:
            continue
        for d in fi.node.decorator_list:
            s = unparse(d)
            if s == '_compile.register':
                a = fi.node.args.args[1].annotation
                if a is None:
                    raise AnalysisError(f'{fi.fq}: registered handler without annotation')
                for nm in re.findall(r'ast\.([A-Za-z]+)', unparse(a)):
                    handled[nm] = fi
            elif s.startswith('_compile.register('):
                for nm in re.findall(r'ast\.([A-Za-z]+)', s):
                    handled[nm] = fi

    def has_handler(cls):
        seen = set()
        work = [cls]
        while work:
            c = work.pop()
            if c in seen:
                continue
            seen.add(c)
            if c in handled:
                return handled[c]
            work.extend(b.split('.')[-1] for b in declared.get(c, ()))
        return None
    if len(classes) < 30:
        raise AnalysisError(f'only {len(classes)} grammar rules with an AST class found')
    compiled_directly = set()
    for rule, (cls, base) in sorted(classes.items()):
        if cls not in declared:
            res.fail(f'grammar:{rule}', 'exhaustive:class', f'grammar rule {rule} builds {cls}, which parser/ast.py does not define')
            continue
        if base and base not in declared.get(cls, ()):
            res.fail(f'grammar:{rule}', 'exhaustive:base', f'{cls} is declared with base {base} in the grammar but not in ast.py')
        # clause containers are consumed field by field, not dispatched
        if cls in ('Target', 'From', 'GroupBy', 'OrderBy', 'PivotBy', 'Table'):
            res.ok({'rule': rule, 'class': cls, 'consumed': 'by its clause compiler'})
            continue
        h = has_handler(cls)
        if h is None:
            res.fail(f'grammar:{rule}', 'exhaustive:handler', f'the grammar produces {cls} nodes but Compiler._compile has no handler '
                     f'for them (NotImplementedError at compile time)')
        else:
            res.ok({'rule': rule, 'class': cls, 'handler': h.qualname})
    for cls, fi in handled.items():
        if cls not in declared:
            res.fail(fi.fq, 'exhaustive:orphan', f'handler registered for ast.{cls}, which does not exist', loc(fi))
    # statement kinds <-> shell handlers
    sh = P.modules.get('beanquery.shell')
    if sh is not None:
        stm = re.search(r'^statement\s*\n\s*=\s*((?:\n?\s*\|\s*[a-z]+)+)', text, re.M)
        kinds = re.findall(r'\|\s*([a-z]+)', stm.group(1)) if stm else []
        if len(kinds) < 4:
            raise AnalysisError('statement alternatives of the grammar not found')
        shell = sh.classes.get('BQLShell')
        for k in kinds:
            cls = classes.get(k, (None,))[0]
            if cls is None:
                res.fail(f'grammar:{k}', 'exhaustive:class', f'statement rule {k} has no AST class')
                continue
            if shell is None or f'on_{cls}' not in shell.methods:
                res.fail(f'beanquery.shell:BQLShell.on_{cls}', 'exhaustive:shell', f'the shell has no handler on_{cls} for {cls} statements')
            else:
                res.ok({'statement': cls, 'shell_handler': f'on_{cls}'})
    return res


# ----------------------------------------------------------------------
# R-NONEFLOW on the compiler's own checks (C05, C13, C15): a guard that can itself raise defeats the property

def rule_guard_typesafe(P) -> RuleResult:
    from ..absint import Interp, Frame, Struct, TOP, A, NoneT, Coll, TYPE_ERRORS, atoms_of
    res = RuleResult('R-GUARDSAFE')
    reg = registry.get(P)
    comp = P.cls(CO, 'Compiler')
    astm = P.module('beanquery.parser.ast')
    it = Interp(P, reg, max_depth=4)
    self_ = Struct('Compiler', {'context': TOP, 'table': TOP, 'parameters': TOP, 'positions': TOP}, cls=comp)
    from_cls = astm.classes.get('From')
    if from_cls is None:
        raise AnalysisError('anchor vanished: parser.ast.From')
    From = reg.synth(from_cls)
    entries = [
        ('Compiler._compile_from', {'node': A(From)}),
        ('Compiler._compile_select', {}),
        ('Compiler._select', {}),
    ]
    seen = set()
    n = 0
    for qn, binds in entries:
        fi = P.maybe_func(CO, qn)
        if fi is None:
            continue
        n += 1
        env = it.new_env(fi)
        for p_ in fi.params:
            env[p_] = TOP
        env['self'] = self_
        env.update(binds)
        frame = it.run_function(fi, env)
        errs = sorted({(r.exc, r.what, r.atoms, r.lineno) for r in frame.raises if r.exc in TYPE_ERRORS and r.definite})
        for exc, what, atoms, ln in errs:
            if (exc, what, atoms) in seen:
                continue
            seen.add((exc, what, atoms))
            # attribute the report to the function that contains the line
            owner = next((f for f in P.module(CO).functions.values()
                          if f.node.lineno <= ln <= getattr(f.node, 'end_lineno', ln) and f.qualname.count('.') == 1), fi)
            res.fail(f'{owner.fq}', f'guardsafe:{exc}:{what}:{",".join(atoms)}',
                     f'while validating a statement {owner.qualname} can itself raise {exc} (`{what}` on {", ".join(atoms)}) '
                     f'instead of rejecting it with a CompilationError', f'{owner.module.path}:{ln}')
        if not errs:
            res.ok({'function': fi.fq, 'definite_type_errors': 0})
    if n == 0:
        raise AnalysisError('anchor vanished: FROM / SELECT compilation methods')
    return res


# ----------------------------------------------------------------------
# R-OPRESOLVE (C04, C05): every operator handler selects its evaluator by the operand dtypes



# ----------------------------------------------------------------------
# R-WILDCARD, R-NAMESLICE (C07)

def rule_wildcard(P) -> RuleResult:
    res = RuleResult('R-WILDCARD')
    reg = registry.get(P)
    n = 0
    for fq, cols in reg.tables.items():
        ci = reg.table_info[fq]
        n += 1
        found = P.find_attr(ci, 'wildcard_columns')
        meth = P.find_method(ci, 'wildcard_columns')
        if found is not None and not isinstance(meth, FuncInfo):
            owner, expr = found
            try:
                if isinstance(expr, ast.Call) and isinstance(expr.func, ast.Attribute) and expr.func.attr == 'split' \
                        and isinstance(expr.func.value, ast.Constant):
                    names = expr.func.value.value.split(*[ast.literal_eval(a) for a in expr.args])
                else:
                    names = list(ast.literal_eval(expr))
            except (ValueError, SyntaxError):
                raise AnalysisError(f'{owner.fq}.wildcard_columns: not a constant list')
            missing = [x for x in names if x not in cols]
            if missing:
                res.fail(f'{ci.fq}.wildcard_columns', 'wildcard:unknown', f'`*` on {ci.name} expands to {missing}, which are not columns '
                         f'of the table', loc(owner))
            else:
                res.ok({'table': ci.name, 'wildcard': names})
        elif isinstance(meth, FuncInfo):
            from ..symex import Sym as _S0, SList as _SL0, Engine as _E0, Exec as _X0
            TBL0 = _S0('TABLE')
            model0 = _SL0([('x', _S0('COL_x')), ('meta', _S0('COL_meta')), ('y', _S0('COL_y'))], kind='dict')
            for p_ in _E0(P, on_attr=lambda b, a, ex: model0 if (b, a) == (TBL0, 'columns') else NotImplemented).paths(meth, {'self': TBL0}):
                names0 = _X0(_E0(P), []).iterate(p_.value)
                if names0 is None or not set(names0) <= {'x', 'meta', 'y'} or not names0:
                    res.fail(f'{ci.fq}.wildcard_columns', 'wildcard:source', f'the wildcard list is not derived from the table columns: with '
                             f'columns x, meta, y it is {names0 if names0 is not None else p_.value!r}', loc(meth))
                else:
                    res.ok({'table': ci.name, 'wildcard': f'derived from self.columns: {names0}'})
        else:
            raise AnalysisError(f'{ci.fq}: wildcard_columns not found')
    # subquery tables and user tables (the base Table's property): `*` is every column, in order - a subquery column may
    # well be called `meta`
    from ..symex import Sym as _S, SList as _SL, T as _T, Engine as _E, Exec as _X
    for owner_fq, label in (('beanquery.query_compile:SubqueryTable', 'a subquery table'), ('beanquery.tables:Table', 'a user table')):
        mod, cname = owner_fq.split(':')
        ci = P.module(mod).classes.get(cname)
        if ci is None:
            raise AnalysisError(f'anchor vanished: {owner_fq}')
        meth = P.find_method(ci, 'wildcard_columns')
        if not isinstance(meth, FuncInfo):
            raise AnalysisError(f'{owner_fq}: wildcard_columns is not a property')
        TBL = _S('TABLE')
        cols_model = _SL([('a', _S('COL_a')), ('meta', _S('COL_meta')), ('b', _S('COL_b'))], kind='dict')
        for p_ in _E(P, on_attr=lambda b, a, ex: cols_model if (b, a) == (TBL, 'columns') else NotImplemented).paths(meth, {'self': TBL}):
            names = _X(_E(P), []).iterate(p_.value)
            if names != ['a', 'meta', 'b']:
                res.fail(f'{ci.fq}.wildcard_columns', 'wildcard:subquery', f'`*` on {label} with columns a, meta, b expands to '
                         f'{names if names is not None else p_.value!r}: every column of the table must be listed, in order', loc(meth))
            else:
                res.ok({'table': label, 'wildcard': 'every column, in order'})
    # expansion site
    ct = _method(P, '_compile_targets')
    COMP, STAR = _S('COMPILER'), _S('ASTERISK')
    compiled = []
    made = []

    def on_attr_x(base, attr, ex):
        if base == _T('attr', (COMP, 'table')) and attr == 'wildcard_columns':
            return _SL(['First', 'second', 'SUM(x)'])
        if isinstance(base, _T) and base.op == 'new' and base.args[0] == 'Target' and attr in ('expression', 'name'):
            pos = dict(base.args[2])
            i = 0 if attr == 'expression' else 1
            return pos[attr] if attr in pos else (base.args[1][i] if len(base.args[1]) > i else None)
        return NotImplemented

    def on_isinstance_x(v, c, ex):
        from ..symex import gname as _gn
        if v == STAR:
            return _gn(c).endswith('Asterisk')
        return False

    def on_call_x(fn, fv, rc, args, kw, ex, node):
        last = str(fn).split('.')[-1]
        if last in ('Target', 'Column'):
            node_ = _T('new', (last, tuple(args), tuple(kw)))
            if last == 'Target':
                made.append(node_)
            return node_
        if last == '_compile':
            compiled.append(args[0] if args else None)
            return _S(f'C_EXPR{len(compiled)}')
        if last in ('get_target_name',):
            return 'name'
        if last in ('is_aggregate',):
            return False
        if last == '_check_aggregates':
            return None
        if last == 'EvalTarget':
            return _T('new', ('EvalTarget', tuple(args)))
        return NotImplemented
    for p_ in _E(P, on_attr=on_attr_x, on_isinstance=on_isinstance_x, on_call=on_call_x).paths(ct, {'self': COMP, ct.params[1]: STAR}):
        want = [_T('new', ('Column', (n_,), ())) for n_ in ('First', 'second', 'SUM(x)')]
        got = [c for c in compiled]
        aliased = [t_ for t_ in made if (dict(t_.args[2]).get('name') if 'name' in dict(t_.args[2]) else (t_.args[1][1] if len(t_.args[1]) > 1 else None)) is not None]
        compiled.clear()
        made.clear()
        if got != want or p_.outcome != 'return' or not (isinstance(p_.value, _SL) and len(p_.value.items) == 3):
            res.fail(ct.fq, 'wildcard:expansion', f'`*` must expand to one target per name of the wildcard column list of the current table, '
                     f'in order and with exactly that name; with the list First, second, SUM(x) it compiles {[repr(c)[:40] for c in got]}', loc(ct))
        elif aliased:
            res.fail(ct.fq, 'wildcard:expansion', f'the targets `*` expands to are bare columns, named by the column itself; they are given the '
                     f'alias `{aliased[0].args[1][1] if len(aliased[0].args[1]) > 1 else dict(aliased[0].args[2]).get("name")!r}`: a column whose '
                     f'name is not all lower case (an expression text such as SUM(x) from a subquery, a user table column) is renamed', loc(ct))
        else:
            res.ok({'site': ct.fq, 'expands': 'self.table.wildcard_columns, one column target per name, in order'})
    # a column reference resolves by exactly its name (names given by expression text keep their case)
    cf = _method(P, '_column')
    NODE_ = _S('COLUMN_NODE')
    COL_ = _S('TABLE_COLUMN_SUM')
    cols_ = _SL([('account', _S('TABLE_COLUMN_account')), ('SUM(x)', COL_)], kind='dict')

    def on_attr_c(base, attr, ex):
        if base == NODE_ and attr == 'name':
            return 'SUM(x)'
        if base == _T('attr', (COMP, 'table')) and attr == 'columns':
            return cols_
        return NotImplemented
    for p_ in _E(P, on_attr=on_attr_c).paths(cf, {'self': COMP, cf.params[1]: NODE_}):
        if p_.decisions or p_.outcome != 'return' or p_.value != COL_:
            res.fail(cf.fq, 'wildcard:lookup', f'a reference to the column named `SUM(x)` (the expression-text name of a subquery column, which `*` '
                     f'expands to) must resolve to that column of the table; it gives '
                     f'{p_.outcome + " " + (p_.value[0] if p_.outcome == "raise" else repr(p_.value)[:40])}', loc(cf))
        else:
            res.ok({'site': cf.fq, 'lookup': 'by the exact name'})
    return res


def rule_nameslice(P) -> RuleResult:
    """Node.text is exactly the slice [pos:endpos] of the text its own parse info refers to (or None without parse info):
    decided on the terms the property returns."""
    from ..symex import Sym as _S, T as _T, Engine as _E, show as _sh
    res = RuleResult('R-NAMESLICE')
    res.exhaustive = True
    node = P.cls('beanquery.parser.ast', 'Node')
    text = node.methods.get('text')
    if text is None:
        raise AnalysisError('anchor vanished: parser.ast.Node.text')
    N = _S('NODE')
    PI = _T('attr', (N, 'parseinfo'))
    want = _T('slice', (_T('attr', (_T('attr', (PI, 'tokenizer')), 'text')), _T('attr', (PI, 'pos')), _T('attr', (PI, 'endpos'))))
    for has in (True, False):
        def oracle(term, ex, _h=has):
            if term == PI:
                return _h
            if isinstance(term, _T) and term.op == 'cmp' and term.args[0] in ('is', 'is not') and term.args[1] == PI and term.args[2] is None:
                return (not _h) == (term.args[0] == 'is')
            return None
        for p in _E(P, oracle=oracle).paths(text, {'self': N}):
            if p.decisions:
                res.fail(text.fq, 'nameslice:exact', f'Node.text branches on `{_sh(p.decisions[0][0])[:60]}`', loc(text))
                continue
            if has:
                if p.value == want:
                    res.ok({'property': text.fq, 'value': 'parseinfo.tokenizer.text[parseinfo.pos:parseinfo.endpos]'})
                elif isinstance(p.value, _T) and p.value.op == 'slice' and p.value.args[0] == want.args[0]:
                    res.fail(text.fq, 'nameslice:bounds', f'the source text of a node must be text[pos:endpos] of its own parse info; found '
                             f'`{_sh(p.value)[:120]}`', loc(text))
                elif isinstance(p.value, _T) and p.value.op == 'slice':
                    res.fail(text.fq, 'nameslice:text', f'the expression text is cut from `{_sh(p.value.args[0])[:80]}`, not from the text its own '
                             f'positions refer to', loc(text))
                else:
                    res.fail(text.fq, 'nameslice:exact', f'the name of an expression target is the exact source text of the expression; '
                             f'Node.text returns `{_sh(p.value)[:120]}` instead of the slice of the statement text', loc(text))
            elif p.value is not None:
                res.fail(text.fq, 'nameslice:none', f'without parse info Node.text must be None; it is `{_sh(p.value)[:80]}`', loc(text))
            else:
                res.ok({'property': text.fq, 'without_parseinfo': None})
    return res


# ----------------------------------------------------------------------
# R-PARTIAL (C05): partial conversions applied to matched text by semantic actions

def rule_partial(P) -> RuleResult:
    import datetime as _dt
    import decimal as _dec
    res = RuleResult('R-PARTIAL')
    pm = P.module('beanquery.parser')
    sem = pm.classes.get('BQLSemantics')
    if sem is None:
        raise AnalysisError('anchor vanished: BQLSemantics')
    _, text = grammar_classes(P)
    conv = {
        'int': (int, ['0', '007', '42', '9' * 5000]),
        'decimal.Decimal': (_dec.Decimal, ['1.5', '1.', '.5', '9' * 5000 + '.5']),
        'strptime': (None, ['2020-01-31', '2020-13-45', '2020-02-30', '0000-01-01']),
    }
    n = 0
    for name, fi in sem.methods.items():
        if name.startswith('_') or name == 'set_context':
            continue
        calls = [c for c in ast.walk(fi.node) if isinstance(c, ast.Call)]
        for c in calls:
            d = fi.module.dotted(c.func) or ''
            key = 'int' if d == 'builtins.int' else 'decimal.Decimal' if d == 'decimal.Decimal' else \
                'strptime' if d.endswith('.strptime') else None
            if key is None:
                continue
            n += 1
            mm = re.search(r'^%s\s*\n\s*=\s*/(.*)/\s*$' % re.escape(name), text, re.M)
            if not mm:
                raise AnalysisError(f'grammar rule `{name}` with a pattern not found')
            rx = re.compile(mm.group(1))
            f, pool = conv[key]
            if key == 'strptime':
                fmt = None
                if len(c.args) > 1:
                    a1 = c.args[1]
                    if isinstance(a1, ast.Name) and a1.id in pm.assigns:          # a module-level constant
                        a1 = pm.assigns[a1.id]
                    elif isinstance(a1, ast.Attribute) and isinstance(a1.value, ast.Name) and a1.value.id in ('self', 'cls') and a1.attr in sem.attrs:
                        a1 = sem.attrs[a1.attr]                                     # a class-level constant
                    elif isinstance(a1, ast.Name):
                        defs = [x for x in ast.walk(fi.node) if isinstance(x, ast.Assign) and len(x.targets) == 1
                                and isinstance(x.targets[0], ast.Name) and x.targets[0].id == a1.id]
                        if len(defs) == 1:
                            a1 = defs[0].value
                    if isinstance(a1, ast.Constant) and isinstance(a1.value, str):
                        fmt = a1.value
                if fmt is None:
                    raise AnalysisError(f'{fi.fq}: strptime format is not a constant')
                f = lambda s, _fmt=fmt: _dt.datetime.strptime(s, _fmt)
            in_try = any(isinstance(t, ast.Try) and any(x is c for x in ast.walk(t)) for t in ast.walk(fi.node))
            bad = None
            for w in pool:
                if rx.fullmatch(w):
                    try:
                        f(w)
                    except Exception as exc:   # noqa: BLE001 - the primitive's behaviour is the datum
                        bad = (w, type(exc).__name__)
                        break
            construct = f'{fi.fq}'
            if bad and not in_try:
                w, e = bad
                shown = w if len(w) < 20 else f'{w[:4]}... ({len(w)} characters)'
                res.fail(construct, f'partial:{key}', f'the grammar rule `{name}` matches `{shown}` but the semantic action applies '
                         f'{key}() to it, which raises {e}: the statement is rejected with {e}, not ParseError', loc(fi, c))
            else:
                res.ok({'action': fi.fq, 'conversion': key, 'pattern': mm.group(1), 'witnesses_tried': len(pool)})
    if n < 2:
        raise AnalysisError(f'only {n} conversions found in BQLSemantics')
    return res


# ----------------------------------------------------------------------
# R-FOLDSAFE (C05): constant folding evaluates at compile time; failures must become CompilationError

def rule_foldsafe(P) -> RuleResult:
    from ..absint import Interp, Frame, A, TOP, TYPE_ERRORS
    from .dtype import run_overload
    from ..registry import ANY, ASTERISK
    res = RuleResult('R-FOLDSAFE')
    reg = registry.get(P)
    m = P.module(CO)
    it = Interp(P, reg)

    def risky(impl, intypes):
        vals = [TOP if (t is ANY or t is object or t is ASTERISK) else A(t) for t in intypes]
        _, frame = run_overload(it, impl, [], vals)
        # zero divisors are not tracked by the type domain (R-DIVGUARD decides those guards)
        skip = ('reraise', 'NotImplementedError', 'DivisionByZero', 'ZeroDivisionError', 'InvalidOperation',
                'DivisionUndefined', 'DivisionImpossible')
        return sorted({r.exc for r in frame.raises if r.exc not in TYPE_ERRORS and r.exc not in skip})

    sites = []
    for fi in m.functions.values():
        if not fi.qualname.startswith('Compiler.') or fi.qualname.count('.') != 1:
            continue
        for n in ast.walk(fi.node):
            if isinstance(n, ast.Call) and unparse(n.func) == 'EvalConstant' and n.args and isinstance(n.args[0], ast.Call) \
                    and [unparse(a) for a in n.args[0].args] == ['None']:
                sites.append((fi, n))
    if not sites:
        raise AnalysisError('no constant folding site of the form EvalConstant(node(None)) found')
    for fi, n in sites:
        kind = 'function' if fi.name == '_function' else 'unary' if fi.name == '_unaryop' else 'binary'
        examples = []
        if kind == 'function':
            for f in reg.funcs:
                if f.kind == 'function' and f.pure and isinstance(f.impl, FuncInfo):
                    from .dtype import _is_stub
                    if _is_stub(f.impl):
                        continue
                    ex = risky(f.impl, f.intypes)
                    if ex:
                        examples.append((f.label, ex))
        else:
            for o in reg.ops:
                if isinstance(o.impl, FuncInfo) and len(o.intypes) == (1 if kind == 'unary' else 2):
                    ex = risky(o.impl, o.intypes)
                    if ex:
                        examples.append((o.label, ex))
        protected = any(isinstance(t, ast.Try) and any(x is n for x in ast.walk(t)) for t in ast.walk(fi.node))
        construct = f'{fi.fq}:constant-folding'
        if examples and not protected:
            lab, ex = examples[0]
            res.fail(construct, 'foldsafe:unprotected',
                     f'{fi.qualname} evaluates constant expressions while compiling; {len(examples)} foldable overloads can raise '
                     f'(e.g. {lab}: {", ".join(ex)}), and the exception escapes from compile() instead of a CompilationError',
                     loc(fi, n))
        else:
            res.ok({'site': fi.fq, 'kind': kind, 'foldable_overloads_that_can_raise': len(examples), 'protected': protected})
    return res


# ----------------------------------------------------------------------
# R-IMPLICITCAST (C01, C04): untyped operands of a binary operator are cast to the type of the other side



# ----------------------------------------------------------------------
# R-COALESCE (C04): COALESCE announces the type of its first argument, so all arguments must have that type

