"""R-EQFAITH: structural equality of compiled nodes is faithful (C02, C03, C05, C08).

GROUP BY / ORDER BY expressions are merged with existing targets when the
compiled nodes compare equal.  EvalNode.__eq__ compares the attributes listed
in the nearest `__slots__`; a class that keeps a discriminating constructor
argument outside them makes different expressions equal.
"""
from __future__ import annotations

import ast

from .. import registry
from ..registry import tname
from ..loader import AnalysisError, FuncInfo, ClassInfo, loc
from ..report import RuleResult

QC = 'beanquery.query_compile'

# one-line suppressions: (class, attribute) -> reason
ALLOW = {
    ('EvalFunction', 'context'): 'all nodes that are compared belong to one Compiler, which passes the same context to every constructor',
}
IGNORED = {'dtype'}   # the announced type; never changes the value computed


def _slots(P, ci):
    for c in P.mro(ci, ifexp_choice=lambda e: e.body):
        if isinstance(c, ClassInfo) and '__slots__' in c.attrs:
            v = c.attrs['__slots__']
            try:
                val = ast.literal_eval(v)
            except ValueError:
                raise AnalysisError(f'{c.fq}: __slots__ is not a literal')
            if isinstance(val, str):
                val = (val,)
            return tuple(val), c
    return (), None


def _init_attrs(P, ci):
    """{attr: (class, expr)} assigned in the __init__ chain from constructor parameters."""
    out = {}
    for c in P.mro(ci, ifexp_choice=lambda e: e.body):
        if not isinstance(c, ClassInfo):
            continue
        init = c.methods.get('__init__')
        if init is None:
            continue
        params = set(init.params[1:])
        for n in ast.walk(init.node):
            if isinstance(n, ast.Assign) and len(n.targets) == 1 and isinstance(n.targets[0], ast.Attribute) \
                    and isinstance(n.targets[0].value, ast.Name) and n.targets[0].value.id == 'self':
                used = {x.id for x in ast.walk(n.value) if isinstance(x, ast.Name)}
                if used & params:
                    out.setdefault(n.targets[0].attr, (c, n.value))
    return out


def _reads(P, ci, attr):
    """Is self.<attr> read by an evaluation method of the class (anything but __init__/__repr__/__str__/__eq__)?"""
    for c in P.mro(ci, ifexp_choice=lambda e: e.body):
        if not isinstance(c, ClassInfo):
            continue
        for name, m in c.methods.items():
            if name in ('__init__', '__repr__', '__str__', '__eq__'):
                continue
            for n in ast.walk(m.node):
                if isinstance(n, ast.Attribute) and n.attr == attr and isinstance(n.value, ast.Name) and n.value.id == 'self' \
                        and isinstance(n.ctx, ast.Load):
                    return True
    # closure classes created in subclasses' decorators may read it too (Func reads self.context)
    for sub in P.all_classes():
        if sub is ci or sub.parent is None:
            continue
        try:
            if not P.is_subclass(sub, ci.fq, ifexp_choice=lambda e: e.body):
                continue
        except AnalysisError:
            continue
        for name, m in sub.methods.items():
            if name in ('__init__', '__repr__', '__str__'):
                continue
            for n in ast.walk(m.node):
                if isinstance(n, ast.Attribute) and n.attr == attr and isinstance(n.value, ast.Name) and n.value.id == 'self':
                    return True
    return False


def _eq_semantics(P, res, evalnode, eq):
    """EvalNode.__eq__ on terms: two nodes are equal iff the other is an instance of this node's class and *every* attribute named
    in __slots__ compares equal (all 2^3 outcomes for a class with three slots, plus the foreign-class case)."""
    import itertools
    from ..symex import Sym, T, SList, Engine, show
    A, B = Sym('NODE_A'), Sym('NODE_B')
    slots = ['first', 'second', 'third']
    ok = True
    for same_class in (True, False):
        for outcome in itertools.product((True, False), repeat=len(slots)):
            def on_attr(base, attr, ex):
                if base in (A, B) and attr == '__slots__':
                    return SList(list(slots))
                return NotImplemented

            def on_isinstance(v, c, ex, _s=same_class):
                return _s

            def on_call(fn, fv, rc, args, kw, ex, node):
                if fn == 'type' and len(args) == 1:
                    return T('typeof', (args[0],))
                return NotImplemented

            def oracle(term, ex, _o=outcome):
                if isinstance(term, T) and term.op == 'cmp' and term.args[0] in ('==', '!='):
                    l, r = term.args[1], term.args[2]
                    for i, sname in enumerate(slots):
                        if {l, r} == {T('attr', (A, sname)), T('attr', (B, sname))}:
                            return _o[i] == (term.args[0] == '==')
                    if isinstance(l, T) and l.op == 'typeof' and isinstance(r, T) and r.op == 'typeof':
                        return same_class == (term.args[0] == '==')
                return None
            paths = Engine(P, on_attr=on_attr, on_isinstance=on_isinstance, on_call=on_call, oracle=oracle).paths(eq, {'self': A, eq.params[1]: B})
            want = same_class and all(outcome)
            for p in paths:
                if p.decisions:
                    raise AnalysisError(f'{eq.fq}: undecided test `{show(p.decisions[0][0])[:60]}`')
                got = p.value if p.outcome == 'return' else p.outcome
                if got is NotImplemented or (isinstance(got, T) and got.op == 'global' and str(got.args[0]).endswith('NotImplemented')):
                    got = False if not same_class else got
                if got is not want and ok:
                    ok = False
                    res.fail(eq.fq, 'eq-semantics', f'EvalNode.__eq__ must hold iff the other node is an instance of the same class and every '
                             f'attribute in __slots__ is equal: with {"the same" if same_class else "a foreign"} class and attribute comparisons '
                             f'{dict(zip(slots, outcome))} it gives {got}; ORDER BY / GROUP BY expressions are matched with the targets through '
                             f'this comparison', loc(eq))
    if ok:
        res.ok({'method': eq.fq, 'cases': 2 * 2 ** len(slots), 'equal_iff': 'same class and all __slots__ attributes equal'})


def rule_eqfaith(P) -> RuleResult:
    res = RuleResult('R-EQFAITH')
    res.exhaustive = True
    reg = registry.get(P)
    evalnode = P.cls(QC, 'EvalNode')
    eq = evalnode.methods.get('__eq__')
    if eq is None:
        raise AnalysisError('anchor vanished: EvalNode.__eq__')
    _eq_semantics(P, res, evalnode, eq)
    # compiled queries are dataclasses: a subquery node compares by its query, so *every* field of the query takes part in equality
    # (two IN (SELECT ...) that differ only in their table, their LIMIT or their DISTINCT are different expressions)
    qm = P.module(QC)
    for ci in qm.classes.values():
        decos = [ast.unparse(d) for d in ci.node.decorator_list]
        if not any('dataclass' in d for d in decos):
            continue
        problems = []
        if any('eq=False' in d.replace(' ', '') for d in decos):
            problems.append('declared with eq=False (identity comparison)')
        if '__eq__' in ci.methods:
            problems.append('defines its own __eq__')
        for st in ci.node.body:
            if isinstance(st, ast.AnnAssign) and isinstance(st.target, ast.Name) and isinstance(st.value, ast.Call) and \
                    ast.unparse(st.value.func).split('.')[-1] == 'field':
                for k in st.value.keywords:
                    if k.arg == 'compare' and isinstance(k.value, ast.Constant) and k.value.value is False:
                        problems.append(f'field `{st.target.id}` is excluded from comparison (compare=False)')
        if problems:
            res.fail(ci.fq, 'eq-unfaithful:dataclass', f'{ci.name}: {"; ".join(problems)}: two compiled queries that differ there compare equal, and '
                     f'the compiler merges an ORDER BY / GROUP BY expression with an *equal* target - the second subquery silently takes the '
                     f'values of the first', loc(ci))
        else:
            res.ok({'class': ci.fq, 'dataclass_equality': 'all fields'})
    n = 0
    for ci in P.all_classes():
        try:
            if not P.is_subclass(ci, evalnode.fq, ifexp_choice=lambda e: e.body):
                continue
        except AnalysisError:
            continue
        n += 1
        if isinstance(ci.parent, FuncInfo):
            # one class object per registration: isinstance(other, type(self)) separates the instances
            res.ok({'class': ci.fq, 'faithful': 'class object per registration (closure)'})
            continue
        slots, owner = _slots(P, ci)
        attrs = _init_attrs(P, ci)
        missing = []
        for a, (c, expr) in attrs.items():
            if a in slots or a in IGNORED:
                continue
            if (c.name, a) in ALLOW:
                continue
            if not _reads(P, ci, a):
                continue
            missing.append(a)
        if not missing:
            res.ok({'class': ci.fq, 'compared': list(slots), 'constructor_state': sorted(attrs)})
            continue
        # unfaithful class: do instances that can meet actually collide?
        cols = []
        for fq, tcols in list(reg.tables.items()) + list(reg.structures.items()):
            group = [c for c in tcols.values() if isinstance(c.cls, ClassInfo) and c.cls is ci]
            if group:
                cols.append((fq, group))
        if cols:
            collided = False
            for fq, group in cols:
                seen = {}
                for c in group:
                    key = tuple(c.dtype if s == 'dtype' else c.impl if s in ('name', 'key') else None for s in slots)
                    seen.setdefault(key, []).append(c.name)
                for key, names in seen.items():
                    if len(names) > 1:
                        collided = True
                        tn = reg.table_info[fq].name
                        res.fail(ci.fq, f'eq-collision:{tn}',
                                 f'columns {", ".join(names)} of {tn} are instances of {ci.name}, which keeps '
                                 f'`{", ".join(missing)}` outside the compared __slots__ {slots}: they compare equal, so an ORDER BY / '
                                 f'GROUP BY on one is silently replaced by another', loc(ci))
            if not collided:
                res.info(f'latent: {ci.name} keeps {missing} outside the compared __slots__ {slots}; its current instances '
                         f'do not collide')
                res.ok({'class': ci.fq, 'latent': missing})
        else:
            res.fail(ci.fq, 'eq-unfaithful:' + ','.join(sorted(missing)),
                     f'{ci.name} stores constructor argument(s) `{", ".join(missing)}` that its evaluation reads but '
                     f'EvalNode.__eq__ does not compare (compared: {slots or "nothing"}): two different expressions of this '
                     f'class compare equal and are merged by GROUP BY / ORDER BY', loc(ci))
    if n < 20:
        raise AnalysisError(f'only {n} evaluator classes found')
    return res
