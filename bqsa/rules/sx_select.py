"""execute_select on the term interpreter: R-AGGPROTO, R-PIPELINE, R-SORTSKEL.

The function is interpreted on a small abstract query: four compiled targets (two group keys, one aggregate target with two
aggregate nodes, one invisible aggregate target), an opaque source table and opaque evaluators.  Obligations are stated over
the events of each path, not over statement shapes."""
from __future__ import annotations

import ast

from ..symex import Sym, T, SList, Engine, Raise, show, contains, early_exits, gname
from ..loader import AnalysisError, loc
from ..report import RuleResult
from .sx_exec import loop_events, aliases_of, GATE_CASES, _is_elem_of

QX = 'beanquery.query_execute'
Q = Sym('QUERY')
W = Sym('WHERE')
ALLOC = Sym('ALLOCATOR')
GROUPS = T('groups', ())
TABLE = T('attr', (Q, 'table'))
CTX = T('elem', (TABLE,))


class Model:
    """The abstract query: targets, their expressions and names, and the aggregate nodes inside the aggregate targets."""

    def __init__(self, kinds=('key', 'agg2', 'key', 'agg1-hidden')):
        n = len(kinds)
        self.E = [Sym(f'EXPR{i}') for i in range(n)]
        self.TG = [Sym(f'TARGET{i}') for i in range(n)]
        # output names repeat (two targets named a): what is per target must not be keyed by name
        self.NAMES = [None if k.endswith('hidden') else 'abacadae'[i] for i, k in enumerate(kinds)]
        self.AGGS = {}
        self.KEYS = []
        for i, k in enumerate(kinds):
            if k.startswith('agg'):
                self.AGGS[self.E[i]] = [Sym(f'AGG{i}_{j}') for j in range(int(k[3]))]
            else:
                self.KEYS.append(i)
        self.ALL_AGGS = [a for v in self.AGGS.values() for a in v]
        self.AGG_TARGETS = [i for i, k in enumerate(kinds) if k.startswith('agg')]


M = Model()
DEEP_KINDS = ('key', 'agg2', 'key', 'agg1-hidden', 'key', 'key-hidden')


EXISTING = Sym('STORE_OF_THE_EXISTING_GROUP')


def engine(P, *, where=(False, None), group_indexes=None, having=None, having_cls=True, order_spec=None, distinct=False, limit=None,
           key_state='new'):
    present, wcls = where

    def model(ex):
        if not hasattr(ex, 'model'):
            ex.model = {
                'c_targets': SList(list(M.TG)),
                'group_indexes': None if group_indexes is None else SList(list(group_indexes)),
                'order_spec': None if order_spec is None else SList([T('tuple', (i, r)) for i, r in order_spec]),
                'iters': {},
            }
        return ex.model

    def on_attr(base, attr, ex):
        if base == Q:
            m = model(ex)
            if attr in ('c_targets', 'group_indexes', 'order_spec'):
                return m[attr]
            if attr == 'c_where':
                return W if present else None
            if attr == 'distinct':
                return distinct
            if attr == 'limit':
                return limit
            if attr == 'having_index':
                return having
            return NotImplemented
        if base in M.TG:
            i = M.TG.index(base)
            if attr == 'c_expr':
                return M.E[i]
            if attr == 'name':
                return M.NAMES[i]
            if attr == 'is_aggregate':
                return M.E[i] in M.AGGS
        if base in M.E and attr == 'dtype':
            return Sym(f'DTYPE{M.E.index(base)}')
        return NotImplemented

    def on_call(fname, fval, recv, args, kwargs, ex, node):
        f = str(fname)
        last = f.split('.')[-1]
        if fval == W:
            ex.events.append(('where', args))
            return wcls
        if last == 'get_columns_and_aggregates' and len(args) == 1:
            return T('tuple', (SList(), SList(list(M.AGGS.get(args[0], [])))))
        if last == 'Allocator' and not args:
            return ALLOC
        if last == 'defaultdict' and len(args) == 1 and isinstance(args[0], T) and args[0].op in ('func', 'lambda'):
            # the group container: a mapping whose missing keys are made by a local function
            ex.__dict__['group_kind'] = 'new'
            return T('new', ('defaultdict', args[0]))
        if f in ('dict', 'collections.OrderedDict', 'OrderedDict') and not args and not kwargs:
            return T('dict', ())
        if isinstance(recv, T) and (recv.op == 'dict' or (recv.op == 'new' and recv.args[0] == 'defaultdict')):
            # the group container: what it answers depends on whether the key of this row was seen before (key_state)
            if last == 'items' and not args:
                return GROUPS
            rname = ast.unparse(node.func.value) if isinstance(getattr(node, 'func', None), ast.Attribute) else None
            if last in ('setdefault', 'get') and not any(seq == TABLE for _, seq in ex.loops):
                return NotImplemented        # not during the scan of the source table: not the group container at work
            if last in ('setdefault', 'get'):
                ex.__dict__.setdefault('group_vars', set()).add(rname)
                ex.__dict__.setdefault('group_kind', recv.op)
            if last == 'setdefault' and len(args) == 2:
                if key_state == 'existing':
                    ex.events.append(('group-lookup', args[0], EXISTING))
                    return EXISTING
                ex.events.append(('group-store', args[0], args[1]))
                ex.heap[T('item', (recv, args[0]))] = args[1]
                return args[1]
            if last == 'get' and len(args) in (1, 2):
                k = T('item', (recv, args[0]))
                if k in ex.heap:
                    return ex.heap[k]
                if key_state == 'existing':
                    ex.events.append(('group-lookup', args[0], EXISTING))
                    return EXISTING
                return args[1] if len(args) == 2 else None
            in_scan = any(seq == TABLE for _, seq in ex.loops)
            if last in ('values', 'keys') and not args and not in_scan and rname not in ex.__dict__.get('group_vars', ()) and \
                    (ex.__dict__.get('group_vars') or ex.__dict__.get('group_kind', recv.op) != recv.op or
                     not any(e_[0] in ('group-store', 'group-lookup') for e_ in ex.events)):
                # a mapping that never held a group (nothing was stored into it during a scan of the source table): some other
                # dictionary of the function, e.g. one used to drop duplicate rows; what comes out of it is not known on terms
                return T('call', (f'{show(recv)}.{last}', (), ()))
            if last in ('values', 'keys', 'pop', 'popitem', 'clear', 'update'):
                raise AnalysisError(f'execute_select: use of the group container through .{last}() is not understood')
        if f == 'iter' and len(args) == 1:
            m = model(ex)
            n = len(m['iters'])
            it = T('iter', (args[0], n))
            m['iters'][it] = 0
            return it
        if f == 'next' and len(args) == 1 and isinstance(args[0], T) and args[0].op == 'iter':
            m = model(ex)
            k = m['iters'][args[0]]
            m['iters'][args[0]] = k + 1
            return T('item', (args[0].args[0], k))
        if last in ('uniquify', 'nullitemgetter'):
            return T('call', (last, args, ()))
        if last == 'groupby' and args:
            items = ex.iterate(args[0])
            key = dict(kwargs).get('key', args[1] if len(args) > 1 else None)
            if items is None or key is None:
                return NotImplemented
            groups = []
            for it in items:
                if isinstance(key, T) and key.op == 'call' and str(key.args[0]).endswith('itemgetter') and len(key.args[1]) == 1:
                    kv = ex.getitem(it, key.args[1][0])
                elif isinstance(key, T) and key.op in ('lambda', 'func'):
                    kv = ex.apply_closure(key.args[1], (it,), ())
                else:
                    return NotImplemented
                if groups and groups[-1][0] == kv:
                    groups[-1][1].items.append(it)
                else:
                    groups.append((kv, SList([it])))
            return SList([T('tuple', (k, g)) for k, g in groups])
        return NotImplemented

    def on_item(base, idx, ex):
        if isinstance(base, T) and base.op == 'new' and base.args[0] == 'defaultdict':
            fac = base.args[1]
            if not (isinstance(fac, T) and fac.op == 'func'):
                raise AnalysisError('execute_select: the factory of the group container is not a local function')
            if key_state == 'existing':
                ex.events.append(('group-lookup', idx, EXISTING))
                return EXISTING
            ex.events.append(('factory-begin',))
            store = ex.inline(fac.args[1], None, (), ())
            ex.events.append(('group-store', idx, store))
            return store
        if isinstance(base, T) and base.op == 'dict' and not base.args:
            # a plain dict used as the group container (stores into it are kept in the heap and found before this hook)
            if key_state == 'existing':
                ex.events.append(('group-lookup', idx, EXISTING))
                return EXISTING
            raise Raise('KeyError', (idx,))
        return NotImplemented

    def oracle(term, ex):
        if having is not None and isinstance(term, T) and term.op == 'call' and term.args[0] == show(M.E[having]):
            return having_cls is True
        if isinstance(term, T) and term.op == 'cmp' and term.args[0] in ('in', 'not in') and isinstance(term.args[2], T) and \
                (term.args[2].op == 'dict' or (term.args[2].op == 'new' and term.args[2].args[0] == 'defaultdict')):
            if T('item', (term.args[2], term.args[1])) in ex.heap:
                return term.args[0] == 'in'
            return (key_state == 'existing') == (term.args[0] == 'in')
        return None
    return Engine(P, on_attr=on_attr, on_call=on_call, on_item=on_item, oracle=oracle, max_paths=512, mutable_dicts=False)


def _paths(P, fi, **kw):
    return [p for p in engine(P, **kw).paths(fi, {fi.params[0]: Q})]


def _calls(events, suffix):
    return [e for e in events if e[0] == 'call' and str(e[1]).endswith(suffix)]


# ----------------------------------------------------------------------
def rule_aggproto(P, deep=False) -> RuleResult:
    """deep: six targets (four group keys of which one invisible, two aggregate targets) and every order of the GROUP BY
    references, also with a repeated reference."""
    global M
    M = Model(DEEP_KINDS) if deep else Model()
    try:
        return _rule_aggproto(P, deep)
    finally:
        M = Model()


def rule_aggproto_deep(P):
    return rule_aggproto(P, deep=True)


def _rule_aggproto(P, deep) -> RuleResult:
    global M
    import itertools
    res = RuleResult('R-AGGPROTO-DEEP' if deep else 'R-AGGPROTO')
    res.exhaustive = True
    fi = P.func(QX, 'execute_select')
    construct = fi.fq + ':aggregate-branch'
    n0 = len(res.findings)

    def fail(detail, msg):
        res.fail(construct, 'aggproto:' + detail, msg, loc(fi))
    ncases = 0
    if deep:
        perms = [list(p) for p in itertools.permutations(M.KEYS)]
        configs = perms + [p + [p[0]] for p in perms]
    else:
        configs = ([0, 2], [2, 0], [0, 0, 2])
    H = M.AGG_TARGETS[-1]
    for gi in configs:
        for present, wcls, wdesc in GATE_CASES:
            for having, hcls, hdesc in ((None, None, 'absent'), (H, None, 'NULL'), (H, False, 'false'), (H, True, 'true')):
                if (present or wcls) and having is not None and not (present and wcls is True):
                    continue        # HAVING cases only with a passing / absent WHERE
                for key_state in ('new', 'existing'):
                    if key_state == 'existing' and (having is not None or not ((not present) or wcls is True)):
                        continue       # the second row of a group matters only when the row is selected
                    ncases += 1
                    paths = _paths(P, fi, where=(present, wcls), group_indexes=gi, having=having, having_cls=hcls, key_state=key_state)
                    for p in paths:
                        if p.outcome != 'return':
                            fail('raises', f'GROUP BY targets {gi}, {"first" if key_state == "new" else "a later"} row of a group: the '
                                 f'aggregate branch ends with {p.outcome} {show(p.value)[:60]}')
                            continue
                        _judge_agg(p, fi, gi, (present, wcls, wdesc), (having, hcls, hdesc), fail, key_state)
                    if len(res.findings) > n0:
                        return res
                    res.ok({'group_by_targets': gi, 'where': wdesc, 'having': hdesc, 'row': 'first of its group' if key_state == 'new' else
                            'a later row of its group', 'paths': len(paths)})
    if not deep:
        # LIMIT, DISTINCT and ORDER BY act on the groups, not on the rows the aggregates are computed from
        for gi in ([], [0, 2]):
            for kw, what in (({'limit': Sym('LIMIT')}, 'LIMIT n'), ({'limit': 0}, 'LIMIT 0'), ({'distinct': True}, 'DISTINCT')):
                ncases += 1
                for p in _paths(P, fi, where=(False, None), group_indexes=gi, key_state='new', **kw):
                    if p.outcome != 'return':
                        fail('raises', f'GROUP BY targets {gi} with {what}: the aggregate branch ends with {p.outcome} {show(p.value)[:60]}')
                        continue
                    _judge_agg(p, fi, gi, (False, None, 'absent'), (None, None, 'absent'), fail, 'new')
                if len(res.findings) > n0:
                    return res
                res.ok({'group_by_targets': gi, 'with': what, 'aggregates_fed_from': 'every selected row of the source table'})
        # a grouped query without any aggregate (GROUP BY a, b with b not selected) still has one row per distinct key
        keep = M
        M = Model(('key', 'key-hidden', 'key'))
        try:
            for gi in ([0, 1, 2], [1, 0, 2]):
                ncases += 1
                for p in _paths(P, fi, where=(False, None), group_indexes=gi, key_state='new'):
                    if p.outcome != 'return':
                        fail('raises', f'GROUP BY targets {gi} without aggregates: ends with {p.outcome} {show(p.value)[:60]}')
                        continue
                    _judge_agg(p, fi, gi, (False, None, 'absent'), (None, None, 'absent'), fail, 'new')
                if len(res.findings) > n0:
                    return res
                res.ok({'group_by_targets': gi, 'aggregates': 'none, one key is not selected', 'rows': 'one per distinct key'})
        finally:
            M = keep
    res.ok({'function': fi.fq, 'cases': ncases, 'clauses': ['allocate-before-scan', 'fresh-initialised-store-per-group', 'update-under-gate',
                                                           'groups-in-first-appearance-order', 'finalize-per-group-before-evaluation',
                                                           'key-layout', 'having', 'one-row-per-group']})
    return res


def _judge_agg(p, fi, gi, where, having, fail, key_state='new'):
    present, wcls, wdesc = where
    hidx, hcls, hdesc = having
    ev = p.events
    scan = loop_events(p, TABLE)
    if scan is None:
        through = [e[1] for e in ev if e[0] == 'loop-begin' and e[1] != TABLE and contains(e[1], TABLE)]
        if through:
            fail('scan', f'GROUP BY targets {gi}: the aggregates are fed from `{show(through[0])[:80]}`, not from every row of the source '
                 f'table: what is cut off or skipped there never reaches count / sum / min / max / first / last')
            return
        raise AnalysisError(f'{fi.fq}: the scan of the source table in the aggregate branch was not found')
    first_scan = next(i for i, e in enumerate(ev) if e[0] == 'loop-begin' and e[1] == TABLE)
    # (a) every aggregate node gets its slot once, before the scan
    for a in M.ALL_AGGS:
        al = [i for i, e in enumerate(ev) if e[0] == 'call' and e[1] == f'{a.name}.allocate']
        if len(al) != 1 or al[0] > first_scan or ev[al[0]][2] != (ALLOC,):
            fail('allocate', f'every aggregate node must be given a slot by the allocator once, before the rows are scanned; '
                 f'{a.name}.allocate is called {len(al)} times' + (' after the scan began' if al and al[0] > first_scan else ''))
            return
    sev = [e for d, e in scan]
    gate_open = (not present) or wcls is True
    if early_exits(p, TABLE):
        fail(f'gate:{wdesc}', f'with the WHERE condition {wdesc} the scan of the source table stops at this row: later rows never '
             f'reach the aggregates')
        return
    updates = [e for e in sev if e[0] == 'call' and str(e[1]).endswith('.update')]
    stores = [e for e in sev if e[0] == 'group-store']
    if not stores:
        # a plain dict filled by an explicit store: container[key] = store
        stores = [('group-store', e[1].args[1], e[2]) for e in sev if e[0] == 'store' and isinstance(e[1], T) and e[1].op == 'item'
                  and isinstance(e[1].args[0], T) and e[1].args[0].op == 'dict']
    lookups = [e for e in sev if e[0] == 'group-lookup']
    for e in sev:
        if e[0] == 'where' and not (len(e[1]) == 1 and e[1][0] == CTX):
            fail('where-arg', f'the WHERE condition is evaluated on `{", ".join(map(show, e[1]))}`, not on the current row')
            return
    if not gate_open:
        if updates or stores or lookups:
            fail(f'gate:{wdesc}', f'with the WHERE condition {wdesc} the row still takes part in the aggregation '
                 f'({len(updates)} updates); NULL and false both exclude the row')
        return
    if key_state == 'existing':
        # a later row of a group: the store of the group is found again and keeps what it accumulated
        if not lookups:
            raise AnalysisError(f'{fi.fq}: per-group store lookup not found: shape not understood')
        key, store = lookups[0][1], EXISTING
        if any(e[0] == 'call' and str(e[1]).endswith('.initialize') and EXISTING in e[2] for e in sev) or stores:
            fail('initialize', 'a later row of a group re-initialises or replaces the store of the group: what the earlier rows '
                 'accumulated is lost')
            return
    else:
        if len(stores) != 1:
            if not stores:
                produced = [e for e in sev if e[0] == 'produce']
                if produced and not updates:
                    fail('grouping', f'GROUP BY targets {gi}: a selected row is appended to the result as it is, without being assigned to '
                         f'a group: the query is answered by the row loop of ungrouped queries (one row per source row, or per distinct '
                         f'*visible* row), not with one row per distinct key')
                    return
                raise AnalysisError(f'{fi.fq}: per-group store lookup not found: shape not understood')
            fail('store', f'the store of the group is looked up {len(stores)} times for one row')
            return
        key, store = stores[0][1], stores[0][2]
        # (b) a fresh store from the allocator, initialised for every aggregate node
        before = [e for e in sev if e[0] != 'group-store']
        fb = [i for i, e in enumerate(sev) if e[0] == 'factory-begin']
        fac = sev[fb[-1]:] if fb else sev
        cs = _calls(fac, '.create_store')
        if not cs or store != T('call', (cs[-1][1], cs[-1][2], cs[-1][3])):
            fail('initialize', 'every group needs a fresh store from the allocator (allocator.create_store() per new group)')
            return
        for a in M.ALL_AGGS:
            ini = [e for e in fac if e[0] == 'call' and e[1] == f'{a.name}.initialize']
            if len(ini) != 1 or ini[0][2] != (store,):
                fail('initialize', f'a new group store must initialise every aggregate node once with that store; {a.name}.initialize: '
                     f'{[show(x) for e in ini for x in e[2]] or "not called"}')
                return
            upd_i = [i for i, e in enumerate(sev) if e[0] == 'call' and e[1] == f'{a.name}.update']
            ini_i = [i for i, e in enumerate(sev) if e[0] == 'call' and e[1] == f'{a.name}.initialize']
            if upd_i and ini_i and upd_i[0] < ini_i[0]:
                fail('initialize', f'{a.name} is updated before its slot in the new store is initialised')
                return
    # (c) the key: one value per distinct grouped target, each the target's expression on the current row
    if not (isinstance(key, T) and key.op == 'tuple'):
        fail('key', f'the group key must be the tuple of the non-aggregate expressions evaluated on the current row; found `{show(key)}`')
        return
    want_members = {T('call', (show(M.E[i]), (CTX,), ())) for i in set(gi)}
    if set(key.args) != want_members or len(key.args) != len(want_members):
        fail('key', f'GROUP BY targets {gi}: the group key must hold the value of every grouped target expression on the current row, '
             f'once; found `{show(key)}`')
        return
    # (d) every aggregate node is updated once with (store of this key, current row)
    for a in M.ALL_AGGS:
        up = [e for e in updates if e[1] == f'{a.name}.update']
        if len(up) != 1 or up[0][2] != (store, CTX):
            fail('update', f'every aggregate node must be updated once per selected row with (the store of the row\'s group, the row); '
                 f'{a.name}.update: {["(" + ", ".join(map(show, e[2])) + ")" for e in up] or "not called"}')
            return
    # (e) groups are output in order of first appearance: the container is iterated as it is
    out = loop_events(p, GROUPS)
    if out is None:
        other = [e for e in ev if e[0] == 'loop-begin' and contains(e[1], GROUPS)]
        if other:
            fail('order', f'groups must be output in order of first appearance: the group container is iterated through `{show(other[0][1])}`')
            return
        def container(x):
            return x == GROUPS or (isinstance(x, T) and (x.op == 'dict' or (x.op == 'new' and x.args[0] == 'defaultdict')))

        def about_container(x):
            return container(x) or (isinstance(x, T) and x.op == 'cmp' and isinstance(x.args[1], T) and x.args[1].op == 'call' and
                                    x.args[1].args[0] == 'len' and len(x.args[1].args[1]) == 1 and container(x.args[1].args[1][0]))
        if p.outcome == 'return' and p.decisions and about_container(p.decisions[-1][0]):
            # `if not groups: return ..., []`: nothing was collected, nothing is lost
            t_, o_ = p.decisions[-1]
            lenz = not container(t_) and t_.args[2] == 0
            empty = (container(t_) and not o_) or (lenz and ((t_.args[0] == '==' and o_) or (t_.args[0] in ('!=', '>') and not o_)))
            rows_ = p.value.args[1] if isinstance(p.value, T) and p.value.op == 'tuple' and len(p.value.args) == 2 else None
            if empty and isinstance(rows_, SList) and not rows_.items and not rows_.opaque_tail:
                return
            raise AnalysisError(f'{fi.fq}: returns before the output loop on `{show(t_)[:60]}`: shape not understood')
        if p.outcome == 'return' and p.decisions:
            tests = [f'`{show(t)[:50]}` is {o}' for t, o in p.decisions]
            fail('early-return', f'when {" and ".join(tests)} the aggregate query returns `{show(p.value)[:60]}` after the scan without '
                 f'walking the groups it collected: the groups (one row per key, or the single row of a query without keys) are lost '
                 f'on a condition that is not part of the statement')
            return
        raise AnalysisError(f'{fi.fq}: output loop over the groups not found')
    if early_exits(p, GROUPS):
        fail(f'having:{hdesc}', f'with HAVING {hdesc} the output loop stops at this group: later groups are lost')
        return
    oev = [e for d, e in out]
    gkey, gstore = T('elem', (GROUPS, (0,))), T('elem', (GROUPS, (1,)))
    fin_all = [e for e in ev if e[0] == 'call' and str(e[1]).endswith('.finalize')]
    if len(fin_all) != len([e for e in oev if e[0] == 'call' and str(e[1]).endswith('.finalize')]):
        fail('finalize', 'aggregates are finalised outside the per-group loop')
        return
    evals = [i for i, e in enumerate(oev) if e[0] == 'call' and e[1] in [show(M.E[i]) for i in M.AGG_TARGETS]]
    for a in M.ALL_AGGS:
        fn = [i for i, e in enumerate(oev) if e[0] == 'call' and e[1] == f'{a.name}.finalize']
        if len(fn) != 1 or oev[fn[0]][2] != (gstore,):
            fail('finalize', f'every aggregate node must be finalised once per group from that group\'s store; {a.name}.finalize: '
                 f'{["(" + ", ".join(map(show, oev[i][2])) + ")" for i in fn] or "not called"}')
            return
        if evals and fn[0] > evals[0]:
            fail('finalize', 'target expressions are evaluated before the aggregates of the group are finalised')
            return
    # (f) one output row per group, gated by HAVING; (g) key values land in the columns of their targets
    prods = [e for e in oev if e[0] == 'produce' and isinstance(e[2], SList) and len(e[2].items) == len(M.TG)]
    want_row = hidx is None or hcls is True
    if (len(prods) == 1) != want_row or len(prods) > 1:
        fail(f'having:{hdesc}', f'with HAVING {hdesc} the group row is {"kept" if prods else "dropped"} ({len(prods)} rows), expected '
             f'{"one row" if want_row else "none"} (a NULL or false HAVING value drops the group)')
        return
    if not prods:
        return
    row = prods[0][2].items
    for i in range(len(M.TG)):
        if i in gi:
            want_j = key.args.index(T('call', (show(M.E[i]), (CTX,), ())))
            if row[i] != T('item', (gkey, want_j)):
                fail('key-layout', f'GROUP BY targets {gi}: column {i} of the output row must be the value of target {i} from the group key '
                     f'(item {want_j} of the key as it was built); it is `{show(row[i])}`: key values land in the wrong columns when a '
                     f'GROUP BY names a target twice or out of order')
                return
        else:
            v = row[i]
            if not (isinstance(v, T) and v.op == 'call' and v.args[0] == show(M.E[i]) and len(v.args[1]) == 1):
                fail('values', f'column {i} of the output row must be the value of the aggregate target expression {i}; it is `{show(v)}`')
                return


# ----------------------------------------------------------------------
def _peel(v, name):
    """v == name(inner, ...) -> (inner, other args) else None; materialisations (list(...), iter(...)) in between do not matter"""
    while name != 'list' and isinstance(v, T) and v.op == 'call' and v.args[0] in ('list', 'iter', 'tuple') and len(v.args[1]) == 1:
        v = v.args[1][0]
    if isinstance(v, T) and v.op == 'call' and str(v.args[0]).split('.')[-1] == name and v.args[1]:
        return v.args[1][0], v.args[1][1:]
    return None


def rule_pipeline(P) -> RuleResult:
    res = RuleResult('R-PIPELINE')
    res.exhaustive = True
    fi = P.func(QX, 'execute_select')
    construct = fi.fq + ':result-pipeline'
    LIM = Sym('LIMIT')
    n0 = len(res.findings)
    ncases = 0
    visible = [i for i, n in enumerate(M.NAMES) if n is not None]
    for gi in (None, [], [0, 2]):
      for distinct in (False, True):
        for limit in (None, 0, LIM):
            for spec in (None, [(1, False)]):
                if gi is not None and (distinct, limit) not in ((False, None), (True, LIM)):
                    continue        # aggregate queries: the pipeline is the same code; two corner combinations suffice
                ncases += 1
                nf = len(res.findings)
                label = f'DISTINCT {"on" if distinct else "off"}, LIMIT {"absent" if limit is None else show(limit)}, ORDER BY {"present" if spec else "absent"}'
                for p in _paths(P, fi, distinct=distinct, limit=limit, order_spec=spec, group_indexes=gi):
                    if p.outcome != 'return' or not (isinstance(p.value, T) and p.value.op == 'tuple' and len(p.value.args) == 2):
                        res.fail(construct, 'shape', f'execute_select must return (columns, rows); got {p.outcome} `{show(p.value)[:60]}`', loc(fi))
                        continue
                    cols, rows = p.value.args
                    label = f'DISTINCT {"on" if distinct else "off"}, LIMIT {"absent" if limit is None else show(limit)}, ORDER BY {"present" if spec else "absent"}' + \
                        ('' if gi is None else f', aggregate query grouped by {gi if gi else "nothing"}')
                    # columns: the visible targets, in order, with the type of their expression
                    want_cols = T('tuple', tuple(T('call', ('Column', (M.NAMES[i], Sym(f'DTYPE{i}')), ())) for i in visible))
                    if cols != want_cols:
                        res.fail(construct, 'columns', f'the result columns must describe the visible targets in order (name, type of the '
                                 f'expression); got `{show(cols)[:140]}`', loc(fi))
                    # rows: list(limit(distinct(project(rows))))
                    v = rows
                    stages = []
                    lim = _peel(v, 'islice')
                    if lim is not None and lim[1] == (None,) and limit is None:
                        v = lim[0]              # islice(rows, None): every row
                        lim = None
                    if lim is not None:
                        stages.append('LIMIT')
                        if lim[1] != (limit,):
                            res.fail(construct, 'limit', f'{label}: LIMIT n must keep the first n rows: islice(rows, n); found `{show(v)[:80]}`', loc(fi))
                        v = lim[0]
                    dis = _peel(v, 'uniquify')
                    if dis is not None:
                        stages.append('DISTINCT')
                        v = dis[0]
                    lim2 = _peel(v, 'islice')
                    if lim2 is not None:
                        res.fail(construct, 'order', f'{label}: LIMIT is applied before DISTINCT: duplicates removed afterwards leave fewer than '
                                 f'n rows', loc(fi))
                        continue
                    if (limit is not None) != ('LIMIT' in stages):
                        res.fail(construct, 'limit-gate', f'{label}: LIMIT must apply whenever a limit is given, including LIMIT 0, and only '
                                 f'then; stages applied: {stages}', loc(fi))
                    if distinct != ('DISTINCT' in stages):
                        res.fail(construct, 'distinct-gate' if not distinct or True else 'distinct', f'{label}: DISTINCT must apply exactly when requested; stages applied: {stages}', loc(fi))
                    # projection of the abstract row(s)
                    while isinstance(v, T) and v.op == 'call' and v.args[0] in ('list', 'iter') and len(v.args[1]) == 1:
                        v = v.args[1][0]
                    src = None
                    if isinstance(v, SList) and v.origin is not None:
                        seq, elt, conds = v.origin
                        want_row = T('tuple', tuple(T('item', (T('elem', (seq,)), i)) for i in visible))
                        if not isinstance(seq, SList) or conds or elt != want_row:
                            res.fail(construct, 'project', f'{label}: each result row must be the tuple of the visible targets of a computed '
                                     f'row, in order, for every row; found `{show(v)[:140]}`', loc(fi))
                            continue
                        src = seq
                    elif isinstance(v, SList) and not v.opaque_tail and len(v.items) == 1:
                        src = v.source
                        if not isinstance(src, SList) or len(src.items) != 1 or not isinstance(src.items[0], SList):
                            res.fail(construct, 'project', f'{label}: the projection does not run over the computed rows', loc(fi))
                            continue
                        full = src.items[0].items
                        want_row = T('tuple', tuple(full[i] for i in visible))
                        if v.items[0] != want_row:
                            res.fail(construct, 'project', f'{label}: each result row must be the tuple of the visible targets, in order; '
                                     f'found `{show(v.items[0])[:120]}`', loc(fi))
                    else:
                        res.fail(construct, 'project', f'{label}: rows must be projected to the visible targets before DISTINCT and LIMIT; '
                                 f'the stages receive `{show(v)[:100]}`', loc(fi))
                        continue
                    # ORDER BY sorts the full rows (helper targets included) before the projection
                    ids = aliases_of(p, src.id)
                    sorts = [e for e in p.events if e[0] == 'mutate' and e[2] == 'sort']
                    if spec and not [e for e in sorts if e[1] in ids]:
                        res.fail(construct, 'sort-gate', f'{label}: the rows handed to the projection were not sorted although an ORDER BY is '
                                 f'present', loc(fi))
                    if not spec and sorts:
                        res.fail(construct, 'sort-gate', f'{label}: rows are sorted without an ORDER BY: source order is lost', loc(fi))
                    cut = [e for e in p.events if e[0] == 'mutate' and e[1] in ids and e[2] in ('delitem', 'pop', 'remove', 'clear')]
                    if cut:
                        res.fail(construct, 'order', f'{label}: computed rows are removed ({cut[0][2]} `{show(cut[0][3][0])[:60] if cut[0][3] else ""}`) '
                                 f'before the projection and DISTINCT: LIMIT counts the rows that remain after DISTINCT, so cutting earlier leaves '
                                 f'fewer than n rows', loc(fi))
                if len(res.findings) == nf:
                    res.ok({'case': label, 'stages': 'list(limit(distinct(project(sorted rows)))) as requested'})
    if len(res.findings) == n0:
        res.ok({'function': fi.fq, 'cases': ncases, 'order': ['ORDER BY', 'PROJECT', 'DISTINCT', 'LIMIT'], 'columns': 'visible targets in order'})
    return res


def rule_sortskel_deep(P):
    return rule_sortskel(P, deep=True)


def rule_sortskel(P, deep=False) -> RuleResult:
    """deep: every ORDER BY list of up to three keys over the four targets, in every combination of directions."""
    import itertools
    res = RuleResult('R-SORTSKEL-DEEP' if deep else 'R-SORTSKEL')
    res.exhaustive = True
    fi = P.func(QX, 'execute_select')
    construct = fi.fq + ':order-by'
    n0 = len(res.findings)
    specs = ([(0, True)], [(2, False), (1, False)], [(1, False), (0, True), (2, True)], [(3, True), (0, False), (1, True), (2, False)])
    if deep:
        specs = [list(zip(idx, dirs)) for k in (1, 2, 3) for idx in itertools.product(range(4), repeat=k)
                 for dirs in itertools.product((False, True), repeat=k)]
    for spec in specs:
        nf = len(res.findings)
        for p in _paths(P, fi, order_spec=spec):
            if p.outcome != 'return':
                res.fail(construct, 'raises', f'ORDER BY {spec}: {p.outcome} {show(p.value)[:60]}', loc(fi))
                continue
            sorts = [e for e in p.events if e[0] == 'mutate' and e[2] == 'sort']
            if not sorts:
                res.fail(construct, 'missing', f'ORDER BY {spec}: the rows are not sorted', loc(fi))
                continue
            priority = []
            bad = False
            for e in reversed(sorts):
                kw = dict(e[4])
                key, rev = kw.get('key'), kw.get('reverse', False)
                if key is None:
                    res.fail(construct, 'key', f'ORDER BY {spec}: a sort pass has no key function', loc(fi))
                    bad = True
                    break
                if not (isinstance(key, T) and key.op == 'call' and str(key.args[0]).split('.')[-1] == 'nullitemgetter'):
                    res.fail(construct, 'key', f'ORDER BY {spec}: sort keys may hold NULL: the key function must be the NULL-smallest getter '
                             f'nullitemgetter(...); found `{show(key)[:60]}`', loc(fi))
                    bad = True
                    break
                if not all(type(k) is int for k in key.args[1]) or type(rev) is not bool:
                    res.fail(construct, 'key-index', f'ORDER BY {spec}: the sort key must be made of the target indexes of the order spec and '
                             f'the direction of the pass must be the direction of its keys; found `{show(key)[:60]}`, reverse={show(rev)}', loc(fi))
                    bad = True
                    break
                priority.extend((k, rev) for k in key.args[1])
            if bad:
                continue
            if priority != list(spec):
                res.fail(construct, 'pass-order', f'ORDER BY {spec} (target index, descending): the stable sort passes '
                         f'{[(tuple(dict(e[4])["key"].args[1]), dict(e[4]).get("reverse", False)) for e in sorts]} order the rows by '
                         f'{priority}: keys must apply with the first ORDER BY key most significant, each in its own direction', loc(fi))
        if len(res.findings) == nf:
            res.ok({'order_spec': str(spec), 'passes_equal_spec': True})
        elif deep and len(res.findings) > 5:
            break
    if len(res.findings) == n0:
        res.ok({'function': fi.fq, 'order_specs': [str(s) for s in specs], 'criterion': 'stable passes, last pass most significant, equal the ORDER BY list',
                'key_function': 'nullitemgetter'})
    return res


# ----------------------------------------------------------------------
# R-ALLOCATOR (C02): every aggregate node gets a slot of its own in every group's store

def rule_allocator(P) -> RuleResult:
    """The Allocator on terms: n allocate() calls hand out n different handles, each a valid index of every store create_store() makes
    afterwards, and each store is a new list of that size filled with None.  (R-AGGPROTO decides that every aggregate node is given
    one handle before the scan and that every group gets a store; this rule decides that the handles do not collide.)"""
    res = RuleResult('R-ALLOCATOR')
    res.exhaustive = True
    al = P.cls(QX, 'Allocator')
    init, alloc, create = (al.methods.get(m) for m in ('__init__', 'allocate', 'create_store'))
    if not (init and alloc and create):
        raise AnalysisError('anchor vanished: Allocator.__init__ / allocate / create_store')
    A = Sym('ALLOCATOR')
    for n in (0, 1, 3):
        heap = {}
        for p in Engine(P).paths(init, {'self': A}):
            heap = dict(p.heap)
        handles = []
        ok = True
        for i in range(n):
            def on_attr(base, attr, ex, _h=heap):
                v = _h.get(T('attr', (base, attr)))
                return v if v is not None else NotImplemented
            ps = Engine(P, on_attr=on_attr).paths(alloc, {'self': A})
            if len(ps) != 1 or ps[0].decisions or ps[0].outcome != 'return':
                raise AnalysisError(f'{alloc.fq}: not a straight-line computation on terms')
            handles.append(ps[0].value)
            heap.update(ps[0].heap)

        stores = []
        shared = False
        heaps = [heap]
        for _ in range(2):
            nxt = []
            for h_ in heaps[:4]:
                def on_attr2(base, attr, ex, _h=h_):
                    v = _h.get(T('attr', (base, attr)))
                    return v if v is not None else NotImplemented
                for p in Engine(P, on_attr=on_attr2).paths(create, {'self': A}):
                    if p.outcome != 'return':
                        continue
                    if any(isinstance(p.value, SList) and isinstance(s0, SList) and s0.id == p.value.id for s0 in stores):
                        shared = True
                    stores.append(p.value)
                    nxt.append({**h_, **p.heap})
            heaps = nxt
        if not stores:
            raise AnalysisError(f'{create.fq}: no returning path on terms')
        concrete = all(type(h) is int for h in handles)
        if not concrete:
            raise AnalysisError(f'{alloc.fq}: handles are not concrete on terms: {[show(h) for h in handles]}')
        if len(set(handles)) != len(handles):
            ok = False
            res.fail(alloc.fq, 'allocator:collision', f'{n} allocate() calls hand out the handles {handles}: two aggregate nodes share a slot, '
                     f'so one aggregate overwrites the other in every group', loc(alloc))
        for s_ in stores:
            items = s_.items if isinstance(s_, SList) and not s_.opaque_tail else None
            if items is None and isinstance(s_, T) and s_.op == 'attr' and s_.args[0] is A:
                shared = True
                continue
            if items is None:
                raise AnalysisError(f'{create.fq}: the store is not a concrete list on terms: {show(s_)[:60]}')
            if any(not (0 <= h < len(items)) for h in handles):
                ok = False
                res.fail(create.fq, 'allocator:size', f'after {n} allocations create_store() makes a store of {len(items)} slots; the handles '
                         f'{handles} must all index it', loc(create))
            elif any(x is not None for x in items):
                ok = False
                res.fail(create.fq, 'allocator:fill', f'a new store starts with every slot NULL; found {[show(x) for x in items]}', loc(create))
        if shared:
            ok = False
            res.fail(create.fq, 'allocator:shared-store', 'create_store() returns the same list object every time: all groups share one store', loc(create))
        if ok:
            res.ok({'allocations': n, 'handles': handles, 'store_slots': n})
    # the node's side: every execution asks the allocator of that execution for a slot, whatever handle the node kept from an
    # earlier execution of the same compiled query (a compiled subquery that a nested SELECT shares is executed twice in one
    # statement; a statement compiled once can be executed again) - a handle kept is an index into a store that is not made
    QC_ = 'beanquery.query_compile'
    agg = P.cls(QC_, 'EvalAggregator')
    na = agg.methods.get('allocate')
    if na is None or len(na.params) < 2:
        raise AnalysisError('anchor vanished: EvalAggregator.allocate(allocator)')
    NODE, ALLOC = Sym('AGGREGATE_NODE'), Sym('ALLOCATOR_OF_THIS_RUN')
    PREV = T('attr', (Sym('PREVIOUS_EXECUTION'), 'handle'))
    want = T('call', (f'{show(ALLOC)}.allocate', (), ()))
    for had_handle in (False, True):
        def on_attr_n(base, attr, ex):
            if base == NODE and attr == 'handle':
                return PREV
            return NotImplemented

        def oracle_n(term, ex, _h=had_handle):
            if term == PREV:
                return _h
            if isinstance(term, T) and term.op == 'cmp' and term.args[0] in ('is', 'is not', '==', '!=') and term.args[1] == PREV and term.args[2] is None:
                return (not _h) if term.args[0] in ('is', '==') else _h
            return None

        def on_call_n(fname, fval, recv, args, kwargs, ex, node):
            if recv == ALLOC and str(fname).endswith('.allocate'):
                ex.events.append(('call', fname, args, kwargs))
                return want
            return NotImplemented
        for p in Engine(P, on_attr=on_attr_n, oracle=oracle_n, on_call=on_call_n).paths(na, {'self': NODE, na.params[1]: ALLOC}):
            got = p.heap.get(T('attr', (NODE, 'handle')))
            if p.outcome == 'raise' or got != want:
                res.fail(na.fq, 'allocator:node-handle', f'EvalAggregator.allocate must take a slot from the allocator it is given on every '
                         f'execution; with {"a handle kept from an earlier execution" if had_handle else "no handle yet"} the node ends up with '
                         f'`{show(got) if got is not None else "the old handle"}`: the store of the new execution has no such slot', loc(na))
            else:
                res.ok({'node': na.fq, 'handle_from_earlier_execution': had_handle, 'handle': 'allocator.allocate()'})
    return res


# ----------------------------------------------------------------------
# R-QUERYEXEC (C07, C03): a compiled SELECT is executed by execute_select and by nothing else

def rule_queryexec(P) -> RuleResult:
    """execute_query on terms for a compiled SELECT (whatever its LIMIT, DISTINCT, ORDER BY ... fields hold): on every path the answer is
    the (description, rows) pair execute_select(query) returned, unchanged - there is no second place that builds a description or a row
    list for a SELECT, so what R-PIPELINE / R-HIDDEN decide about execute_select is what the caller gets."""
    res = RuleResult('R-QUERYEXEC')
    res.exhaustive = True
    fi = P.func(QX, 'execute_query')
    QUERY = Sym('COMPILED_SELECT')
    RESULT = Sym('RESULT_OF_EXECUTE_SELECT')

    def on_call(fname, fval, recv, args, kwargs, ex, node):
        f = str(fname).split('.')[-1]
        if f == 'execute_select':
            return RESULT if tuple(args) == (QUERY,) and not kwargs else T('call', ('execute_select', tuple(args), tuple(kwargs)))
        return NotImplemented
    def on_isinstance(v, c, ex):
        if v == QUERY:
            names = list(c.args) if isinstance(c, T) and c.op == 'tuple' else [c]
            return any(gname(x).split('.')[-1] == 'EvalQuery' for x in names)
        return NotImplemented
    n = 0
    for p in Engine(P, on_call=on_call, on_isinstance=on_isinstance).paths(fi, {fi.params[0]: QUERY}):
        n += 1
        tests = [show(t)[:60] for t, _ in p.decisions]
        if p.outcome == 'return' and p.value == RESULT:
            res.ok({'function': fi.fq, 'compiled_select': 'returns execute_select(query) unchanged', 'conditions_on_the_path': tests})
        else:
            res.fail(fi.fq, 'queryexec:bypass', f'for a compiled SELECT{" with " + " and ".join(tests) if tests else ""} execute_query '
                     f'{"returns `" + show(p.value)[:100] + "`" if p.outcome == "return" else "raises " + str(p.value[0])} instead of what '
                     f'execute_select(query) returns: a second place builds the description or the rows, and nothing ties it to the visible '
                     f'targets, their names and their order', loc(fi))
    if n == 0:
        raise AnalysisError(f'{fi.fq}: no path on terms')
    return res
