"""Compiler rules on the term interpreter: R-IMPLICITCAST, R-COALESCE, R-IDXBOUND, target naming (R-HIDDEN part),
R-METAREWRITE (rewrites), R-SETNAME (.set name validation)."""
from __future__ import annotations

import ast
import datetime
import decimal

from .. import registry
from ..symex import Sym, Falsy, T, SList, Engine, Raise, show, walk_terms
from ..loader import AnalysisError, FuncInfo, ClassInfo, loc
from ..report import RuleResult

CO = 'beanquery.compiler'
SELF = Sym('COMPILER')


def _method(P, name):
    return P.func(CO, f'Compiler.{name}')


def _attr(base, name):
    return T('attr', (base, name))


# ----------------------------------------------------------------------
# R-IMPLICITCAST

TYPE_SYMS = {'int': int, 'Decimal': decimal.Decimal, 'str': str, 'bool': bool, 'date': datetime.date, 'dict': dict, 'object': object}


def rule_implicitcast(P) -> RuleResult:
    res = RuleResult('R-IMPLICITCAST')
    res.exhaustive = True
    reg = registry.get(P)
    fi = _method(P, '_binaryop')
    OBJ = Sym('object')
    tmap = {Sym(k): v for k, v in TYPE_SYMS.items()}
    name_of = {v: k for k, v in TYPE_SYMS.items()}
    typed = [t for t in reg.types_map] + [dict]
    NODE, L0, R0 = Sym('NODE'), Sym('LEFT0'), Sym('RIGHT0')
    for side in ('left', 'right'):
        for t in typed:
            tsym = Sym(name_of.get(t, t.__name__))
            tmap[tsym] = t
            lookups = []

            def on_attr(base, attr, ex, _side=side, _t=tsym):
                if attr == 'dtype':
                    if base == (L0 if _side == 'left' else R0):
                        return OBJ
                    if base in (L0, R0):
                        return _t
                    if isinstance(base, T) and base.op == 'call':
                        return Sym('CASTED')          # the result of a cast function: a typed node
                if base == NODE and attr in ('left', 'right'):
                    return Sym('AST_' + attr)
                return NotImplemented

            def on_call(fname, fval, recv, args, kwargs, ex, node, _lk=lookups):
                f = str(fname)
                if f.endswith('._compile') and args == (Sym('AST_left'),):
                    return L0
                if f.endswith('._compile') and args == (Sym('AST_right'),):
                    return R0
                if f == 'types.MAP.get':
                    return reg.types_map.get(tmap.get(args[0], args[0]), args[1] if len(args) > 1 else None)
                if f == 'types.function_lookup' and len(args) == 3:
                    _lk.append(args[1])
                    return T('call', ('CASTFN', (args[1],), ()))
                if f == 'types.name' or f.endswith('.lower'):
                    return 'x'
                if f == 'type':
                    return Sym('NODETYPE')
                return NotImplemented

            def on_item(base, idx, ex):
                if base == T('global', ('types.MAP',)):
                    k = tmap.get(idx, idx)
                    if k not in reg.types_map:
                        raise Raise('KeyError', (idx,))
                    return reg.types_map[k]
                if base == T('global', ('OPERATORS',)):
                    return SList([Sym('OP')])
                return NotImplemented

            def on_isinstance(v, c, ex):
                return False       # operands are not constants: no folding

            def oracle(term, ex):
                # `op.__intypes__ == [left.dtype, right.dtype]`: an overload matches once both operands are typed
                if isinstance(term, T) and term.op == 'cmp' and term.args[0] == '==' and isinstance(term.args[2], SList):
                    return all(x != OBJ for x in term.args[2].items)
                if isinstance(term, T) and term.op == 'cmp' and term.args[0] in ('is', 'is not') and \
                        isinstance(term.args[1], Sym) and isinstance(term.args[2], Sym):
                    eq = term.args[1] == term.args[2]
                    return eq if term.args[0] == 'is' else not eq
                return None
            eng = Engine(P, on_attr=on_attr, on_call=on_call, on_item=on_item, on_isinstance=on_isinstance, oracle=oracle,
                         globals_={k: Sym(k) for k in TYPE_SYMS} | {'OPERATORS': T('global', ('OPERATORS',)), 'FUNCTIONS': Sym('FUNCTIONS')})
            paths = eng.paths(fi, {'self': SELF, fi.params[1]: NODE})
            want_t = decimal.Decimal if t is int else t
            want = reg.types_map.get(want_t)
            label = f'untyped {side} operand with {t.__name__} on the other side'
            construct = f'{fi.fq}:implicit-cast'
            for p in paths:
                if any(e[0] == 'loop-cut' for e in p.events):
                    continue
                if p.outcome == 'raise' and p.value[0] != 'CompilationError':
                    res.fail(construct, f'implicitcast:{side}:{t.__name__}:{p.value[0]}',
                             f'{label}: the cast lookup raises {p.value[0]} instead of rejecting the operator with a CompilationError', loc(fi))
                    break
                if want is None:
                    if p.outcome != 'raise' or lookups:
                        res.fail(construct, f'implicitcast:{side}:{t.__name__}', f'{label}: there is no cast to {t.__name__}; the operator must be '
                                 f'rejected with a CompilationError, got {p.outcome} after casts {lookups}', loc(fi))
                        break
                else:
                    casted = T('call', ('CASTFN(%r)' % want, (_attr(SELF, 'context'), None), ()))
                    ok = p.outcome == 'return' and lookups[:1] == [want]
                    if ok:
                        # the cast operand takes the place of the untyped one, the other stays
                        v = p.value
                        ok = isinstance(v, T) and v.op == 'call' and len(v.args[1]) == 2
                        if ok:
                            a, b = v.args[1]
                            cast_side, other_side = (a, b) if side == 'left' else (b, a)
                            ok = other_side == (R0 if side == 'left' else L0) and isinstance(cast_side, T) and cast_side.op == 'call' \
                                and (L0 if side == 'left' else R0) in set(walk_terms(cast_side))
                    if not ok:
                        res.fail(construct, f'implicitcast:{side}:{t.__name__}',
                                 f'{label}: the untyped operand must be cast with {want}() '
                                 + ('(untyped numbers are decimals: casting to int would lose information) ' if t is int else '')
                                 + f'and the operator resolved again; got casts {lookups}, {p.outcome} `{show(p.value)[:80]}`', loc(fi))
                        break
            else:
                res.ok({'case': label, 'cast': want or 'rejected'})
    return res


# ----------------------------------------------------------------------
# R-COALESCE

def rule_coalesce(P) -> RuleResult:
    res = RuleResult('R-COALESCE')
    res.exhaustive = True
    fi = _method(P, '_function')
    ec = P.cls('beanquery.query_compile', 'EvalCoalesce')
    init = ec.methods.get('__init__')
    if init is None or 'args[0].dtype' not in ast.unparse(init.node):
        raise AnalysisError('EvalCoalesce no longer announces the type of its first argument: rule not applicable as written')
    NODE = Sym('NODE')
    types_ = ['str', 'int', 'bool', 'Decimal', 'date', 'object']
    real = TYPE_SYMS
    n = 0
    ok = True
    for first in types_:
        for other in types_:
            n += 1
            F, O = Sym(first), Sym(other)
            OPS = T('compiled-operands', ())

            def on_attr(base, attr, ex, _F=F, _O=O):
                if base == NODE and attr == 'fname':
                    return 'coalesce'
                if base == NODE and attr == 'operands':
                    return Sym('AST_OPERANDS')
                if attr == 'dtype':
                    if isinstance(base, T) and base.op == 'elem':
                        return _O
                    if isinstance(base, T) and base.op == 'item' and base.args[1] == 0:
                        return _F
                if attr == '__name__' and isinstance(base, Sym):
                    return base.name
                return NotImplemented

            def on_call(fname, fval, recv, args, kwargs, ex, node):
                f = str(fname)
                if f == 'issubclass' and len(args) == 2 and all(isinstance(a, Sym) and a.name in real for a in args):
                    return issubclass(real[args[0].name], real[args[1].name])
                if f.endswith('.join'):
                    return 'x'
                return NotImplemented
            eng = Engine(P, on_attr=on_attr, on_call=on_call)
            for p in eng.paths(fi, {'self': SELF, fi.params[1]: NODE}):
                rejected = p.outcome == 'raise' and p.value[0] == 'CompilationError'
                if p.outcome == 'raise' and not rejected:
                    ok = False
                    res.fail(f'{fi.fq}:coalesce', f'coalesce:{first}:{other}:raises', f'coalesce(<{first}>, <{other}>) raises {p.value[0]}', loc(fi))
                    continue
                want = first != other
                if rejected != want:
                    ok = False
                    res.fail(f'{fi.fq}:coalesce', f'coalesce:{first}:{other}',
                             f'coalesce(<{first}>, ..., <{other}>) is {"rejected" if rejected else "accepted"}; the result is announced as {first}, '
                             f'so an argument of type {other} must be {"rejected" if want else "accepted"}', loc(fi))
            if not ok:
                break
        if not ok:
            break
    if ok:
        res.ok({'site': fi.fq, 'type_pairs': n, 'accepts': "only arguments of the first argument's type"})
    return res


# ----------------------------------------------------------------------
# R-IDXBOUND: the three positional-reference resolvers on a small abstract targets list

def _targets(n_visible, n_hidden, names=None):
    names = names or ['a', 'b', 'a', 'c', 'd'][:n_visible]      # note the duplicate name
    tg = [Sym(f'TARGET{i}') for i in range(n_visible + n_hidden)]
    attrs = {}
    for i, t in enumerate(tg):
        attrs[(t, 'name')] = names[i] if i < n_visible else None
        attrs[(t, 'c_expr')] = Sym(f'EXPR{i}')
        attrs[(t, 'is_aggregate')] = False
    return tg, attrs


def rule_idxbound(P) -> RuleResult:
    res = RuleResult('R-IDXBOUND')
    res.exhaustive = True
    N = 3

    def run(fi, env, attrs, extra_call=None, is_int=None):
        def on_attr(base, attr, ex):
            if (base, attr) in attrs:
                return attrs[(base, attr)]
            return NotImplemented

        def on_isinstance(v, c, ex):
            cs = show(c)
            if cs.endswith('int'):
                return type(v) is int
            if cs.endswith('Column'):
                return False
            return NotImplemented

        def on_call(fname, fval, recv, args, kwargs, ex, node):
            f = str(fname)
            if f == 'is_aggregate':
                return False
            if f == 'issubclass':
                return True
            if extra_call is not None:
                return extra_call(f, args, kwargs, ex)
            return NotImplemented
        return Engine(P, on_attr=on_attr, on_isinstance=on_isinstance, on_call=on_call).paths(fi, env)

    def judge(clause, fi, pos, outcome_index, want_index, detail_ctx):
        construct = f'{fi.fq}:positional-reference'
        if want_index is None:
            if outcome_index != 'rejected':
                res.fail(construct, f'idxbound:{clause}:{pos}', f'{clause} position {pos} {detail_ctx}: '
                         f'{"resolved to index " + str(outcome_index) if isinstance(outcome_index, int) else outcome_index}; it must be rejected with a '
                         f'CompilationError (valid positions are 1..n of the SELECT list)', loc(fi))
                return False
        elif outcome_index != want_index:
            res.fail(construct, f'idxbound:{clause}:{pos}', f'{clause} position {pos} {detail_ctx}: '
                     f'{"rejected" if outcome_index == "rejected" else outcome_index}; it must resolve to target index {want_index}', loc(fi))
            return False
        return True

    # GROUP BY: resolved on the SELECT list before any invisible target exists
    fi = _method(P, '_compile_group_by')
    ok = True
    for pos in (0, 1, N, N + 1, -1):
        tg, attrs = _targets(N, 0)
        GB = Sym('GROUP_BY')
        attrs[(GB, 'columns')] = SList([pos])
        attrs[(GB, 'having')] = None
        got = set()
        for p in run(fi, {'self': SELF, fi.params[1]: GB, fi.params[2]: SList(tg)}, attrs):
            if p.outcome == 'raise':
                got.add('rejected' if p.value[0] == 'CompilationError' else f'raises {p.value[0]}')
            elif p.outcome == 'return' and isinstance(p.value, T) and p.value.op == 'tuple' and isinstance(p.value.args[1], SList):
                gi = p.value.args[1].items
                got.add(gi[0] if len(gi) == 1 else f'group indexes {gi}')
            else:
                got.add(f'{p.outcome} {show(p.value)[:40]}')
        want = pos - 1 if 1 <= pos <= N else None
        for g in got:
            ok &= judge('GROUP BY', fi, pos, g, want, f'with {N} targets')
    if ok:
        res.ok({'clause': 'GROUP BY', 'positions': [0, 1, N, N + 1, -1], 'targets': N})
    # ORDER BY: resolved among the visible targets (duplicates count, invisible ones do not)
    fi = _method(P, '_compile_order_by')
    ok = True
    for hidden in (0, 1):
        for pos in (0, 1, N, N + 1, -1):
            tg, attrs = _targets(N, hidden)
            SPEC, ORD = Sym('SPEC'), Sym('ORDERING')
            attrs[(SPEC, 'column')] = pos
            attrs[(SPEC, 'ordering')] = ORD
            got = set()
            for p in run(fi, {'self': SELF, fi.params[1]: SList([SPEC]), fi.params[2]: SList(tg)}, attrs):
                if p.outcome == 'raise':
                    got.add('rejected' if p.value[0] == 'CompilationError' else f'raises {p.value[0]}')
                elif p.outcome == 'return' and isinstance(p.value, T) and p.value.op == 'tuple' and isinstance(p.value.args[1], SList):
                    spec = p.value.args[1].items
                    got.add(spec[0].args[0] if len(spec) == 1 and isinstance(spec[0], T) and spec[0].op == 'tuple' else f'order spec {spec}')
                else:
                    got.add(f'{p.outcome} {show(p.value)[:40]}')
            want = pos - 1 if 1 <= pos <= N else None
            for g in got:
                ok &= judge('ORDER BY', fi, pos, g, want, f'with {N} targets (two of them named alike)' + (' and an invisible GROUP BY target' if hidden else ''))
    if ok:
        res.ok({'clause': 'ORDER BY', 'positions': [0, 1, N, N + 1, -1], 'targets': N, 'with_invisible_target': [False, True]})
    # PIVOT BY: same domain; the other reference is a valid, different, grouped column
    fi = _method(P, '_compile_pivot_by')
    ok = True
    for hidden in (0, 1):
        for pos in (0, 1, N, N + 1, -1):
            tg, attrs = _targets(N, hidden)
            PB = Sym('PIVOT_BY')
            other = 2
            attrs[(PB, 'columns')] = SList([pos, other])
            got = set()
            for p in run(fi, {'self': SELF, fi.params[1]: PB, fi.params[2]: SList(tg), fi.params[3]: SList(list(range(N + hidden)))}, attrs):
                if p.outcome == 'raise':
                    got.add('rejected' if p.value[0] == 'CompilationError' else f'raises {p.value[0]}')
                elif p.outcome == 'return' and isinstance(p.value, SList) and len(p.value.items) == 2:
                    got.add(p.value.items[0] if p.value.items[1] == other - 1 else f'pivots {p.value.items}')
                else:
                    got.add(f'{p.outcome} {show(p.value)[:40]}')
            want = pos - 1 if 1 <= pos <= N and pos != other else None
            for g in got:
                ok &= judge('PIVOT BY', fi, pos, g, want, f'with {N} targets' + (' and an invisible GROUP BY target' if hidden else ''))
    if ok:
        res.ok({'clause': 'PIVOT BY', 'positions': [0, 1, N, N + 1, -1], 'targets': N, 'with_invisible_target': [False, True]})
    return res


# ----------------------------------------------------------------------
# target naming (part of R-HIDDEN)

def naming_cases(P, res):
    gtn = P.func(CO, 'get_target_name')
    TG = Sym('TARGET')
    EXPR = _attr(TG, 'expression')
    ok = True
    for alias in (None, 'ALIAS'):
        for is_col in (True, False):
            def on_attr(base, attr, ex, _a=alias):
                if base == TG and attr == 'name':
                    return _a
                return NotImplemented

            def on_isinstance(v, c, ex, _c=is_col):
                return _c if show(c).endswith('Column') else False

            def on_call(fname, fval, recv, args, kwargs, ex, node, _c=is_col):
                if fname == 'getattr' and len(args) >= 2 and args[0] == EXPR and args[1] == 'name':
                    # generic expressions may have a `name` attribute too (attribute access, placeholders)
                    return _attr(EXPR, 'name')
                return NotImplemented
            for p in Engine(P, on_attr=on_attr, on_isinstance=on_isinstance, on_call=on_call).paths(gtn, {gtn.params[0]: TG}):
                want = 'ALIAS' if alias else _attr(EXPR, 'name') if is_col else T('call', (f'{show(_attr(EXPR, "text"))}.strip', (), ()))
                if p.value != want:
                    ok = False
                    res.fail(gtn.fq, f'hidden:naming:{"alias" if alias else "noalias"}:{"column" if is_col else "expr"}',
                             f'target name with alias {"present" if alias else "absent"} and a '
                             f'{"bare column" if is_col else "general expression"}: got `{show(p.value)}`, must be '
                             f'{"the alias" if alias else "the column name" if is_col else "the stripped source text of the expression"}', loc(gtn))
    if ok:
        res.ok({'function': gtn.fq, 'priority': 'alias > column name > expression text', 'cases': 4})


# ----------------------------------------------------------------------
# meta()/entry_meta()/any_meta() rewrites (part of R-METAREWRITE)

def _strip_parseinfo(t):
    if isinstance(t, T):
        if t.op == 'call':
            return T('call', (t.args[0], tuple(_strip_parseinfo(a) for a in t.args[1]),
                              tuple((k, _strip_parseinfo(v)) for k, v in t.args[2] if k != 'parseinfo')))
        return T(t.op, tuple(_strip_parseinfo(a) if isinstance(a, (T, SList)) else a for a in t.args))
    if isinstance(t, SList):
        return ('list', tuple(_strip_parseinfo(x) for x in t.items))
    return t


def rewrite_cases(P, res):
    fi = _method(P, '_function')
    NODE = Sym('NODE')
    KEY = Sym('KEY_AST')

    def C(name, *args):
        return T('call', (name, tuple(args), ()))
    col_meta = C('ast.Column', 'meta')
    entry_meta = C('ast.Attribute', C('ast.Column', 'entry'), 'meta')
    want = {
        'meta': C('ast.Function', 'getitem', ('list', (col_meta, KEY))),
        'entry_meta': C('ast.Function', 'getitem', ('list', (entry_meta, KEY))),
        'any_meta': C('ast.Function', 'getitem', ('list', (col_meta, KEY, C('ast.Function', 'getitem', ('list', (entry_meta, KEY)))))),
    }
    for fname, expected in want.items():
        compiled = []

        def on_attr(base, attr, ex, _f=fname):
            if base == NODE and attr == 'fname':
                return _f
            if base == NODE and attr == 'operands':
                return SList([KEY])
            return NotImplemented

        def on_call(fn, fval, recv, args, kwargs, ex, node):
            f = str(fn)
            if f.endswith('._compile'):
                compiled.append(args[0] if args else None)
                return T('call', ('COMPILED', args, ()))
            if f == 'types.function_lookup':
                return Sym('FOUND')
            return NotImplemented
        paths = Engine(P, on_attr=on_attr, on_call=on_call).paths(fi, {'self': SELF, fi.params[1]: NODE})
        construct = f'{fi.fq}:{fname}'
        good = False
        seen = None
        for p in paths:
            if p.outcome != 'return':
                continue
            v = p.value
            if isinstance(v, T) and v.op == 'call' and v.args[0] == 'COMPILED' and v.args[1]:
                seen = _strip_parseinfo(v.args[1][0])
                if seen == expected:
                    good = True
        if good:
            res.ok({'function': fname, 'rewritten_to': show(expected)})
        elif seen is None:
            res.fail(construct, 'metarewrite:missing', f'{fname}(key) is not rewritten into a metadata lookup and compiled', loc(fi))
        else:
            res.fail(construct, 'metarewrite:target', f'{fname}(key) must become `{show(expected)}`; it becomes `{show(seen)}`', loc(fi))


# ----------------------------------------------------------------------
# .set: the variable name is validated before it is reflected on

def set_name_cases(P, res):
    sh = P.module('beanquery.shell')
    ds = sh.classes['DispatchingShell'].methods.get('do_set') if 'DispatchingShell' in sh.classes else None
    if ds is None:
        raise AnalysisError('anchor vanished: DispatchingShell.do_set')
    SHELL = Sym('SHELL')
    ok = True
    for ncomp in (1, 2, 3):
        for valid in (True, False):
            def on_call(fname, fval, recv, args, kwargs, ex, node, _n=ncomp):
                f = str(fname)
                if f == 'shlex.split':
                    return SList(['NAME', 'VALUE', 'EXTRA'][:_n])
                if f in ('print',):
                    ex.events.append(('print', args))
                    return None
                return NotImplemented

            def oracle(term, ex, _v=valid):
                if isinstance(term, T) and term.op == 'cmp' and term.args[0] in ('in', 'not in') and term.args[1] == 'NAME':
                    return _v if term.args[0] == 'in' else not _v
                return None
            for p in Engine(P, on_call=on_call, oracle=oracle).paths(ds, {'self': SHELL, ds.params[1]: 'NAME VALUE'}):
                calls = [str(e[1]).split('.')[-1] for e in p.events if e[0] == 'call']
                reflect = [c for c in calls if c in ('getstr', 'setstr')]
                errors = [c for c in calls if c == 'error']
                if not valid:
                    if reflect:
                        ok = False
                        res.fail(ds.fq, 'settings:name-check', '.set reflects on a name that is not a setting (getattr also finds the methods of '
                                 'the settings object: `.set todict x` fails with TypeError instead of "variable does not exist")', loc(ds))
                    elif not errors:
                        ok = False
                        res.fail(ds.fq, 'settings:unknown-silent', '.set with an unknown variable name reports no error', loc(ds))
                else:
                    want = {1: 'getstr', 2: 'setstr'}.get(ncomp)
                    if want and want not in reflect:
                        ok = False
                        res.fail(ds.fq, f'settings:arity:{ncomp}', f'.set NAME{" VALUE" if ncomp == 2 else ""} must {"show" if ncomp == 1 else "change"} the setting', loc(ds))
                    if ncomp == 3 and (reflect or not errors):
                        ok = False
                        res.fail(ds.fq, 'settings:arity:3', '.set with too many arguments must report an error and change nothing', loc(ds))
    if ok:
        res.ok({'method': ds.fq, 'cases': 6, 'name_validated_before_reflection': True})
