"""Compiler rules on the term interpreter: R-IMPLICITCAST, R-COALESCE, R-IDXBOUND, target naming (R-HIDDEN part),
R-METAREWRITE (rewrites), R-SETNAME (.set name validation)."""
from __future__ import annotations

import ast
import datetime
import decimal

from .. import registry
from ..symex import Sym, Falsy, T, SList, Engine, Raise, show, gname, contains
from ..loader import AnalysisError, FuncInfo, ClassInfo, loc
from ..report import RuleResult

CO = 'beanquery.compiler'
SELF = Sym('COMPILER')


def _method(P, name):
    return P.func(CO, f'Compiler.{name}')


def ctor_args(P, cls, args, kwargs):
    """Positional form of a constructor call of a query_compile class: keywords placed by the class's __init__ parameters, or by its
    dataclass fields in declaration order."""
    args, kwargs = list(args), list(kwargs)
    if not kwargs:
        return tuple(args)
    qc = P.module('beanquery.query_compile')
    ci = qc.classes.get(cls)
    if ci is not None:
        init = ci.methods.get('__init__')
        names = init.params[1:] if init is not None else [st.target.id for st in ci.node.body if isinstance(st, ast.AnnAssign) and isinstance(st.target, ast.Name)]
    else:
        # X = collections.namedtuple('X', 'a b') / namedtuple('X', ['a', 'b'])
        v = qc.assigns.get(cls)
        names = None
        if isinstance(v, ast.Call) and ast.unparse(v.func).split('.')[-1] == 'namedtuple' and len(v.args) >= 2:
            try:
                spec = ast.literal_eval(v.args[1])
                names = spec.replace(',', ' ').split() if isinstance(spec, str) else list(spec)
            except ValueError:
                names = None
        if names is None:
            raise AnalysisError(f'anchor vanished: query_compile.{cls}')
    out = list(args)
    kw = dict(kwargs)
    for n in names[len(args):]:
        if n not in kw:
            break
        out.append(kw.pop(n))
    if kw:
        raise AnalysisError(f'{cls}(...): keyword arguments {sorted(map(str, kw))} do not continue the positional ones ({names})')
    return tuple(out)


def _attr(base, name):
    return T('attr', (base, name))


# ----------------------------------------------------------------------
# R-IMPLICITCAST

TYPE_SYMS = {'int': int, 'Decimal': decimal.Decimal, 'str': str, 'bool': bool, 'date': datetime.date, 'dict': dict, 'object': object}


def rule_implicitcast(P) -> RuleResult:
    res = RuleResult('R-IMPLICITCAST')
    res.exhaustive = True
    reg = registry.get(P)
    fi = _method(P, '_binaryop')
    OBJ = Sym('object')
    tmap = {Sym(k): v for k, v in TYPE_SYMS.items()}
    name_of = {v: k for k, v in TYPE_SYMS.items()}
    typed = [t for t in reg.types_map] + [dict]
    NODE, L0, R0 = Sym('NODE'), Sym('LEFT0'), Sym('RIGHT0')
    for side in ('left', 'right'):
        for t in typed:
            tsym = Sym(name_of.get(t, t.__name__))
            tmap[tsym] = t
            lookups = []

            def on_attr(base, attr, ex, _side=side, _t=tsym):
                if attr == 'dtype':
                    if base == (L0 if _side == 'left' else R0):
                        return OBJ
                    if base in (L0, R0):
                        return _t
                    if isinstance(base, T) and base.op == 'new':
                        return Sym('CASTED')          # the result of a cast function: a typed node
                if base == NODE and attr in ('left', 'right'):
                    return Sym('AST_' + attr)
                return NotImplemented

            def on_call(fname, fval, recv, args, kwargs, ex, node, _lk=lookups):
                f = str(fname)
                if f.endswith('._compile') and args == (Sym('AST_left'),):
                    return L0
                if f.endswith('._compile') and args == (Sym('AST_right'),):
                    return R0
                if f == 'types.MAP.get':
                    return reg.types_map.get(tmap.get(args[0], args[0]), args[1] if len(args) > 1 else None)
                if f == 'types.function_lookup' and len(args) == 3:
                    _lk.append(args[1])
                    # an overload taking an untyped (object) operand exists for every cast in the registry: the lookup finds it
                    if any(f.name == args[1] and len(f.intypes) == 1 and (f.intypes[0] is object or f.intypes[0] is registry.ANY) for f in reg.funcs):
                        return T('new', ('CASTFN', args[1]))
                    return None
                if isinstance(fval, T) and fval.op == 'new' and fval.args[0] == 'CASTFN':
                    return T('new', ('cast', fval.args[1], args))     # instantiating the cast evaluator: an object, never None
                if f == 'types.name' or f.endswith('.lower'):
                    return 'x'
                if f == 'type':
                    return Sym('NODETYPE')
                return NotImplemented

            def on_item(base, idx, ex):
                if base == T('global', ('types.MAP',)):
                    k = tmap.get(idx, idx)
                    if k not in reg.types_map:
                        raise Raise('KeyError', (idx,))
                    return reg.types_map[k]
                if base == T('global', ('OPERATORS',)):
                    return SList([Sym('OP')])
                return NotImplemented

            def on_isinstance(v, c, ex):
                return False       # operands are not constants: no folding

            def oracle(term, ex):
                # `op.__intypes__ == [left.dtype, right.dtype]`: an overload matches once both operands are typed
                if isinstance(term, T) and term.op == 'cmp' and term.args[0] == '==' and isinstance(term.args[2], SList):
                    return all(x != OBJ for x in term.args[2].items)
                if isinstance(term, T) and term.op == 'cmp' and term.args[0] in ('is', 'is not') and \
                        isinstance(term.args[1], Sym) and isinstance(term.args[2], Sym):
                    eq = term.args[1] == term.args[2]
                    return eq if term.args[0] == 'is' else not eq
                return None
            eng = Engine(P, on_attr=on_attr, on_call=on_call, on_item=on_item, on_isinstance=on_isinstance, oracle=oracle,
                         globals_={k: Sym(k) for k in TYPE_SYMS} | {'OPERATORS': T('global', ('OPERATORS',)), 'FUNCTIONS': Sym('FUNCTIONS')})
            paths = eng.paths(fi, {'self': SELF, fi.params[1]: NODE})
            want_t = decimal.Decimal if t is int else t
            want = reg.types_map.get(want_t)
            label = f'untyped {side} operand with {t.__name__} on the other side'
            construct = f'{fi.fq}:implicit-cast'
            for p in paths:
                if any(e[0] == 'loop-cut' for e in p.events):
                    continue
                if p.outcome == 'raise' and p.value[0] != 'CompilationError':
                    res.fail(construct, f'implicitcast:{side}:{t.__name__}:{p.value[0]}',
                             f'{label}: the cast lookup raises {p.value[0]} instead of rejecting the operator with a CompilationError', loc(fi))
                    break
                if want is None:
                    if p.outcome != 'raise' or lookups:
                        res.fail(construct, f'implicitcast:{side}:{t.__name__}', f'{label}: there is no cast to {t.__name__}; the operator must be '
                                 f'rejected with a CompilationError, got {p.outcome} after casts {lookups}', loc(fi))
                        break
                else:
                    ok = p.outcome == 'return' and lookups[:1] == [want]
                    if ok:
                        # the cast operand takes the place of the untyped one, the other stays
                        v = p.value
                        ok = isinstance(v, T) and v.op == 'call' and len(v.args[1]) == 2
                        if ok:
                            a, b = v.args[1]
                            cast_side, other_side = (a, b) if side == 'left' else (b, a)
                            ok = other_side == (R0 if side == 'left' else L0) and isinstance(cast_side, T) and cast_side.op == 'new' \
                                and contains(cast_side, L0 if side == 'left' else R0)
                    if not ok:
                        res.fail(construct, f'implicitcast:{side}:{t.__name__}',
                                 f'{label}: the untyped operand must be cast with {want}() '
                                 + ('(untyped numbers are decimals: casting to int would lose information) ' if t is int else '')
                                 + f'and the operator resolved again; got casts {lookups}, {p.outcome} `{show(p.value)[:80]}`', loc(fi))
                        break
            else:
                res.ok({'case': label, 'cast': want or 'rejected'})
    return res


# ----------------------------------------------------------------------
# R-COALESCE

def rule_coalesce(P) -> RuleResult:
    """coalesce(a, b, c): the node announces the type of its first argument, so the compiler accepts exactly the argument lists whose
    types are all that type.  Decided on concrete lists of compiled operands (position of the deviating argument: 2nd or 3rd)."""
    res = RuleResult('R-COALESCE')
    res.exhaustive = True
    fi = _method(P, '_function')
    ec = P.cls('beanquery.query_compile', 'EvalCoalesce')
    init = ec.methods.get('__init__')
    if init is None:
        raise AnalysisError('anchor vanished: EvalCoalesce.__init__')
    NODE = Sym('NODE')
    # the announced type: that of the first argument
    OBJ, A0, A1 = Sym('COALESCE_NODE'), Sym('ARG0'), Sym('ARG1')
    for p in Engine(P, max_depth=2).paths(init, {'self': OBJ, init.params[1]: SList([A0, A1])}):
        if p.heap.get(_attr(OBJ, 'dtype')) != _attr(A0, 'dtype'):
            res.fail(ec.fq, 'coalesce:announces', f'EvalCoalesce must announce the type of its first argument; announces '
                     f'`{show(p.heap.get(_attr(OBJ, "dtype")))}`', loc(init))
            return res
    types_ = ['str', 'int', 'bool', 'Decimal', 'date', 'object']
    real = TYPE_SYMS
    n = 0
    ok = True
    AST = [Sym(f'AST_ARG{i}') for i in range(3)]
    COMP = [Sym(f'C_ARG{i}') for i in range(3)]
    for first in types_:
        for other in types_:
            for pos in (1, 2):
                n += 1
                dt = [Sym(first)] * 3
                dt[pos] = Sym(other)

                def on_attr(base, attr, ex, _dt=dt):
                    if base == NODE and attr == 'fname':
                        return 'coalesce'
                    if base == NODE and attr == 'operands':
                        return SList(list(AST))
                    if attr == 'dtype' and base in COMP:
                        return _dt[COMP.index(base)]
                    if attr == '__name__' and isinstance(base, Sym):
                        return base.name
                    return NotImplemented

                def on_call(fname, fval, recv, args, kwargs, ex, node):
                    f = str(fname)
                    last = f.split('.')[-1]
                    if last == '_compile' and args and args[0] in AST:
                        return COMP[AST.index(args[0])]
                    if f == 'issubclass' and len(args) == 2 and all(isinstance(a, Sym) and a.name in real for a in args):
                        return issubclass(real[args[0].name], real[args[1].name])
                    if last == 'EvalCoalesce':
                        return T('new', ('EvalCoalesce', args))
                    if f.endswith('.join') or last == 'lower':
                        return 'x'
                    return NotImplemented

                def oracle(term, ex):
                    if isinstance(term, T) and term.op == 'cmp' and term.args[0] in ('==', '!=', 'is', 'is not') and \
                            isinstance(term.args[1], Sym) and isinstance(term.args[2], Sym) and term.args[1].name in real and term.args[2].name in real:
                        same = term.args[1].name == term.args[2].name
                        return same == (term.args[0] in ('==', 'is'))
                    return None
                for p in Engine(P, on_attr=on_attr, on_call=on_call, oracle=oracle).paths(fi, {'self': SELF, fi.params[1]: NODE}):
                    rejected = p.outcome == 'raise' and p.value[0] == 'CompilationError'
                    label = ', '.join(f'<{d.name}>' for d in dt)
                    if p.decisions:
                        raise AnalysisError(f'{fi.fq}: coalesce({label}): undecided test `{show(p.decisions[0][0])[:60]}`')
                    if p.outcome == 'raise' and not rejected:
                        ok = False
                        res.fail(f'{fi.fq}:coalesce', f'coalesce:{first}:{other}:raises', f'coalesce({label}) raises {p.value[0]}', loc(fi))
                        continue
                    want = first != other
                    if rejected != want:
                        ok = False
                        res.fail(f'{fi.fq}:coalesce', f'coalesce:{first}:{other}',
                                 f'coalesce({label}) is {"rejected" if rejected else "accepted"}; the result is announced as {first}, '
                                 f'so an argument of type {other} must be {"rejected" if want else "accepted"}', loc(fi))
                    elif not rejected and p.value != T('new', ('EvalCoalesce', (SList(list(COMP)),))) and not (
                            isinstance(p.value, T) and p.value.op == 'new' and p.value.args[0] == 'EvalCoalesce' and len(p.value.args[1]) == 1
                            and isinstance(p.value.args[1][0], SList) and p.value.args[1][0].items == COMP):
                        ok = False
                        res.fail(f'{fi.fq}:coalesce', 'coalesce:operands', f'coalesce({label}) must evaluate its compiled arguments in '
                                 f'order; the node is built as `{show(p.value)[:100]}`', loc(fi))
                if not ok:
                    break
            if not ok:
                break
        if not ok:
            break
    if ok:
        res.ok({'site': fi.fq, 'type_lists': n, 'accepts': "only arguments of the first argument's type"})
    # coalesce() without arguments: rejected, not an IndexError from the evaluator's constructor
    def on_attr0(base, attr, ex):
        if base == NODE and attr == 'fname':
            return 'coalesce'
        if base == NODE and attr == 'operands':
            return SList([])
        return NotImplemented

    def on_call0(fname, fval, recv, args, kwargs, ex, node):
        if str(fname).split('.')[-1] == 'EvalCoalesce' and init is not None:
            obj = T('new', ('EvalCoalesce', args))
            ex.inline(init, obj, args, kwargs)
            return obj
        return NotImplemented
    for p in Engine(P, on_attr=on_attr0, on_call=on_call0).paths(fi, {'self': SELF, fi.params[1]: NODE}):
        if p.outcome == 'raise' and p.value[0] == 'CompilationError':
            res.ok({'site': fi.fq, 'case': 'coalesce() without arguments', 'outcome': 'CompilationError'})
        else:
            res.fail(f'{fi.fq}:coalesce', 'coalesce:arity', f'coalesce() without arguments: '
                     + (f'raises {p.value[0]} (the result type is taken from the first argument)' if p.outcome == 'raise' else 'accepted')
                     + '; a statement that cannot be compiled must be rejected with a CompilationError', loc(fi))
    return res


# ----------------------------------------------------------------------
# R-IDXBOUND: the three positional-reference resolvers on a small abstract targets list

def _targets(n_visible, n_hidden, names=None):
    names = names or (['a', 'b', 'a', 'c', 'd'][:n_visible] if n_visible >= 3 else ['a', 'a'][:n_visible])      # note the duplicate name
    tg = [Sym(f'TARGET{i}') for i in range(n_visible + n_hidden)]
    attrs = {}
    for i, t in enumerate(tg):
        attrs[(t, 'name')] = names[i] if i < n_visible else None
        attrs[(t, 'c_expr')] = Sym(f'EXPR{i}')
        attrs[(t, 'is_aggregate')] = False
    return tg, attrs


def rule_idxbound_deep(P) -> list:
    """Every number of visible targets 1..5, 0..2 invisible targets, every position from -2 to n+3."""
    out = RuleResult('R-IDXBOUND-DEEP')
    out.exhaustive = True
    for n in (1, 2, 3, 4, 5):
        r = rule_idxbound(P, N=n, hiddens=(0, 1, 2), positions=tuple(range(-2, n + 4)), flow=False)
        out.instances.extend(dict(i, targets=n) if isinstance(i, dict) else i for i in r.instances)
        for f in r.findings:
            f.rule = 'R-IDXBOUND-DEEP'
            f.detail = f'{f.detail}:n={n}'
            out.findings.append(f)
    return out


def rule_idxbound(P, N=3, hiddens=(0, 1), positions=None, flow=True) -> RuleResult:
    res = RuleResult('R-IDXBOUND')
    res.exhaustive = True
    POS = positions or (0, 1, N, N + 1, -1)

    def run(fi, env, attrs, extra_call=None, is_int=None):
        def on_attr(base, attr, ex):
            if (base, attr) in attrs:
                return attrs[(base, attr)]
            return NotImplemented

        def on_isinstance(v, c, ex):
            cs = gname(c)
            if cs.endswith('int'):
                return type(v) is int
            if cs.endswith('Column'):
                return False
            return NotImplemented

        def on_call(fname, fval, recv, args, kwargs, ex, node):
            f = str(fname)
            if f == 'is_aggregate':
                return False
            if f == 'issubclass':
                return True
            if extra_call is not None:
                return extra_call(f, args, kwargs, ex)
            return NotImplemented
        return Engine(P, on_attr=on_attr, on_isinstance=on_isinstance, on_call=on_call).paths(fi, env)

    def judge(clause, fi, pos, outcome_index, want_index, detail_ctx):
        construct = f'{fi.fq}:positional-reference'
        if want_index is None:
            if outcome_index != 'rejected':
                res.fail(construct, f'idxbound:{clause}:{pos}', f'{clause} position {pos} {detail_ctx}: '
                         f'{"resolved to index " + str(outcome_index) if isinstance(outcome_index, int) else outcome_index}; it must be rejected with a '
                         f'CompilationError (valid positions are 1..n of the SELECT list)', loc(fi))
                return False
        elif outcome_index != want_index:
            res.fail(construct, f'idxbound:{clause}:{pos}', f'{clause} position {pos} {detail_ctx}: '
                     f'{"rejected" if outcome_index == "rejected" else outcome_index}; it must resolve to target index {want_index}', loc(fi))
            return False
        return True

    # GROUP BY: resolved on the SELECT list before any invisible target exists
    fi = _method(P, '_compile_group_by')
    ok = True
    for pos in POS:
        tg, attrs = _targets(N, 0)
        GB = Sym('GROUP_BY')
        attrs[(GB, 'columns')] = SList([pos])
        attrs[(GB, 'having')] = None
        got = set()
        for p in run(fi, {'self': SELF, fi.params[1]: GB, fi.params[2]: SList(tg)}, attrs):
            if p.outcome == 'raise':
                got.add('rejected' if p.value[0] == 'CompilationError' else f'raises {p.value[0]}')
            elif p.outcome == 'return' and isinstance(p.value, T) and p.value.op == 'tuple' and isinstance(p.value.args[1], SList):
                gi = p.value.args[1].items
                got.add(gi[0] if len(gi) == 1 else f'group indexes {gi}')
            else:
                got.add(f'{p.outcome} {show(p.value)[:40]}')
        want = pos - 1 if 1 <= pos <= N else None
        for g in got:
            ok &= judge('GROUP BY', fi, pos, g, want, f'with {N} targets')
    if ok:
        res.ok({'clause': 'GROUP BY', 'positions': list(POS), 'targets': N})
    # ORDER BY: resolved among the visible targets (duplicates count, invisible ones do not)
    fi = _method(P, '_compile_order_by')
    ok = True
    for hidden in hiddens:
        for pos in POS:
            tg, attrs = _targets(N, hidden)
            SPEC, ORD = Sym('SPEC'), Sym('ORDERING')
            attrs[(SPEC, 'column')] = pos
            attrs[(SPEC, 'ordering')] = ORD
            got = set()
            for p in run(fi, {'self': SELF, fi.params[1]: SList([SPEC]), fi.params[2]: SList(tg)}, attrs):
                if p.outcome == 'raise':
                    got.add('rejected' if p.value[0] == 'CompilationError' else f'raises {p.value[0]}')
                elif p.outcome == 'return' and isinstance(p.value, T) and p.value.op == 'tuple' and isinstance(p.value.args[1], SList):
                    spec = p.value.args[1].items
                    got.add(spec[0].args[0] if len(spec) == 1 and isinstance(spec[0], T) and spec[0].op == 'tuple' else f'order spec {spec}')
                else:
                    got.add(f'{p.outcome} {show(p.value)[:40]}')
            want = pos - 1 if 1 <= pos <= N else None
            for g in got:
                ok &= judge('ORDER BY', fi, pos, g, want, f'with {N} targets (two of them named alike)' + (' and an invisible GROUP BY target' if hidden else ''))
    # a key listed twice: the later occurrence can never decide anything, so the list means what it means without it
    if N >= 2:
        tg, attrs = _targets(N, 0)
        SP = [Sym('SPEC_A'), Sym('SPEC_B'), Sym('SPEC_A_AGAIN')]
        ASC, DESC = Sym('ASCENDING'), Sym('DESCENDING')
        for sp, (pos, d) in zip(SP, ((1, ASC), (2, ASC), (1, DESC))):
            attrs[(sp, 'column')] = pos
            attrs[(sp, 'ordering')] = d
        for p in run(fi, {'self': SELF, fi.params[1]: SList(list(SP)), fi.params[2]: SList(tg)}, attrs):
            spec = None
            if p.outcome == 'return' and isinstance(p.value, T) and p.value.op == 'tuple' and len(p.value.args) == 2:
                sv = p.value.args[1]
                items = list(sv.items) if isinstance(sv, SList) and not sv.opaque_tail else None
                if items is not None and all(isinstance(x, T) and x.op == 'tuple' and len(x.args) == 2 for x in items):
                    spec = [tuple(x.args) for x in items]
            if spec is None:
                raise AnalysisError(f'{fi.fq}: ORDER BY 1, 2, 1 DESC: order specification not concrete on terms: {p.outcome} {show(p.value)[:80]}')
            # what the list means: first occurrence of each key, in order
            meaning, seen_keys = [], set()
            for i, d in spec:
                if i not in seen_keys:
                    seen_keys.add(i)
                    meaning.append((i, d))
            if meaning != [(0, ASC), (1, ASC)]:
                ok = False
                res.fail(f'{fi.fq}:positional-reference', 'idxbound:ORDER BY:repeated', f'ORDER BY 1, 2, 1 DESC must order like ORDER BY 1, 2 '
                         f'(a key listed again cannot decide anything); the order specification is {[(i, show(d)) for i, d in spec]}', loc(fi))
    # a key given by name is the output column of that name - also when the table has a column of the same name (an alias may
    # re-use one: `abs(number) AS number ... ORDER BY number` orders by the output)
    if N >= 3:
        tg, attrs = _targets(N, 0)
        SP, REF, ORD = Sym('SPEC_BY_NAME'), Sym('COLUMN_REFERENCE'), Sym('ORDERING')
        attrs[(SP, 'column')] = REF
        attrs[(SP, 'ordering')] = ORD
        attrs[(REF, 'name')] = 'b'
        attrs[(T('attr', (SELF, 'table')), 'columns')] = SList([('b', Sym('TABLE_COLUMN_b')), ('z', Sym('TABLE_COLUMN_z'))], kind='dict')

        def on_attr_n(base, attr, ex):
            return attrs.get((base, attr), NotImplemented)

        def on_isinstance_n(v, c, ex):
            cs = gname(c)
            if cs.endswith('int'):
                return type(v) is int
            if cs.endswith('Column'):
                return v == REF
            return NotImplemented

        def on_call_n(fname, fval, recv, args, kwargs, ex, node):
            f = str(fname).split('.')[-1]
            if f == '_compile':
                return Sym('NEWLY_COMPILED_EXPRESSION')
            if f == 'is_aggregate':
                return False
            if f == '_check_aggregates':
                return None
            if f == 'EvalTarget':
                return T('new', ('EvalTarget', tuple(args)))
            return NotImplemented
        for p in Engine(P, on_attr=on_attr_n, on_isinstance=on_isinstance_n, on_call=on_call_n).paths(
                fi, {'self': SELF, fi.params[1]: SList([SP]), fi.params[2]: SList(tg)}):
            spec = None
            if p.outcome == 'return' and isinstance(p.value, T) and p.value.op == 'tuple' and len(p.value.args) == 2:
                sv = p.value.args[1]
                if isinstance(sv, SList) and not sv.opaque_tail and len(sv.items) == 1 and isinstance(sv.items[0], T) and sv.items[0].op == 'tuple':
                    spec = sv.items[0].args[0]
            if spec != 1:
                ok = False
                res.fail(f'{fi.fq}:positional-reference', 'idxbound:ORDER BY:name', f'ORDER BY b, where b is the name of the second output column '
                         f'and also a column of the table: the key is the output column (index 1); resolved to '
                         f'{spec if spec is not None else p.outcome + " " + show(p.value)[:60]}', loc(fi))
    if ok:
        res.ok({'clause': 'ORDER BY', 'positions': list(POS), 'targets': N, 'invisible_targets': list(hiddens)})
    # PIVOT BY: same domain; the other reference is a valid, different, grouped column
    fi = _method(P, '_compile_pivot_by')
    ok = True
    for hidden in hiddens:
        for pos in POS:
            tg, attrs = _targets(N, hidden)
            PB = Sym('PIVOT_BY')
            other = 2 if N >= 2 else 1
            attrs[(PB, 'columns')] = SList([pos, other])
            got = set()
            env = {'self': SELF, fi.params[1]: PB, fi.params[2]: SList(tg)}
            if len(fi.params) > 3:
                env[fi.params[3]] = SList(list(range(N + hidden)))      # every target is a grouping column
            for p in run(fi, env, attrs):
                if p.outcome == 'raise':
                    got.add('rejected' if p.value[0] == 'CompilationError' else f'raises {p.value[0]}')
                elif p.outcome == 'return' and isinstance(p.value, SList) and len(p.value.items) == 2:
                    got.add(p.value.items[0] if p.value.items[1] == other - 1 else f'pivots {p.value.items}')
                else:
                    got.add(f'{p.outcome} {show(p.value)[:40]}')
            want = pos - 1 if 1 <= pos <= N and pos != other and other <= N else None
            for g in got:
                ok &= judge('PIVOT BY', fi, pos, g, want, f'with {N} targets' + (' and an invisible GROUP BY target' if hidden else ''))
    if ok:
        res.ok({'clause': 'PIVOT BY', 'positions': list(POS), 'targets': N, 'invisible_targets': list(hiddens)})
    if flow:
        targets_flow_cases(P, res, 'idxbound')
    return res


# ----------------------------------------------------------------------
# target naming (part of R-HIDDEN)

def naming_cases(P, res):
    gtn = P.func(CO, 'get_target_name')
    TG = Sym('TARGET')
    EXPR = _attr(TG, 'expression')
    ok = True
    for alias in (None, 'ALIAS'):
        for is_col in (True, False):
            def on_attr(base, attr, ex, _a=alias):
                if base == TG and attr == 'name':
                    return _a
                return NotImplemented

            def on_isinstance(v, c, ex, _c=is_col):
                return _c if gname(c).endswith('Column') else False

            def on_call(fname, fval, recv, args, kwargs, ex, node, _c=is_col):
                if fname == 'getattr' and len(args) >= 2 and args[0] == EXPR and args[1] == 'name':
                    # generic expressions may have a `name` attribute too (attribute access, placeholders)
                    return _attr(EXPR, 'name')
                return NotImplemented
            for p in Engine(P, on_attr=on_attr, on_isinstance=on_isinstance, on_call=on_call).paths(gtn, {gtn.params[0]: TG}):
                want = 'ALIAS' if alias else _attr(EXPR, 'name') if is_col else T('call', (f'{show(_attr(EXPR, "text"))}.strip', (), ()))
                if p.value != want:
                    ok = False
                    res.fail(gtn.fq, f'hidden:naming:{"alias" if alias else "noalias"}:{"column" if is_col else "expr"}',
                             f'target name with alias {"present" if alias else "absent"} and a '
                             f'{"bare column" if is_col else "general expression"}: got `{show(p.value)}`, must be '
                             f'{"the alias" if alias else "the column name" if is_col else "the stripped source text of the expression"}', loc(gtn))
    if ok:
        res.ok({'function': gtn.fq, 'priority': 'alias > column name > expression text', 'cases': 4})


# ----------------------------------------------------------------------
# meta()/entry_meta()/any_meta() rewrites (part of R-METAREWRITE)

def _strip_parseinfo(t):
    if isinstance(t, T):
        if t.op == 'call':
            return T('call', (t.args[0], tuple(_strip_parseinfo(a) for a in t.args[1]),
                              tuple((k, _strip_parseinfo(v)) for k, v in t.args[2] if k != 'parseinfo')))
        return T(t.op, tuple(_strip_parseinfo(a) if isinstance(a, (T, SList)) else a for a in t.args))
    if isinstance(t, SList):
        return ('list', tuple(_strip_parseinfo(x) for x in t.items))
    return t


def rewrite_cases(P, res):
    fi = _method(P, '_function')
    NODE = Sym('NODE')
    KEY = Sym('KEY_AST')

    def C(name, *args):
        return T('call', (name, tuple(args), ()))
    col_meta = C('ast.Column', 'meta')
    entry_meta = C('ast.Attribute', C('ast.Column', 'entry'), 'meta')
    want = {
        'meta': C('ast.Function', 'getitem', ('list', (col_meta, KEY))),
        'entry_meta': C('ast.Function', 'getitem', ('list', (entry_meta, KEY))),
        'any_meta': C('ast.Function', 'getitem', ('list', (col_meta, KEY, C('ast.Function', 'getitem', ('list', (entry_meta, KEY)))))),
    }
    for fname, expected in want.items():
        compiled = []

        def on_attr(base, attr, ex, _f=fname):
            if base == NODE and attr == 'fname':
                return _f
            if base == NODE and attr == 'operands':
                return SList([KEY])
            return NotImplemented

        def on_call(fn, fval, recv, args, kwargs, ex, node):
            f = str(fn)
            if f.endswith('._compile'):
                compiled.append(args[0] if args else None)
                return T('call', ('COMPILED', args, ()))
            if f == 'types.function_lookup':
                return Sym('FOUND')
            return NotImplemented
        paths = Engine(P, on_attr=on_attr, on_call=on_call).paths(fi, {'self': SELF, fi.params[1]: NODE})
        construct = f'{fi.fq}:{fname}'
        good = False
        seen = None
        for p in paths:
            if p.outcome != 'return':
                continue
            v = p.value
            if isinstance(v, T) and v.op == 'call' and v.args[0] == 'COMPILED' and v.args[1]:
                seen = _strip_parseinfo(v.args[1][0])
                if seen == expected:
                    good = True
        if good:
            res.ok({'function': fname, 'rewritten_to': show(expected)})
        elif seen is None:
            res.fail(construct, 'metarewrite:missing', f'{fname}(key) is not rewritten into a metadata lookup and compiled', loc(fi))
        else:
            res.fail(construct, 'metarewrite:target', f'{fname}(key) must become `{show(expected)}`; it becomes `{show(seen)}`', loc(fi))


# ----------------------------------------------------------------------
# .set: the variable name is validated before it is reflected on

def set_name_cases(P, res):
    sh = P.module('beanquery.shell')
    ds = sh.classes['DispatchingShell'].methods.get('do_set') if 'DispatchingShell' in sh.classes else None
    if ds is None:
        raise AnalysisError('anchor vanished: DispatchingShell.do_set')
    SHELL = Sym('SHELL')
    ok = True
    # (the value given may be the empty string - `.set nullvalue ""` - which is a value, not a missing one)
    for ncomp, words in ((1, ['NAME']), (2, ['NAME', 'VALUE']), (2, ['NAME', '']), (3, ['NAME', 'VALUE', 'EXTRA'])):
        for valid in (True, False):
            def on_call(fname, fval, recv, args, kwargs, ex, node, _w=words):
                f = str(fname)
                if f == 'shlex.split':
                    ex.events.append(('split', args, kwargs))
                    return SList(list(_w))
                if f in ('print',):
                    ex.events.append(('print', args))
                    return None
                if f.endswith('.error'):
                    ex.events.append(('call', 'error', args, kwargs))
                    return None
                return NotImplemented

            def oracle(term, ex, _v=valid):
                if isinstance(term, T) and term.op == 'cmp' and term.args[0] in ('in', 'not in') and term.args[1] == 'NAME':
                    return _v if term.args[0] == 'in' else not _v
                return None
            for p in Engine(P, on_call=on_call, oracle=oracle).paths(ds, {'self': SHELL, ds.params[1]: 'NAME VALUE'}):
                calls = [str(e[1]).split('.')[-1] for e in p.events if e[0] == 'call']
                for e in p.events:
                    if e[0] == 'split' and (e[1] != ('NAME VALUE',) or any((k, v) not in (('comments', False), ('posix', True)) for k, v in e[2])):
                        if ok:
                            res.fail(ds.fq, 'settings:words', f'.set takes its words from shlex.split(arg) with the default rules (quotes group, '
                                     f'nothing else is special): found shlex.split({", ".join([show(a) for a in e[1]] + [f"{k}={v!r}" for k, v in e[2]])}); '
                                     f'a value such as `#N/A` is then cut and not stored', loc(ds))
                        ok = False
                reflect = [c for c in calls if c in ('getstr', 'setstr')]
                errors = [c for c in calls if c == 'error']
                if not valid:
                    if reflect:
                        ok = False
                        res.fail(ds.fq, 'settings:name-check', '.set reflects on a name that is not a setting (getattr also finds the methods of '
                                 'the settings object: `.set todict x` fails with TypeError instead of "variable does not exist")', loc(ds))
                    elif not errors:
                        ok = False
                        res.fail(ds.fq, 'settings:unknown-silent', '.set with an unknown variable name reports no error', loc(ds))
                else:
                    want = {1: 'getstr', 2: 'setstr'}.get(ncomp)
                    if want and want not in reflect:
                        ok = False
                        res.fail(ds.fq, f'settings:arity:{ncomp}' + (':empty' if words[-1] == '' else ''),
                                 f'.set NAME{" VALUE" if ncomp == 2 else ""} must {"show" if ncomp == 1 else "change"} the setting'
                                 + (' - also when the value given is the empty string (`.set nullvalue ""`)' if words[-1] == '' else ''), loc(ds))
                    sets = [e for e in p.events if e[0] == 'call' and str(e[1]).split('.')[-1] == 'setstr']
                    if ncomp == 2 and sets and tuple(sets[0][2]) != tuple(words):
                        ok = False
                        res.fail(ds.fq, 'settings:arity:2:value', f'.set NAME VALUE must store the value given; it stores '
                                 f'{[show(a) for a in sets[0][2]]} for the words {words}', loc(ds))
                    if ncomp == 3 and (reflect or not errors):
                        ok = False
                        res.fail(ds.fq, 'settings:arity:3', '.set with too many arguments must report an error and change nothing', loc(ds))
    # the no-argument form lists every setting; an invalid value is reported, not propagated
    def on_call0(fname, fval, recv, args, kwargs, ex, node):
        f = str(fname)
        if f == 'print':
            ex.events.append(('print', args))
            return None
        if f.endswith('.error'):
            ex.events.append(('call', 'error', args, kwargs))
            return None
        return NotImplemented
    listed = False
    for p in Engine(P, on_call=on_call0).paths(ds, {'self': SHELL, ds.params[1]: ''}):
        loops = [e for e in p.events if e[0] == 'loop-begin' and e[1] == _attr(SHELL, 'settings')]
        gets = [e for e in p.events if e[0] == 'call' and str(e[1]).endswith('.getstr') and e[2] and isinstance(e[2][0], T) and e[2][0].op == 'elem']
        prints = [e for e in p.events if e[0] == 'print']
        if loops and gets and prints:
            listed = True
    if not listed:
        ok = False
        res.fail(ds.fq, 'settings:lists', '.set without arguments no longer lists every setting with its value', loc(ds))

    def on_call1(fname, fval, recv, args, kwargs, ex, node):
        f = str(fname)
        if f == 'shlex.split':
            return SList(['NAME', 'VALUE'])
        if f.endswith('.setstr'):
            raise Raise('ValueError', ())
        if f.endswith('.error'):
            ex.events.append(('call', 'error', args, kwargs))
            return None
        return NotImplemented
    for p in Engine(P, on_call=on_call1, oracle=lambda t, ex: True if isinstance(t, T) and t.op == 'cmp' and t.args[0] == 'in' else
                    False if isinstance(t, T) and t.op == 'cmp' and t.args[0] == 'not in' else None).paths(ds, {'self': SHELL, ds.params[1]: 'NAME VALUE'}):
        if p.outcome == 'raise' or not [e for e in p.events if e[0] == 'call' and e[1] == 'error']:
            ok = False
            res.fail(ds.fq, 'settings:reports', '.set with an invalid value must report the error; the ValueError of the parser '
                     + ('propagates' if p.outcome == 'raise' else 'is swallowed silently'), loc(ds))
    if ok:
        res.ok({'method': ds.fq, 'cases': 8, 'name_validated_before_reflection': True, 'lists_all': True, 'invalid_value_reported': True})








# ----------------------------------------------------------------------
# the targets list through _compile_select: what each clause resolver is given, what the query gets

def select_flow(P):
    """-> list of (path, snapshots) where snapshots maps 'group_by' | 'order_by' | 'pivot_by' | 'query' to the items of the
    targets list handed over at that point."""
    fi = _method(P, '_compile_select')
    NODE = Sym('SELECT')
    out = []
    T1, T2, G1, O1 = Sym('TARGET1'), Sym('TARGET2'), Sym('GROUP_HELPER'), Sym('ORDER_HELPER')
    snaps = {}

    def snap(v):
        return list(v.items) if isinstance(v, SList) and not v.opaque_tail else v

    def on_call(fname, fval, recv, args, kwargs, ex, node):
        f = str(fname).split('.')[-1]
        if f == '_compile_from':
            return Sym('C_FROM')
        if f == '_compile_targets':
            return SList([T1, T2])
        if f == '_compile':
            return Sym('C_WHERE')
        if f == 'is_aggregate':
            return False
        if f == '_compile_group_by':
            snaps.setdefault(id(ex), {})['group_by'] = snap(args[1]) if len(args) > 1 else None
            return T('tuple', (SList([G1]), None, None))
        if f == '_compile_order_by':
            snaps.setdefault(id(ex), {})['order_by'] = snap(args[1]) if len(args) > 1 else None
            return T('tuple', (SList([O1]), Sym('ORDER_SPEC')))
        if f == '_compile_pivot_by':
            snaps.setdefault(id(ex), {})['pivot_by'] = snap(args[1]) if len(args) > 1 else None
            return None
        if f == 'EvalQuery':
            pos = ctor_args(P, 'EvalQuery', args, kwargs)
            snaps.setdefault(id(ex), {})['query'] = [snap(a) for a in pos]
            return T('new', ('EvalQuery', pos))
        return NotImplemented
    def on_attr(base, attr, ex):
        if attr == 'is_aggregate' and base in (T1, T2, G1, O1):
            return False        # a query without aggregates: what is asked about the targets beyond their order does not fork the flow
        return NotImplemented
    paths = Engine(P, on_call=on_call, on_attr=on_attr).paths(fi, {'self': SELF, fi.params[1]: NODE})
    # snapshots are keyed by the Exec that produced them; recover through the events' owner: one Exec per path, in order
    return fi, paths, snaps, (T1, T2, G1, O1)


def targets_flow_cases(P, res, part):
    fi, paths, snaps, (T1, T2, G1, O1) = select_flow(P)
    merged = {}
    for s in snaps.values():
        for k, v in s.items():
            merged.setdefault(k, []).append(v)
    if not merged.get('group_by') or not merged.get('order_by') or not merged.get('query'):
        raise AnalysisError(f'{fi.fq}: the clause resolvers are no longer called from here: {sorted(merged)}')
    if part == 'idxbound':
        bad = [v for v in merged['group_by'] if v != [T1, T2]]
        if bad:
            res.fail(f'{fi.fq}:group-by-call', 'idxbound:order', f'GROUP BY positions are resolved on {bad[0]}: they must be resolved on '
                     f'the targets of the SELECT list only, before any invisible target is added', loc(fi))
        else:
            res.ok({'clause': 'GROUP BY', 'resolved_on': 'targets of the SELECT list only'})
        return
    ok = True
    for v in merged['order_by']:
        if v != [T1, T2, G1]:
            ok = False
            res.fail(f'{fi.fq}:targets-list', 'hidden:position', f'ORDER BY is resolved on {v}: the visible targets must come first, in '
                     f'their order, followed by the GROUP BY helper targets', loc(fi))
    for v in merged['query']:
        lists = [x for x in v if isinstance(x, list)]
        if [T1, T2, G1, O1] not in lists:
            ok = False
            res.fail(f'{fi.fq}:targets-list', 'hidden:position', f'the compiled query is given the targets {lists[:1]}: the visible targets '
                     f'must come first, in their order, and the helper targets of GROUP BY and ORDER BY are appended after them', loc(fi))
    for v in merged.get('pivot_by', []):
        if v != [T1, T2, G1, O1]:
            ok = False
            res.fail(f'{fi.fq}:targets-list', 'hidden:position', f'PIVOT BY is resolved on {v}, not on the final targets list', loc(fi))
    if ok:
        res.ok({'site': fi.fq, 'helpers': 'appended after the visible targets', 'resolvers_checked': sorted(merged)})


def helper_target_cases(P, res):
    """New expressions in GROUP BY / ORDER BY / HAVING become invisible targets (name None) appended after the existing ones,
    and the clause refers to them by their index in the extended list; an expression equal to an existing target reuses it."""
    N = 3
    EXPR_AST, HAVING_AST, CEXPR, CHAVING = Sym('EXPR_AST'), Sym('HAVING_AST'), Sym('C_EXPR'), Sym('C_HAVING')

    def run(fi, env, attrs, found):
        def on_attr(base, attr, ex):
            if (base, attr) in attrs:
                return attrs[(base, attr)]
            return NotImplemented

        def on_isinstance(v, c, ex):
            return False if v == EXPR_AST else NotImplemented

        def on_call(fname, fval, recv, args, kwargs, ex, node):
            f = str(fname).split('.')[-1]
            if f == '_compile':
                return CHAVING if args and args[0] == HAVING_AST else CEXPR
            if f == 'is_aggregate':
                return bool(args) and args[0] == CHAVING
            if f == '_check_aggregates':
                return None
            if f == 'issubclass':
                return True
            if f == 'index' and isinstance(recv, SList):
                if found is None:
                    raise Raise('ValueError', ())
                return found
            if f == 'EvalTarget':
                return T('new', ('EvalTarget', args))
            return NotImplemented
        return Engine(P, on_attr=on_attr, on_isinstance=on_isinstance, on_call=on_call).paths(fi, env)

    def helpers_ok(new, n_expected):
        return isinstance(new, SList) and len(new.items) == n_expected and all(
            isinstance(x, T) and x.op == 'new' and x.args[0] == 'EvalTarget' and len(x.args[1]) == 3 and x.args[1][1] is None for x in new.items)
    ok = True
    for clause, meth in (('GROUP BY', '_compile_group_by'), ('ORDER BY', '_compile_order_by')):
        fi = _method(P, meth)
        for found in (None, 1):
            for having in ((False, True) if clause == 'GROUP BY' else (False,)):
                tg, attrs = _targets(N, 0)
                if clause == 'GROUP BY':
                    GB = Sym('GROUP_BY')
                    attrs[(GB, 'columns')] = SList([EXPR_AST])
                    attrs[(GB, 'having')] = HAVING_AST if having else None
                    env = {'self': SELF, fi.params[1]: GB, fi.params[2]: SList(tg)}
                else:
                    SPEC = Sym('SPEC')
                    attrs[(SPEC, 'column')] = EXPR_AST
                    attrs[(SPEC, 'ordering')] = Sym('ORDERING')
                    env = {'self': SELF, fi.params[1]: SList([SPEC]), fi.params[2]: SList(tg)}
                # whatever else the clause compiler is told about the statement (DISTINCT, LIMIT ...) may hold or not: a helper
                # expression is invisible in every statement
                for i_, extra in enumerate(fi.params[3:]):
                    env[extra] = T('attr', (Sym('STATEMENT'), f'option_{extra}'))
                for p in run(fi, env, attrs, found):
                    label = f'{clause} by an expression that {"matches target 2" if found is not None else "is not among the targets"}' \
                        + (' with a HAVING clause' if having else '')
                    construct = f'{fi.fq}:new-targets'
                    if p.outcome != 'return' or not (isinstance(p.value, T) and p.value.op == 'tuple'):
                        ok = False
                        res.fail(construct, 'hidden:helper', f'{label}: {p.outcome} {show(p.value)[:60]}', loc(fi))
                        continue
                    new = p.value.args[0]
                    n_new = (0 if found is not None else 1) + (1 if having else 0)
                    want_index = found if found is not None else N
                    if not helpers_ok(new, n_new):
                        ok = False
                        res.fail(construct, 'hidden:named' if isinstance(new, SList) and len(new.items) == n_new else 'hidden:position',
                                 f'{label}: the function returns the new targets {show(new)[:120]}; expected {n_new} invisible target(s) '
                                 f'(name None) that come after the {N} existing ones', loc(fi))
                        continue
                    ref = p.value.args[1]
                    got_index = None
                    if isinstance(ref, SList) and len(ref.items) == 1:
                        got_index = ref.items[0].args[0] if clause == 'ORDER BY' and isinstance(ref.items[0], T) else ref.items[0]
                    if got_index != want_index:
                        ok = False
                        res.fail(construct, 'hidden:index', f'{label}: the clause refers to target index {got_index}, must be {want_index}', loc(fi))
                    if having and p.value.args[2] != N + (0 if found is not None else 1):
                        ok = False
                        res.fail(construct, 'hidden:having-index', f'{label}: HAVING refers to target index {p.value.args[2]}', loc(fi))
    # several keys: each key is resolved on its own - a name or position first, a new expression second, the other way round, and
    # two new expressions (the second comes after the first); a name is looked up among the output names whatever the table has
    EXPR_AST2, CEXPR2 = Sym('EXPR_AST2'), Sym('C_EXPR2')
    for clause, meth in (('ORDER BY', '_compile_order_by'), ('GROUP BY', '_compile_group_by')):
        fi_o = _method(P, meth)
        for first_kind in ('name-then-expression', 'expression-then-name', 'position-then-expression', 'expression-then-expression'):
            tg, attrs = _targets(N, 0)
            S1, S2 = Sym('SPEC1'), Sym('SPEC2')
            NAMECOL = Sym('COLUMN_NAMED_b')
            attrs[(NAMECOL, 'name')] = 'b'
            ref = 2 if first_kind.startswith('position') else NAMECOL          # target 2 (position 2, or the name b): index 1
            a_, b_ = (ref, EXPR_AST) if not first_kind.startswith('expression') else (EXPR_AST, ref)
            if first_kind == 'expression-then-expression':
                a_, b_ = EXPR_AST, EXPR_AST2
            if clause == 'ORDER BY':
                attrs[(S1, 'column')], attrs[(S2, 'column')] = a_, b_
                attrs[(S1, 'ordering')], attrs[(S2, 'ordering')] = Sym('ORDERING1'), Sym('ORDERING2')
                env = {'self': SELF, fi_o.params[1]: SList([S1, S2]), fi_o.params[2]: SList(tg)}
            else:
                GB = Sym('GROUP_BY')
                attrs[(GB, 'columns')] = SList([a_, b_])
                attrs[(GB, 'having')] = None
                env = {'self': SELF, fi_o.params[1]: GB, fi_o.params[2]: SList(tg)}
            for extra in fi_o.params[3:]:
                env[extra] = T('attr', (Sym('STATEMENT'), f'option_{extra}'))

            def on_isinstance_m(v, c, ex, _nc=NAMECOL):
                cn = gname(c).split('.')[-1]
                if cn == 'int':
                    return type(v) is int
                if cn == 'Column':
                    return v == _nc
                return False

            def on_attr_m(base, attr, ex, _attrs=attrs):
                return _attrs.get((base, attr), NotImplemented)

            def on_call_m(fname, fval, recv, args, kwargs, ex, node):
                f = str(fname).split('.')[-1]
                if f == '_compile':
                    return CEXPR2 if args and args[0] == EXPR_AST2 else CEXPR
                if f == 'is_aggregate':
                    return False
                if f == '_check_aggregates':
                    return None
                if f == 'issubclass':
                    return True
                if f == 'index' and isinstance(recv, SList) and len(args) == 1 and args[0] in (CEXPR, CEXPR2) and args[0] not in recv.items:
                    raise Raise('ValueError', ())
                if f == 'EvalTarget':
                    return T('new', ('EvalTarget', args))
                return NotImplemented
            want_idx = {'name-then-expression': [1, N], 'position-then-expression': [1, N], 'expression-then-name': [N, 1],
                        'expression-then-expression': [N, N + 1]}[first_kind]
            n_new = 2 if first_kind == 'expression-then-expression' else 1
            for p in Engine(P, on_attr=on_attr_m, on_isinstance=on_isinstance_m, on_call=on_call_m).paths(fi_o, env):
                tup = p.value if p.outcome == 'return' and isinstance(p.value, T) and p.value.op == 'tuple' else None
                spec = tup.args[1] if tup is not None and len(tup.args) == (2 if clause == 'ORDER BY' else 3) else None
                got = [x.args[0] if isinstance(x, T) and x.op == 'tuple' else x for x in spec.items] if isinstance(spec, SList) and not spec.opaque_tail else None
                if clause == 'ORDER BY':
                    ords = [x.args[1] if isinstance(x, T) and x.op == 'tuple' else None for x in spec.items] if got is not None else None
                    good = got == want_idx and ords == [Sym('ORDERING1'), Sym('ORDERING2')]
                else:
                    ords = []
                    good = got == want_idx
                if good and not helpers_ok(tup.args[0], n_new):
                    good = False
                    got = f'{got} with the new targets {show(tup.args[0])[:100]}'
                if not good:
                    ok = False
                    res.fail(f'{fi_o.fq}:new-targets', 'hidden:multi-key', f'{clause} with two keys ({first_kind}): the keys must resolve to the target indexes '
                             f'{want_idx}' + (' with their own directions' if clause == 'ORDER BY' else '') + f', each key on its own, a name to the output of '
                             f'that name and {n_new} new invisible target(s) after the {N} existing ones; got {got}'
                             + (f' with {[show(o) for o in (ords or [])]}' if clause == 'ORDER BY' else '') + f' ({p.outcome})', loc(fi_o))
    # a name that two targets carry (SELECT account AS x, year AS x ... ORDER BY x) is still a reference to a target: it resolves to
    # one of them, without a new target and without an error
    for clause, meth in (('ORDER BY', '_compile_order_by'), ('GROUP BY', '_compile_group_by')):
        fi_d = _method(P, meth)
        tg, attrs = _targets(N, 0)          # names a, b, a
        DUP = Sym('COLUMN_NAMED_a')
        attrs[(DUP, 'name')] = 'a'
        if clause == 'ORDER BY':
            S1 = Sym('SPEC1')
            attrs[(S1, 'column')], attrs[(S1, 'ordering')] = DUP, Sym('ORDERING1')
            env = {'self': SELF, fi_d.params[1]: SList([S1]), fi_d.params[2]: SList(tg)}
        else:
            GB = Sym('GROUP_BY')
            attrs[(GB, 'columns')], attrs[(GB, 'having')] = SList([DUP]), None
            env = {'self': SELF, fi_d.params[1]: GB, fi_d.params[2]: SList(tg)}
        for extra in fi_d.params[3:]:
            env[extra] = T('attr', (Sym('STATEMENT'), f'option_{extra}'))

        def on_isinstance_d(v, c, ex, _d=DUP):
            cn = gname(c).split('.')[-1]
            return type(v) is int if cn == 'int' else v == _d if cn == 'Column' else False

        def on_attr_d(base, attr, ex, _attrs=attrs):
            return _attrs.get((base, attr), NotImplemented)

        def on_call_d(fname, fval, recv, args, kwargs, ex, node):
            f = str(fname).split('.')[-1]
            if f == '_compile':
                return CEXPR
            if f == 'is_aggregate':
                return False
            if f in ('_check_aggregates',):
                return None
            if f == 'issubclass':
                return True
            if f == 'EvalTarget':
                return T('new', ('EvalTarget', args))
            return NotImplemented
        for p in Engine(P, on_attr=on_attr_d, on_isinstance=on_isinstance_d, on_call=on_call_d).paths(fi_d, env):
            tup = p.value if p.outcome == 'return' and isinstance(p.value, T) and p.value.op == 'tuple' else None
            spec = tup.args[1] if tup is not None and len(tup.args) >= 2 else None
            got = [x.args[0] if isinstance(x, T) and x.op == 'tuple' else x for x in spec.items] if isinstance(spec, SList) and not spec.opaque_tail else None
            if tup is None or got is None or len(got) != 1 or got[0] not in (0, 2) or not helpers_ok(tup.args[0], 0):
                ok = False
                res.fail(f'{fi_d.fq}:new-targets', 'hidden:duplicate-name', f'{clause} by a name that two targets carry (targets a, b, a; key a) must '
                         f'resolve to one of the targets of that name, without a new target; got '
                         f'{got if tup is not None else p.outcome + " " + (p.value[0] if p.outcome == "raise" and p.value else "")}', loc(fi_d))
    if ok:
        res.ok({'sites': ['_compile_group_by', '_compile_order_by'], 'helper_targets': 'invisible (name None), appended, referred to by index', 'cases': 14})


# ----------------------------------------------------------------------
# R-FROMCLAUSE: _compile_from over the clause combinations

def rule_fromclause(P) -> RuleResult:
    res = RuleResult('R-FROMCLAUSE')
    res.exhaustive = True
    fi = _method(P, '_compile_from')
    NODE = Sym('FROM_NODE')
    OPEN, CLOSE, CLEAR = Sym('OPEN_DATE'), Sym('CLOSE_DATE'), Sym('CLEAR')
    EXPR_AST, CEXPR = Sym('EXPR_AST'), Sym('C_EXPR')
    construct = fi.fq
    n = 0
    for expr in ('absent', 'plain', 'aggregate'):
        for op in (None, OPEN):
            for cl in (None, True, CLOSE):
              for clr in (CLEAR, None):
                for inverted in ((False, True) if (op is not None and cl is CLOSE) else (False,)):
                    n += 1

                    def on_attr(base, attr, ex):
                        if base == NODE:
                            return {'expression': None if expr == 'absent' else EXPR_AST, 'open': op, 'close': cl, 'clear': clr}.get(attr, NotImplemented)
                        return NotImplemented

                    def on_isinstance(v, c, ex):
                        cn = gname(c)
                        if v == NODE:
                            return cn.endswith('From')
                        if cn.endswith('date'):
                            return v == CLOSE
                        return NotImplemented

                    def on_call(fname, fval, recv, args, kwargs, ex, node):
                        last = str(fname).split('.')[-1]
                        if last == '_compile':
                            if args and args[0] == EXPR_AST:
                                ex.events.append(('x-condition-compiled', ex.heap.get(_attr(SELF, 'table'))))
                            return None if args and args[0] is None else CEXPR
                        if last == 'is_aggregate':
                            return expr == 'aggregate'
                        return NotImplemented

                    def oracle(term, ex):
                        if isinstance(term, T) and term.op == 'cmp' and term.args[0] in ('>', '<', '>=', '<=') and {term.args[1], term.args[2]} == {OPEN, CLOSE}:
                            gt = inverted          # OPEN > CLOSE
                            o, l, r = term.args
                            if (l, r) == (OPEN, CLOSE):
                                return {'>': gt, '>=': gt, '<': not gt, '<=': not gt}[o]
                            return {'<': gt, '<=': gt, '>': not gt, '>=': not gt}[o]
                        return None
                    label = f'FROM {"<" + expr + " expression>" if expr != "absent" else ""} OPEN {"ON d" if op else "absent"}, CLOSE ' \
                            f'{"ON e" if cl is CLOSE else "(no date)" if cl else "absent"}, CLEAR {"present" if clr is not None else "absent"}' + (', e before d' if inverted else '')
                    for p in Engine(P, on_attr=on_attr, on_isinstance=on_isinstance, on_call=on_call, oracle=oracle).paths(fi, {'self': SELF, fi.params[1]: NODE}):
                        must_fail = expr == 'aggregate' or inverted
                        rejected = p.outcome == 'raise' and p.value[0] == 'CompilationError'
                        if p.outcome == 'raise' and not rejected:
                            res.fail(construct, f'fromclause:raises', f'{label}: raises {p.value[0]}', loc(fi))
                            continue
                        if must_fail != rejected:
                            why = 'aggregates are not allowed in the FROM clause' if expr == 'aggregate' else 'the CLOSE date must follow the OPEN date'
                            res.fail(construct, 'fromclause:aggregate' if expr == 'aggregate' and not inverted else 'fromclause:dates',
                                     f'{label}: the clause is {"rejected" if rejected else "accepted"}; {why}: it must be '
                                     f'{"rejected with a CompilationError" if must_fail else "accepted"}', loc(fi))
                            continue
                        if rejected:
                            continue
                        # accepted: the table is the current table updated with exactly these clauses; the condition is returned
                        upd = T('call', (f'{show(_attr(SELF, "table"))}.update', (), (('open', op), ('close', cl), ('clear', clr))))
                        got = p.heap.get(_attr(SELF, 'table'))
                        ok_upd = isinstance(got, T) and got.op == 'call' and got.args[0] == upd.args[0] and not got.args[1] \
                            and dict(got.args[2]) == dict(upd.args[2])
                        if not ok_upd:
                            res.fail(construct, 'fromclause:update', f'{label}: the table must be replaced by table.update(open=, close=, clear=) '
                                     f'with the values of the clause, absent clauses included (a nested SELECT is compiled on the table of the '
                                     f'enclosing one and must not inherit its clauses); got `{show(got)[:120]}`', loc(fi))
                        late = [e for e in p.events if e[0] == 'x-condition-compiled' and e[1] is not None]
                        if late:
                            res.fail(construct, 'fromclause:order', f'{label}: the FROM condition is compiled after the table has been replaced by the '
                                     f'qualified one: a sub-select inside the condition (which inherits the current table) then ranges over the '
                                     f'period report instead of the ledger, so OPEN / CLOSE / CLEAR no longer apply independently of the filter', loc(fi))
                        want_ret = None if expr == 'absent' else CEXPR
                        if p.value != want_ret:
                            res.fail(construct, 'fromclause:condition', f'{label}: the compiled FROM condition must be returned; got `{show(p.value)}`', loc(fi))
    if not res.findings:
        res.ok({'function': fi.fq, 'clause_combinations': n, 'rejects': ['aggregate condition', 'CLOSE date before OPEN date'],
                'applies': 'table.update(open, close, clear)'})
    # FROM <table name>, FROM (subquery), no FROM
    for kind in ('none', 'table-known', 'table-unknown', 'subquery'):
        TAB = Sym('TABLE_OBJECT')

        def on_isinstance2(v, c, ex):
            cn = gname(c)
            if v == NODE:
                return cn.endswith({'table-known': 'Table', 'table-unknown': 'Table', 'subquery': 'Select'}.get(kind, '#'))
            return NotImplemented

        def on_call2(fname, fval, recv, args, kwargs, ex, node):
            f = str(fname)
            if f.endswith('tables.get'):
                # (a default given to the lookup is what an unknown name gets)
                return TAB if kind == 'table-known' else (args[1] if len(args) > 1 else dict(kwargs).get('default'))
            if f.split('.')[-1] == '_compile':
                return Sym('C_SUBQUERY')
            if f.split('.')[-1] == 'SubqueryTable':
                return T('new', ('SubqueryTable', args))
            return NotImplemented
        for p in Engine(P, on_isinstance=on_isinstance2, on_call=on_call2).paths(fi, {'self': SELF, fi.params[1]: None if kind == 'none' else NODE}):
            got = p.heap.get(_attr(SELF, 'table'))
            if kind == 'none':
                good = p.outcome == 'return' and p.value is None and got is None
            elif kind == 'table-known':
                good = p.outcome == 'return' and p.value is None and got == TAB
            elif kind == 'table-unknown':
                good = p.outcome == 'raise' and p.value[0] == 'CompilationError'
            else:
                good = p.outcome == 'return' and p.value is None and got == T('new', ('SubqueryTable', (Sym('C_SUBQUERY'),)))
            if good:
                res.ok({'from': kind})
            else:
                res.fail(construct, f'fromclause:{kind}', f'FROM with {kind}: {p.outcome} `{show(p.value)[:60]}`, table `{show(got)[:60]}`; expected '
                         + {'none': 'nothing to change', 'table-known': 'the named table to become the current table',
                            'table-unknown': 'a CompilationError for an unknown table name',
                            'subquery': 'the compiled subquery wrapped in a SubqueryTable as the current table'}[kind], loc(fi))
    return res


# ----------------------------------------------------------------------
# BALANCES / JOURNAL / PRINT: where every field of the statement goes (part of R-FIELDFLOW)

SELECT_FIELDS = ['targets', 'from_clause', 'where_clause', 'group_by', 'order_by', 'pivot_by', 'limit', 'distinct']


def transform_cases(P, res):
    m = P.module(CO)
    astm = P.module('beanquery.parser.ast')
    import ast as _ast
    sel = astm.assigns.get('Select')
    if not (isinstance(sel, _ast.Call) and len(sel.args) == 2 and sel.args[1].value.split() == SELECT_FIELDS):
        raise AnalysisError('ast.Select no longer has the field list this rule knows')
    NODE, COOKED = Sym('STATEMENT'), Sym('COOKED_SELECT')
    SF, ACC = Sym('SUMMARY_FUNC'), Sym('ACCOUNT_PATTERN')
    spec = {
        'transform_balances': ('Balances', {'targets': _attr(COOKED, 'targets'), 'from_clause': _attr(NODE, 'from_clause'),
                                            'where_clause': _attr(NODE, 'where_clause'), 'group_by': _attr(COOKED, 'group_by'),
                                            'order_by': _attr(COOKED, 'order_by'), 'pivot_by': None, 'limit': None, 'distinct': None}),
        'transform_journal': ('Journal', {'targets': _attr(COOKED, 'targets'), 'from_clause': _attr(NODE, 'from_clause'),
                                          'where_clause': _attr(COOKED, 'where_clause'), 'group_by': None, 'order_by': None,
                                          'pivot_by': None, 'limit': None, 'distinct': None}),
    }
    for fname, (cls, want) in spec.items():
        fs = m.toplevel_funcs.get(fname)
        if not fs:
            raise AnalysisError(f'anchor vanished: compiler.{fname}')
        fi = fs[-1]
        n0 = len(res.findings)
        for sf in (None, SF):
            for acc in ((None, ACC) if cls == 'Journal' else (None,)):
                texts = []

                def on_attr(base, attr, ex):
                    if base == NODE and attr == 'summary_func':
                        return sf
                    if base == NODE and attr == 'account':
                        return acc
                    return NotImplemented

                def on_call(fn, fval, recv, args, kwargs, ex, node):
                    f = str(fn)
                    if f.endswith('parser.parse') or f == 'parse':
                        texts.append(args[0] if args else None)
                        return COOKED
                    if f.endswith('ast.Select') or f == 'Select':
                        return T('new', ('Select', args, kwargs))
                    return NotImplemented
                for p in Engine(P, on_attr=on_attr, on_call=on_call).paths(fi, {fi.params[0]: NODE}):
                    label = f'{cls.upper()}' + (f' with summary function' if sf else '') + (' with account pattern' if acc else '')
                    v = p.value
                    if p.outcome != 'return' or not (isinstance(v, T) and v.op == 'new' and v.args[0] == 'Select') or len(texts) != 1:
                        res.fail(fi.fq, 'fieldflow:shape', f'{label}: {fname} must parse one SELECT template and return an ast.Select; '
                                 f'{p.outcome} `{show(v)[:80]}`', loc(fi))
                        continue
                    got = dict(zip(SELECT_FIELDS, v.args[1]))
                    got.update(dict(v.args[2]))
                    if len(v.args[1]) + len(v.args[2]) != len(SELECT_FIELDS):
                        res.fail(fi.fq, 'fieldflow:arity', f'ast.Select takes {len(SELECT_FIELDS)} fields; {fname} passes '
                                 f'{len(v.args[1]) + len(v.args[2])}', loc(fi))
                    for field, w in want.items():
                        g = got.get(field)
                        if g != w:
                            res.fail(fi.fq, f'fieldflow:{field}', f'the SELECT built for {cls} takes `{field}` from `{show(g)}`; it must come '
                                     f'from `{show(w)}`' + (' (the clause of the statement is dropped)' if isinstance(w, T) and w.args[0] == NODE else ''), loc(fi))
                    # the template text
                    text = texts[0]
                    parts = list(text.args) if isinstance(text, T) and text.op == 'fstr' else [text]
                    if sf is not None:
                        idx = [i for i, x in enumerate(parts) if x == SF]
                        nxt_ok = all(i + 1 < len(parts) and isinstance(parts[i + 1], str) and parts[i + 1].startswith('(') for i in idx)
                        if not idx or not nxt_ok or any(contains(x, SF) and x != SF for x in parts):
                            res.fail(fi.fq, 'fieldflow:summary_func', f'{label}: the summary function of the statement must be applied, as written, '
                                     f'to the summed positions in the expansion; the template is `{show(text)[:160]}`', loc(fi))
                    elif any(isinstance(x, T) and contains(x, T('attr', (NODE, 'summary_func'))) for x in parts):
                        res.fail(fi.fq, 'fieldflow:summary_func', f'{label}: without a summary function nothing of it may reach the template', loc(fi))
                    if acc is not None:
                        idx = [i for i, x in enumerate(parts) if contains(x, ACC)]
                        good = False
                        if len(idx) == 1 and parts[idx[0]] == ACC and 0 < idx[0] < len(parts) - 1:
                            before, after = parts[idx[0] - 1], parts[idx[0] + 1]
                            if isinstance(before, str) and isinstance(after, str):
                                import re as _re
                                mm = _re.search(r'account\s*~\s*(["\'])$', before)
                                good = bool(mm) and after.startswith(mm.group(1)) and 'WHERE' in before.upper()
                        if not good:
                            res.fail(fi.fq, 'fieldflow:account', f'{label}: the account pattern must reach the expansion unchanged, as the '
                                     f'string literal of `WHERE account ~ "<pattern>"` (BQL strings have no escapes: any conversion changes '
                                     f'the regular expression); the template is `{show(text)[-120:]}`', loc(fi))
                    elif cls == 'Journal' and any('WHERE' in x.upper() for x in parts if isinstance(x, str)):
                        res.fail(fi.fq, 'fieldflow:account', f'{label}: without an account pattern the expansion has no WHERE clause', loc(fi))
        if len(res.findings) == n0:
            res.ok({'function': fi.fq, 'statement': cls, 'fields_flow': {k: show(v) for k, v in want.items() if v is not None},
                    'template': 'summary function applied as written' + ('; account pattern embedded unchanged as a string literal' if cls == 'Journal' else '')})
    # PRINT: FROM clause compiled against the entries table
    pr = _method(P, '_print')
    ENT = Sym('ENTRIES_TABLE')
    seen = {}

    def on_call3(fn, fval, recv, args, kwargs, ex, node):
        f = str(fn)
        if f.endswith('tables.get') and args == ('entries',):
            return ENT
        if f.split('.')[-1] == '_compile_from':
            seen['from'] = (args, ex.heap.get(_attr(SELF, 'table')))
            ex.heap[_attr(SELF, 'table')] = Sym('TABLE_AFTER_FROM')
            return Sym('C_FROM')
        if f.split('.')[-1] == 'EvalPrint':
            return T('new', ('EvalPrint', ctor_args(P, 'EvalPrint', args, kwargs)))
        return NotImplemented
    for p in Engine(P, on_call=on_call3).paths(pr, {'self': SELF, pr.params[1]: NODE}):
        good = p.outcome == 'return' and p.value == T('new', ('EvalPrint', (Sym('TABLE_AFTER_FROM'), Sym('C_FROM')))) and \
            seen.get('from') == ((_attr(NODE, 'from_clause'),), ENT)
        if good:
            res.ok({'function': pr.fq, 'statement': 'Print', 'fields_flow': {'from_clause': '_compile_from on the entries table'}})
        else:
            res.fail(pr.fq, 'fieldflow:print', f'PRINT must compile its FROM clause against the entries table and carry the resulting table '
                     f'and filter into EvalPrint; got `{show(p.value)[:100]}` with FROM compiled on `{show(seen.get("from"))[:80]}`', loc(pr))
    # delegation in the compiler
    for meth, tr in (('_balances', 'transform_balances'), ('_journal', 'transform_journal')):
        f = _method(P, meth)

        def on_call4(fn, fval, recv, args, kwargs, ex, node, _tr=tr):
            if str(fn).split('.')[-1] == _tr:
                return T('new', ('EXPANSION', args))
            if str(fn).split('.')[-1] == '_compile':
                return T('new', ('COMPILED', args))
            return NotImplemented
        for p in Engine(P, on_call=on_call4).paths(f, {'self': SELF, f.params[1]: NODE}):
            if p.value == T('new', ('COMPILED', (T('new', ('EXPANSION', (NODE,))),))):
                res.ok({'handler': meth, 'compiles': f'{tr}(node)'})
            else:
                res.fail(f'{CO}:Compiler.{meth}', 'fieldflow:delegate', f'{meth} must compile the SELECT expansion {tr}(node); returns `{show(p.value)[:80]}`', loc(f))



def format_parser_cases(P, res):
    """Settings._parse_format: the value that is returned (and then stored) is the very value whose membership in FORMATS was
    tested; everything else is rejected with ValueError."""
    sh = P.module('beanquery.shell')
    st = sh.classes.get('Settings')
    pf = st.methods.get('_parse_format') if st else None
    if pf is None:
        raise AnalysisError('anchor vanished: Settings._parse_format')
    VALUE = Sym('VALUE')
    ok = True
    n = 0
    for p in Engine(P).paths(pf, {'self': Sym('SETTINGS'), pf.params[-1]: VALUE}):
        n += 1
        if p.outcome == 'raise':
            if p.value[0] != 'ValueError':
                ok = False
                res.fail(pf.fq, 'settings:parser:format', f'an invalid format must be rejected with ValueError; raises {p.value[0]}', loc(pf))
            continue
        member = False
        for t, outcome in p.decisions:
            if isinstance(t, T) and t.op == 'cmp' and t.args[0] in ('in', 'not in') and 'FORMATS' in show(t.args[2]):
                if t.args[1] == p.value and outcome == (t.args[0] == 'in'):
                    member = True
        if not member:
            ok = False
            res.fail(pf.fq, 'settings:parser:format', f'_parse_format returns `{show(p.value)}` without having established that this very '
                     f'value is one of FORMATS (tested: {[show(t) for t, _ in p.decisions] or "nothing"}): a value the renderer table does '
                     f'not know is stored and every later query fails', loc(pf))
    if ok and n:
        res.ok({'parser': pf.fq, 'paths': n, 'returns': 'the tested value, a member of FORMATS'})


# ----------------------------------------------------------------------
# R-INOP (C08): IN / NOT IN hand the compiled operands on as they are

def rule_inop(P) -> RuleResult:
    res = RuleResult('R-INOP')
    res.exhaustive = True
    fi = _method(P, '_inop')
    NODE, LEFT, RIGHT, OP = Sym('NODE'), Sym('C_LEFT'), Sym('C_RIGHT'), Sym('OPERATOR')
    for kind in ('subquery-1-column', 'subquery-2-columns', 'subquery-0-columns', 'list-or-value'):
        def on_attr(base, attr, ex):
            if base == NODE and attr in ('left', 'right'):
                return Sym('AST_' + attr)
            if base == RIGHT and attr == 'columns':
                return SList([Sym('COL0')] if kind == 'subquery-1-column' else [] if kind == 'subquery-0-columns' else [Sym('COL0'), Sym('COL1')])
            return NotImplemented

        def on_call(fname, fval, recv, args, kwargs, ex, node):
            f = str(fname).split('.')[-1]
            if f == '_compile':
                return LEFT if args == (Sym('AST_left'),) else RIGHT
            if f == 'EvalConstantSubquery1D':
                return T('new', ('EvalConstantSubquery1D', args))
            if f == 'type':
                return Sym('NODETYPE')
            if fval == OP:
                return T('new', ('OPNODE', args))
            return NotImplemented

        def on_item(base, idx, ex):
            if isinstance(base, T) and base.op == 'global' and base.args[0].endswith('OPERATORS'):
                return SList([OP])
            return NotImplemented

        def on_isinstance(v, c, ex):
            if v == RIGHT and gname(c).endswith('EvalQuery'):
                return kind.startswith('subquery')
            return NotImplemented
        n0 = len(res.findings)
        for p in Engine(P, on_attr=on_attr, on_call=on_call, on_item=on_item, on_isinstance=on_isinstance).paths(fi, {'self': SELF, fi.params[1]: NODE}):
            stores = [e for e in p.events if e[0] in ('store', 'aug') and (contains(e[1], RIGHT) or contains(e[1], LEFT))]
            muts = [e for e in p.events if e[0] == 'call' and isinstance(e[1], str) and (e[1].startswith('C_RIGHT.') or e[1].startswith('C_LEFT.'))
                    and e[1].split('.')[-1] in ('update', 'append', 'extend', 'clear', 'sort', '__setattr__')]
            if stores or muts:
                what = show(stores[0][1]) if stores else muts[0][1]
                res.fail(fi.fq, 'inop:modifies', f'IN / NOT IN with a {kind} operand: the compiled operand is modified (`{what}`): the '
                         f'subquery no longer runs as written (its DISTINCT / LIMIT / ORDER BY interact), so `x IN (q)` differs from membership '
                         f'in the rows of q', loc(fi))
                continue
            if kind in ('subquery-2-columns', 'subquery-0-columns'):
                if not (p.outcome == 'raise' and p.value[0] == 'CompilationError'):
                    res.fail(fi.fq, 'inop:columns', f'a subquery with {"more than one column" if kind == "subquery-2-columns" else "no column at all (SELECT * on the null table)"} '
                             f'on the right of IN must be rejected with a CompilationError: membership needs exactly one column; got {p.outcome} '
                             f'`{show(p.value)[:60]}`', loc(fi))
                continue
            want_right = T('new', ('EvalConstantSubquery1D', (RIGHT,))) if kind == 'subquery-1-column' else RIGHT
            if p.outcome != 'return' or p.value != T('new', ('OPNODE', (LEFT, want_right))):
                res.fail(fi.fq, 'inop:operands', f'IN / NOT IN with a {kind} operand must apply the operator to (left, '
                         f'{"the one-column subquery as a constant list" if kind == "subquery-1-column" else "right"}); got {p.outcome} '
                         f'`{show(p.value)[:100]}`', loc(fi))
        if len(res.findings) == n0:
            res.ok({'handler': fi.fq, 'right_operand': kind, 'operands': 'handed on unmodified'})
    return res


# ----------------------------------------------------------------------
# constant folding (part of R-FOLDPURE): what is folded, when, and through what

def fold_cases(P, res):
    """A call / operator application on constants is folded into the value its *evaluator node* gives when applied to no row
    (so NULL propagation, zero-divisor guards and the like apply to the folded value exactly as to a per-row evaluation);
    nothing is folded when an operand is not a constant or, for functions, when the function is not pure."""
    NODE = Sym('NODE')
    EVAL = T('new', ('EVALUATOR',))
    FOUND = Sym('OVERLOAD')

    def judge(site, fi, label, p, should_fold):
        construct = f'{fi.fq}:constant-folding'
        if p.outcome != 'return':
            if p.outcome == 'raise' and p.value[0] == 'CompilationError':
                return True
            res.fail(construct, 'foldpure:raises', f'{label}: {p.outcome} {show(p.value)[:60]}', loc(fi))
            return False
        v = p.value
        folded_right = T('new', ('EvalConstant', (T('call', (show(EVAL), (None,), ())), T('attr', (EVAL, 'dtype')))))
        if should_fold:
            if v == EVAL:
                return True       # not folding is always correct
            if v != folded_right:
                res.fail(construct, 'foldpure:value', f'{label}: the folded constant must be the value the evaluator node gives on no row, with '
                         f'its type - EvalConstant(node(None), node.dtype) - so that NULL propagation and the guards of the operator apply to '
                         f'folded and per-row evaluation alike; got `{show(v)[:120]}`', loc(fi))
                return False
            return True
        if v != EVAL:
            detail = 'foldpure:pure' if 'not pure' in label else 'foldpure:operands'
            res.fail(construct, detail, f'{label}: the expression must not be folded; got `{show(v)[:100]}`', loc(fi))
            return False
        return True

    def common_call(f, fval, args, kwargs):
        if f == 'EvalConstant':
            return T('new', ('EvalConstant', args))
        if fval == FOUND:
            return EVAL
        if f == 'function_lookup':
            return FOUND
        if f == 'type':
            return Sym('NODETYPE')
        return NotImplemented
    # unary operators
    fi = _method(P, '_unaryop')
    ok = True
    for const in (True, False):
        OPND = Sym('C_OPERAND')
        paths = Engine(P, on_call=lambda fn, fv, rc, a, k, ex, nd: OPND if str(fn).split('.')[-1] == '_compile' else common_call(str(fn).split('.')[-1], fv, a, k),
                       on_isinstance=lambda v, c, ex: const if v == OPND and gname(c).endswith('EvalConstant') else NotImplemented).paths(
            fi, {'self': SELF, fi.params[1]: NODE})
        for p in paths:
            ok &= judge('unary', fi, f'unary operator on a {"constant" if const else "non-constant"} operand', p, const)
    if ok:
        res.ok({'site': fi.fq, 'folds': 'constant operand', 'through': 'the evaluator node applied to no row'})
    # binary operators
    fi = _method(P, '_binaryop')
    ok = True
    for lc, rc_ in ((True, True), (True, False), (False, True), (False, False)):
        L, R = Sym('C_LEFT'), Sym('C_RIGHT')
        OP = Sym('OPERATOR_CLASS')

        def on_attr(base, attr, ex):
            if base == NODE and attr in ('left', 'right'):
                return Sym('AST_' + attr)
            if base in (L, R) and attr == 'dtype':
                return Sym('int')
            return NotImplemented

        def on_call(fn, fv, rc, a, k, ex, nd):
            f = str(fn).split('.')[-1]
            if f == '_compile':
                return L if a == (Sym('AST_left'),) else R
            if fv == OP:
                return EVAL
            return common_call(f, fv, a, k)

        def on_item(base, idx, ex):
            if isinstance(base, T) and base.op == 'global' and base.args[0].endswith('OPERATORS'):
                return SList([OP])
            return NotImplemented

        def on_isinstance(v, c, ex, _l=lc, _r=rc_):
            if gname(c).endswith('EvalConstant'):
                return _l if v == L else _r if v == R else NotImplemented
            return NotImplemented

        def oracle(term, ex):
            if isinstance(term, T) and term.op == 'cmp' and term.args[0] == '==' and isinstance(term.args[2], SList):
                return True       # the overload matches the (typed) operands
            return None
        for p in Engine(P, on_attr=on_attr, on_call=on_call, on_item=on_item, on_isinstance=on_isinstance, oracle=oracle,
                        globals_={'OPERATORS': T('global', ('OPERATORS',)), 'object': Sym('object')}).paths(fi, {'self': SELF, fi.params[1]: NODE}):
            if any(e[0] == 'loop-cut' for e in p.events):
                continue
            label = f'binary operator, left {"constant" if lc else "not constant"}, right {"constant" if rc_ else "not constant"}'
            ok &= judge('binary', fi, label, p, lc and rc_)
    if ok:
        res.ok({'site': fi.fq, 'folds': 'both operands constant', 'through': 'the evaluator node applied to no row'})
    # function calls
    fi = _method(P, '_function')
    ok = True
    for consts in ((True, True), (True, False), (False, False)):
        for pure in (True, False):
            C = [Sym('C_ARG0'), Sym('C_ARG1')]

            def on_attr(base, attr, ex):
                if base == NODE and attr == 'fname':
                    return 'some_function'
                if base == NODE and attr == 'operands':
                    return SList([Sym('AST_ARG0'), Sym('AST_ARG1')])
                if base == EVAL and attr == 'pure':
                    return pure
                return NotImplemented

            def on_call(fn, fv, rc, a, k, ex, nd):
                f = str(fn).split('.')[-1]
                if f == '_compile':
                    return C[0] if a == (Sym('AST_ARG0'),) else C[1]
                return common_call(f, fv, a, k)

            def on_isinstance(v, c, ex, _c=consts):
                if gname(c).endswith('EvalConstant') and v in C:
                    return _c[C.index(v)]
                return NotImplemented
            for p in Engine(P, on_attr=on_attr, on_call=on_call, on_isinstance=on_isinstance).paths(fi, {'self': SELF, fi.params[1]: NODE}):
                label = f'function call, arguments {"all constant" if all(consts) else "not all constant"}, function {"pure" if pure else "not pure"}'
                ok &= judge('function', fi, label, p, all(consts) and pure)
    if ok:
        res.ok({'site': fi.fq, 'folds': 'all arguments constant and the function pure', 'through': 'the evaluator node applied to no row'})



def select_target_cases(P, res, nodes_only=False):
    """Every SELECT target is compiled from its expression, named by get_target_name(target) and marked aggregate or not."""
    fi = _method(P, '_compile_targets')
    TG1, TG2, TG3 = Sym('AST_TARGET1'), Sym('AST_TARGET2'), Sym('AST_TARGET3')
    # (compiled nodes as terms of undecided equality: a bare symbol equals only itself)
    CE = {TG1: T('attr', (Sym('COMPILED'), 'C_EXPR1')), TG2: T('attr', (Sym('COMPILED'), 'C_EXPR2')), TG3: T('attr', (Sym('COMPILED'), 'C_EXPR3'))}
    # the third target repeats the first in another spelling: the statement nodes compare equal, and so do the compiled
    # expressions, yet it is a target of its own, with its own name (its own source text) and its own evaluator node
    SAME = [{TG1, TG3}, {CE[TG1], CE[TG3]}]

    def equal(x, y):
        return x == y or any({x, y} == grp for grp in SAME)

    def on_call(fn, fv, rc, a, k, ex, nd):
        f = str(fn).split('.')[-1]
        if f == '_compile':
            for tg, ce in CE.items():
                if a == (T('attr', (tg, 'expression')),):
                    return ce
            return Sym('C_OTHER')
        if f == 'get_target_name':
            return T('call', ('get_target_name', a, ()))
        if f == 'is_aggregate':
            return a[0] == CE[TG2] if a else False
        if f == '_check_aggregates':
            return None
        if f == 'EvalTarget':
            return T('new', ('EvalTarget', a, k))
        if f == 'index' and isinstance(rc, SList) and len(a) == 1 and not rc.opaque_tail:
            for i, x in enumerate(rc.items):
                if equal(x, a[0]):
                    return i
            raise Raise('ValueError', ())
        return NotImplemented

    def on_attr(base, attr, ex):
        if isinstance(base, T) and base.op == 'new' and base.args[0] == 'EvalTarget' and attr in ('c_expr', 'name', 'is_aggregate'):
            i = ('c_expr', 'name', 'is_aggregate').index(attr)
            kw = dict(base.args[2]) if len(base.args) > 2 else {}
            return base.args[1][i] if i < len(base.args[1]) else kw.get(attr, NotImplemented)
        return NotImplemented

    def oracle(term, ex):
        if isinstance(term, T) and term.op == 'cmp' and term.args[0] in ('==', '!=') and len(term.args) == 3:
            e = equal(term.args[1], term.args[2])
            return e if term.args[0] == '==' else not e
        return None

    def on_isinstance(v, c, ex):
        return False
    ok = True
    for tgs in ((TG1, TG2), (TG1, TG2, TG3)):
      for p in Engine(P, on_call=on_call, on_attr=on_attr, on_isinstance=on_isinstance, oracle=oracle).paths(fi, {'self': SELF, fi.params[1]: SList(list(tgs))}):
        v = p.value
        items = v.items if isinstance(v, SList) and not v.opaque_tail else None
        want = [T('new', ('EvalTarget', (CE[t], T('call', ('get_target_name', (t,), ())), t == TG2), ())) for t in tgs]
        if nodes_only and p.outcome == 'return' and items is not None and len(items) == len(tgs) and all(
                isinstance(x, T) and x.op == 'new' and x.args[1][:1] == (CE[t],) for x, t in zip(items, tgs)):
            continue          # every target has its own compiled node, in order: names and flags are judged elsewhere (R-HIDDEN)
        if p.outcome != 'return' or items != want:
            ok = False
            got = ', '.join(show(x)[:70] for x in items) if items is not None else show(v)[:120]
            detail = 'hidden:name-source' if items and len(items) == len(tgs) and all(isinstance(x, T) and x.op == 'new' and x.args[1][:1] == (CE[t],)
                                                                                for x, t in zip(items, tgs)) else 'hidden:targets'
            res.fail(f'{fi.fq}:EvalTarget', detail, 'every SELECT target must become EvalTarget(its compiled expression, '
                     f'get_target_name(target), whether it is an aggregate), in order - also a target that repeats an earlier one in '
                     f'another spelling is compiled to a node of its own and named by its own text; got [{got}]', loc(fi))
    if ok:
        res.ok({'site': fi.fq, 'name': 'get_target_name(target)', 'order': 'as written'})


# ----------------------------------------------------------------------
# R-FROMAND (C01, C13): the FROM condition and the WHERE condition are both required of a row

def rule_fromand(P) -> RuleResult:
    res = RuleResult('R-FROMAND')
    res.exhaustive = True
    fi = _method(P, '_compile_select')
    SEL = Sym('SELECT_NODE')
    F, W = Sym('C_FROM'), Sym('C_WHERE')
    ok = True
    for has_from in (False, True):
        for has_where in (False, True):
            got = {}

            def on_call(fn, fv, rc, a, k, ex, nd):
                f = str(fn).split('.')[-1]
                if f == '_compile_from':
                    return F if has_from else None
                if f == '_compile_targets':
                    return SList([Sym('TARGET')])
                if f == '_compile':
                    return W if has_where else None
                if f == 'is_aggregate':
                    return False
                if f == '_compile_group_by':
                    return T('tuple', (SList(), None, None))
                if f == '_compile_order_by':
                    return T('tuple', (SList(), None))
                if f == '_compile_pivot_by':
                    return None
                if f == 'EvalAnd':
                    return T('new', ('EvalAnd', a))
                if f == 'EvalQuery':
                    names = ['table', 'c_targets', 'c_where']
                    d = dict(zip(names, a))
                    d.update(dict(k))
                    got['where'] = d.get('c_where', 'MISSING')
                    return T('new', ('EvalQuery', a))
                return NotImplemented

            def on_attr(base, attr, ex):
                if base == Sym('TARGET') and attr == 'is_aggregate':
                    return False
                return NotImplemented
            for p in Engine(P, on_call=on_call, on_attr=on_attr).paths(fi, {'self': SELF, fi.params[1]: SEL}):
                v = got.get('where', 'MISSING')
                if has_from and has_where:
                    good = isinstance(v, T) and v.op == 'new' and v.args[0] == 'EvalAnd' and len(v.args[1]) == 1 and \
                        isinstance(v.args[1][0], SList) and not v.args[1][0].opaque_tail and sorted(map(repr, v.args[1][0].items)) == sorted(map(repr, [F, W]))
                    want = 'EvalAnd([from condition, where condition])'
                elif has_from:
                    good, want = v == F, 'the FROM condition'
                elif has_where:
                    good, want = v == W, 'the WHERE condition'
                else:
                    good, want = v is None, 'no condition'
                if p.outcome != 'return' or not good:
                    ok = False
                    res.fail(fi.fq, f'fromand:{int(has_from)}{int(has_where)}', f'FROM condition {"present" if has_from else "absent"}, WHERE '
                             f'{"present" if has_where else "absent"}: the row condition of the query must be {want} (a row is selected iff '
                             f'both conditions are true of it; the WHERE condition goes in as one operand, whatever its own top-level '
                             f'operator); got `{show(v)[:100]}`', loc(fi))
    if ok:
        res.ok({'function': fi.fq, 'cases': 4, 'row_condition': 'FROM AND WHERE, each as one operand'})
    return res


# ----------------------------------------------------------------------
# R-ACCESSNODE (C04, C17): attribute access and subscripts build the node of their operand with the announced type of the field

def rule_accessnode(P) -> RuleResult:
    """`x.attr` on a structured value is EvalGetter(x, the column of that name of x's structure, that column's datatype): the datatype
    announced is the Python type of the field (what the values are instances of and what numberify and the renderers dispatch on),
    not its structure alias; `x[key]` on a dict is EvalGetItem(x, key)."""
    res = RuleResult('R-ACCESSNODE')
    res.exhaustive = True
    NODE, OPND = Sym('AST_NODE'), Sym('C_OPERAND')
    STRUCT, GETTER = Sym('STRUCTURE_OF_OPERAND'), Sym('FIELD_COLUMN')
    fi = _method(P, '_attribute')

    def on_attr(base, attr, ex):
        if base == NODE and attr == 'name':
            return 'field'
        if base == NODE and attr == 'key':
            return 'key'
        if base == OPND and attr == 'dtype':
            return Sym('PYTHON_TYPE_OF_OPERAND')
        return NotImplemented

    def on_call(fn, fv, rc, a, k, ex, nd):
        full = str(fn)
        f = full.split('.')[-1]
        if f == '_compile':
            return OPND
        if full.endswith('ALIASES.get'):
            # every Python type has a structure alias in this scenario: using the alias where the type is due shows
            return STRUCT if a and a[0] == Sym('PYTHON_TYPE_OF_OPERAND') else T('structure-alias-of', (a[0],))
        if f == 'issubclass':
            return True
        if full.endswith('columns.get') and rc == _attr(STRUCT, 'columns'):
            return GETTER
        if f in ('EvalGetter', 'EvalGetItem'):
            return T('new', (f, tuple(a), tuple(k)))
        return NotImplemented
    for p in Engine(P, on_attr=on_attr, on_call=on_call).paths(fi, {'self': SELF, fi.params[1]: NODE}):
        want = T('new', ('EvalGetter', (OPND, GETTER, _attr(GETTER, 'dtype')), ()))
        if p.decisions or p.outcome != 'return' or p.value != want:
            res.fail(fi.fq, 'accessnode:getter', f'`x.field` must compile to EvalGetter(x, the field column of x\'s structure, that column\'s '
                     f'datatype); it gives `{show(p.value)[:140] if p.outcome == "return" else p.outcome}`', loc(fi))
        else:
            res.ok({'handler': fi.fq, 'node': 'EvalGetter(operand, field column, field column datatype)'})
    fs = _method(P, '_subscript')
    for p in Engine(P, on_attr=on_attr, on_call=on_call).paths(fs, {'self': SELF, fs.params[1]: NODE}):
        want = T('new', ('EvalGetItem', (OPND, 'key'), ()))
        if p.decisions or p.outcome != 'return' or p.value != want:
            res.fail(fs.fq, 'accessnode:getitem', f'`x[key]` on a dict must compile to EvalGetItem(x, key); it gives '
                     f'`{show(p.value)[:140] if p.outcome == "return" else p.outcome}`', loc(fs))
        else:
            res.ok({'handler': fs.fq, 'node': 'EvalGetItem(operand, key)'})
    return res


# ----------------------------------------------------------------------
# R-NODEBUILD (C01, C04): the leaf and connective handlers build the node the syntax asks for

def rule_nodebuild(P) -> RuleResult:
    """The compiler handlers that only build a node, on terms: AND gives EvalAnd and OR gives EvalOr over every compiled argument in
    source order (R-3VL decides what those nodes then compute); a literal gives EvalConstant(the literal), its datatype taken from the
    value; `*` gives the typed Asterisk constant; a column name gives the table's column of exactly that name or is refused."""
    res = RuleResult('R-NODEBUILD')
    res.exhaustive = True
    NODE = Sym('AST_NODE')
    ARGS = [Sym('ARG1'), Sym('ARG2'), Sym('ARG3')]

    def run(meth, on_attr, extra=None):
        fi = _method(P, meth)

        def on_call(fn, fv, rc, a, k, ex, nd):
            f = str(fn).split('.')[-1]
            if f == '_compile':
                return T('new', ('COMPILED', tuple(a)))
            if f.startswith('Eval'):
                return T('new', (f, tuple(a), tuple(sorted(dict(k).items()))))
            if extra:
                return extra(fn, fv, rc, a, k, ex, nd)
            return NotImplemented
        return fi, Engine(P, on_attr=on_attr, on_call=on_call).paths(fi, {'self': SELF, fi.params[1]: NODE})

    for meth, cls, word in (('_and', 'EvalAnd', 'AND'), ('_or', 'EvalOr', 'OR')):
        def on_attr(base, attr, ex):
            if base == NODE and attr == 'args':
                return SList(list(ARGS))
            return NotImplemented
        fi, paths = run(meth, on_attr)
        for p in paths:
            v = p.value
            shape = p.outcome == 'return' and not p.decisions and isinstance(v, T) and v.op == 'new' and v.args[0] == cls and not v.args[2] \
                and len(v.args[1]) == 1 and isinstance(v.args[1][0], SList) and not v.args[1][0].tail
            items = list(v.args[1][0].items) if shape else None
            want = [T('new', ('COMPILED', (a,))) for a in ARGS]
            if shape and word == 'OR' and items and all(isinstance(i, T) and i.op == 'sorted-item' for i in items) and \
                    [i.args[0] for i in items] == list(range(len(items))):
                # OR is TRUE if any operand is true, else NULL if any is NULL: a function of the set of operand values, whatever their order
                items = list(items[0].args[1])
            good = shape and items == want
            if good:
                res.ok({'handler': fi.fq, 'node': f'{cls}([compiled argument, ... in source order])', 'arguments': len(ARGS)})
            else:
                res.fail(fi.fq, f'nodebuild:{word.lower()}', f'`a {word} b {word} c` must compile to {cls} over the three compiled arguments in '
                         f'source order; it gives `{show(v)[:140] if p.outcome == "return" else p.outcome}`', loc(fi))

    def on_attr_c(base, attr, ex):
        if base == NODE and attr == 'value':
            return Sym('LITERAL')
        return NotImplemented
    fi, paths = run('_constant', on_attr_c)
    for p in paths:
        if p.outcome == 'return' and not p.decisions and p.value == T('new', ('EvalConstant', (Sym('LITERAL'),), ())):
            res.ok({'handler': fi.fq, 'node': 'EvalConstant(the literal): datatype taken from the value'})
        else:
            res.fail(fi.fq, 'nodebuild:constant', f'a literal must compile to EvalConstant(the literal) and nothing else; it gives '
                     f'`{show(p.value)[:140] if p.outcome == "return" else p.outcome}`', loc(fi))

    fi, paths = run('_asterisk', lambda b, a, ex: NotImplemented)
    for p in paths:
        v = p.value
        good = False
        if p.outcome == 'return' and not p.decisions and isinstance(v, T) and v.op == 'new' and v.args[0] == 'EvalConstant':
            dt = {**dict(v.args[2]), **({'dtype': v.args[1][1]} if len(v.args[1]) > 1 else {})}.get('dtype')
            good = v.args[1][:1] == (None,) and gname(dt).split('.')[-1] == 'Asterisk'
        if good:
            res.ok({'handler': fi.fq, 'node': 'EvalConstant(NULL, dtype=Asterisk)'})
        else:
            res.fail(fi.fq, 'nodebuild:asterisk', f'`*` as an argument must compile to the NULL constant of datatype Asterisk (what count(*) '
                     f'and the function lookup dispatch on); it gives `{show(v)[:140] if p.outcome == "return" else p.outcome}`', loc(fi))

    COLS = _attr(_attr(SELF, 'table'), 'columns')

    def on_attr_col(base, attr, ex):
        if base == NODE and attr == 'name':
            return Sym('NAME')
        return NotImplemented
    for present in (True, False):
        asked = []

        def extra(fn, fv, rc, a, k, ex, nd):
            full = str(fn)
            if rc == COLS and full.split('.')[-1] == 'get':
                asked.append(tuple(a))
                return Sym('THE_COLUMN') if present and a[:1] == (Sym('NAME'),) and (len(a) < 2 or True) else (a[1] if len(a) > 1 else None)
            return NotImplemented
        fi, paths = run('_column', on_attr_col, extra)
        for p in paths:
            if present:
                good = p.outcome == 'return' and p.value == Sym('THE_COLUMN')
                want = 'the column of that name'
            else:
                good = p.outcome == 'raise' and p.value[0] == 'CompilationError'
                want = 'CompilationError'
            if good and asked and all(a[:1] == (Sym('NAME'),) for a in asked):
                res.ok({'handler': fi.fq, 'column_exists': present, 'gives': want})
            else:
                res.fail(fi.fq, 'nodebuild:column', f'a column name that {"exists" if present else "does not exist"} in the table must give {want}; '
                         f'it gives `{show(p.value)[:100]}` ({p.outcome}) after looking up {[show(a) for a in asked]}', loc(fi))
    return res


# ----------------------------------------------------------------------
# R-CONSTTYPE (C04, C17, C01): a constant announces the exact class of its value

def rule_consttype(P) -> RuleResult:
    """EvalConstant on terms: without an explicit dtype the node announces type(value) - the class the renderers, the overload lookup
    and numberify dispatch on, so that an Inventory / Position / Amount handed in as a query parameter is a column of that type, and a
    bool is not an int; with a dtype it announces that dtype; evaluated on any row it gives the value itself."""
    res = RuleResult('R-CONSTTYPE')
    res.exhaustive = True
    ci = P.cls('beanquery.query_compile', 'EvalConstant')
    init, call = ci.methods.get('__init__'), ci.methods.get('__call__')
    if init is None or call is None:
        raise AnalysisError('anchor vanished: EvalConstant.__init__ / __call__')
    NODE_, VALUE, DT = Sym('CONSTANT_NODE'), T('attr', (Sym('CALLER'), 'value')), Sym('GIVEN_DTYPE')
    for given in (False, True):
        announced = []

        def on_call(fn, fv, rc, a, k, ex, nd):
            if str(fn).endswith('__init__'):
                announced.append(tuple(a) + tuple(v for _, v in k))
                return None
            return NotImplemented
        heap = {}
        n = 0
        for p in Engine(P, on_call=on_call, max_depth=0).paths(init, {'self': NODE_, init.params[1]: VALUE, init.params[2]: DT if given else None}):
            n += 1
            got = announced[-1] if announced else ()
            want = DT if given else T('call', ('type', (VALUE,), ()))
            cond = f' when {" and ".join(show(t)[:50] + " is " + str(o) for t, o in p.decisions)}' if p.decisions else ''
            if p.outcome == 'raise' or len(got) != 1 or got[0] != want:
                res.fail(init.fq, 'consttype:dtype', f'EvalConstant(value{", dtype" if given else ""}) must announce '
                         f'{"the dtype given" if given else "type(value), the exact class of the value"}; it announces '
                         f'`{", ".join(show(x)[:80] for x in got) or "nothing"}`{cond}', loc(init))
            elif p.heap.get(T('attr', (NODE_, 'value'))) != VALUE:
                res.fail(init.fq, 'consttype:value', f'EvalConstant must keep the value it was given; it keeps `{show(p.heap.get(T("attr", (NODE_, "value"))))[:60]}`', loc(init))
            else:
                res.ok({'constructor': 'EvalConstant(value, dtype)' if given else 'EvalConstant(value)', 'announces': 'dtype' if given else 'type(value)'})
            announced.clear()
        if n == 0:
            raise AnalysisError(f'{init.fq}: no path on terms')
    for p in Engine(P, max_depth=0).paths(call, {'self': NODE_, call.params[1]: Sym('ROW')}):
        if p.outcome == 'return' and not p.decisions and p.value == T('attr', (NODE_, 'value')):
            res.ok({'evaluation': 'the value, on any row'})
        else:
            res.fail(call.fq, 'consttype:call', f'a constant evaluates to its value on every row; found `{show(p.value)[:60]}`', loc(call))
    return res
