"""numberify on the term interpreter: R-SIBLINGS (the three converter families against their definition and each other)
and R-IDENTITY (numberify_results: column-by-column construction, untouched columns, one output row per input row)."""
from __future__ import annotations

from beancount.core import amount, position, inventory

from .. import registry
from ..symex import Sym, T, SList, Engine, Exec, show, canon, contains, early_exits
from ..loader import AnalysisError, loc
from ..report import RuleResult
from .sx_exec import loop_events

NU = 'beanquery.numberify'
SELF = Sym('CONVERTER')
DROW = Sym('ROW')
DFORMAT = Sym('DFORMAT')


def _a(base, *names):
    for n in names:
        base = T('attr', (base, n))
    return base


CELL = T('item', (DROW, _a(SELF, 'index')))
CUR = _a(SELF, 'currency')
# the definition of each family: where the currency of a cell is, and where its number is
FAMILY = {
    'Amount': {'currency': _a(CELL, 'currency'), 'number': _a(CELL, 'number')},
    'Position': {'currency': _a(CELL, 'units', 'currency'), 'number': _a(CELL, 'units', 'number')},
    'Inventory': {'currency': None, 'number': _a(T('call', (f'{show(CELL)}.get_currency_units', (CUR,), ())), 'number')},
}


def _converter_cases(P, res, name, conv):
    call = conv.methods.get('__call__')
    if call is None:
        raise AnalysisError(f'anchor vanished: {name}Converter.__call__')
    fam = FAMILY[name]
    construct = f'{NU}:{name}Converter'
    ok = True
    cases = []
    for cell_cls in ('NULL', 'value'):
        for match in ((True, False) if fam['currency'] is not None else (True,)):
            for nonzero in ((True, False) if name == 'Inventory' else (True,)):
                for fmt in (None, DFORMAT):
                    if cell_cls == 'NULL' and (not match or not nonzero):
                        continue
                    cases.append((cell_cls, match, nonzero, fmt))
    for cell_cls, match, nonzero, fmt in cases:
        def oracle(term, ex, _c=cell_cls, _m=match, _z=nonzero):
            if term == CELL:
                return _c == 'value'
            if isinstance(term, T) and term.op == 'cmp' and term.args[0] in ('is', 'is not') and term.args[1] == CELL and term.args[2] is None:
                return (_c == 'NULL') == (term.args[0] == 'is')
            if fam['currency'] is not None and isinstance(term, T) and term.op == 'cmp' and term.args[0] in ('==', '!=') and \
                    {repr(term.args[1]), repr(term.args[2])} == {repr(fam['currency']), repr(CUR)}:
                return _m == (term.args[0] == '==')
            if term == fam['number']:
                return _z
            if isinstance(term, T) and term.op == 'call' and str(term.args[0]).endswith('.quantize') and term.args[1] == (fam['number'], CUR):
                return _z       # the quantized number of a non-zero amount, taken as non-zero (a zero result may become NULL)
            if fam['currency'] is not None and term == fam['currency']:
                return True
            return None
        eng = Engine(P, oracle=oracle)
        desc = f'cell {cell_cls}' + ('' if cell_cls == 'NULL' else f', currency {"equal" if match else "different"}'
                                     + (', zero units' if not nonzero else '')) + f', formatter {"given" if fmt else "absent"}'
        for p in eng.paths(call, {'self': SELF, call.params[1]: DROW, call.params[2]: fmt}):
            if p.decisions:
                ok = False
                res.fail(construct, 'siblings:definition', f'{name}Converter ({desc}) branches on `{show(p.decisions[0][0])[:80]}`, which is not '
                         f'part of the definition of the cell (the number of units of the converter\'s currency in the cell at the '
                         f'converter\'s index)', loc(call))
                break
            if p.outcome != 'return':
                ok = False
                res.fail(construct, 'siblings:raises', f'{name}Converter ({desc}) ends with {p.outcome} {show(p.value)[:60]}', loc(call))
                break
            quant = T('call', (f'{show(fmt)}.quantize', (fam['number'], CUR), ())) if fmt else None
            if cell_cls == 'NULL' or not match:
                want = [None]
            elif not nonzero:
                want = [None, 0, fam['number']]       # NULL or zero when the currency is absent
            else:
                want = [quant if fmt else fam['number']]
            if not any(p.value == w if not isinstance(w, T) else p.value == w for w in want):
                ok = False
                qcalls = [e for e in p.events if e[0] == 'call' and str(e[1]).endswith('.quantize')]
                if fmt and cell_cls == 'value' and match and nonzero and (len(qcalls) != 1 or (qcalls and qcalls[0][2] != (fam['number'], CUR))):
                    inloop = any(e[0] == 'loop-begin' for e in p.events)
                    res.fail(construct, 'siblings:quantize-parts' if inloop or len(qcalls) > 1 else 'siblings:quantize',
                             f'{name}Converter ({desc}): the cell must be the number of units of the currency, quantized once to the '
                             f'converter\'s own currency: quantize({show(fam["number"])}, {show(CUR)}); found '
                             f'{[show(T("call", (e[1], e[2], ()))) for e in qcalls] or "no quantization"}'
                             + (' inside a loop: parts are rounded before they are summed' if inloop else ''), loc(call))
                elif not fmt and any(e[0] == 'call' and str(e[1]).endswith('.quantize') for e in p.events):
                    res.fail(construct, 'siblings:quantize', f'{name}Converter ({desc}) quantizes although no formatter is given', loc(call))
                else:
                    res.fail(construct, 'siblings:number', f'{name}Converter ({desc}) returns `{show(p.value)[:100]}`; the definition gives '
                             f'`{" or ".join(show(w) for w in want)}`', loc(call))
                break
        if not ok:
            break
    if ok:
        res.ok({'converter': f'{name}Converter', 'cases': len(cases), 'number': show(fam['number']), 'currency_test': show(fam['currency']) if fam['currency'] else 'lookup by currency',
                'quantized': 'once, to the converter currency, iff a formatter is given'})
    # the converter is a decimal column and remembers name, index, currency
    dt = conv.attrs.get('dtype')
    import ast as _ast
    if dt is None or _ast.unparse(dt).split('.')[-1] != 'Decimal':
        res.fail(construct, 'siblings:dtype', f'numberified columns are decimal columns; {name}Converter.dtype is '
                 f'{_ast.unparse(dt) if dt is not None else "not set"}', loc(conv))
    init = conv.methods.get('__init__')
    if init is None:
        raise AnalysisError(f'anchor vanished: {name}Converter.__init__')
    for p in Engine(P).paths(init, {'self': SELF}):
        want = {_a(SELF, 'name'): Sym(init.params[1]), _a(SELF, 'index'): Sym(init.params[2]), _a(SELF, 'currency'): Sym(init.params[3])}
        for k, v in want.items():
            if p.heap.get(k) != v:
                res.fail(construct, 'siblings:init', f'{name}Converter.__init__ must keep its {k.args[1]}; it stores `{show(p.heap.get(k))}`', loc(init))


def _census_cases(P, res, name, census, convname):
    """convert_col_X(name, drows, index): one converter per currency seen, most frequent first, named `name (CUR)`."""
    construct = f'{NU}:convert_col_{name}'
    NAME, INDEX = Sym('COLNAME'), Sym('COLINDEX')
    ok = True
    for cell_cls in ('NULL', 'value'):
        drows = SList(origin=(Sym('RESULT'), Sym('R'), ()))
        cell = T('item', (T('elem', (drows,)), INDEX))
        fam_cur = {'Amount': _a(cell, 'currency'), 'Position': _a(cell, 'units', 'currency'),
                   'Inventory': T('elem', (T('call', (f'{show(cell)}.currencies', (), ())),))}[name]

        def on_call(fname, fval, recv, args, kwargs, ex, node):
            last = str(fname).split('.')[-1]
            if last == 'defaultdict' and len(args) == 1:
                return T('new', ('defaultdict', args[0]))
            if last == 'Counter' and not args:
                return T('new', ('defaultdict', 'int'))
            return NotImplemented

        def oracle(term, ex, _c=cell_cls, _cell=cell):
            if term == _cell:
                return _c == 'value'
            if isinstance(term, T) and term.op == 'cmp' and term.args[0] in ('is', 'is not') and term.args[1] == _cell and term.args[2] is None:
                return (_c == 'NULL') == (term.args[0] == 'is')
            if term == fam_cur:
                return True
            return None
        eng = Engine(P, on_call=on_call, oracle=oracle)
        for p in eng.paths(census, {census.params[0]: NAME, census.params[1]: drows, census.params[2]: INDEX}):
            if p.decisions:
                ok = False
                res.fail(construct, 'siblings:census', f'convert_col_{name} branches on `{show(p.decisions[0][0])[:80]}` while counting the '
                         f'currencies of the column', loc(census))
                break
            counted = [e for e in p.events if e[0] == 'aug' and isinstance(e[1], T) and e[1].op == 'item']
            if early_exits(p, drows):
                ok = False
                res.fail(construct, 'siblings:census', f'convert_col_{name} stops scanning the column at a {"NULL" if cell_cls == "NULL" else "non-NULL"} '
                         f'cell: currencies that first occur in later rows get no column and their amounts are dropped', loc(census))
                break
            if cell_cls == 'NULL':
                if counted:
                    ok = False
                    res.fail(construct, 'siblings:census', f'convert_col_{name} counts a currency for a NULL cell', loc(census))
                continue
            if len(counted) != 1 or counted[0][1].args[1] != fam_cur or (counted[0][2], counted[0][3]) != ('+', 1):
                ok = False
                res.fail(construct, 'siblings:census', f'convert_col_{name} must count every currency of the cell once per row '
                         f'(`{show(fam_cur)}`); it counts {[show(e[1].args[1]) for e in counted] or "nothing"}', loc(census))
                break
            cmap = counted[0][1].args[0]
            v = p.value
            if not (p.outcome == 'return' and isinstance(v, SList) and v.origin is not None and not v.origin[2]):
                ok = False
                res.fail(construct, 'siblings:order', f'convert_col_{name} must return one converter per currency of the census; returns '
                         f'`{show(v)[:100]}`', loc(census))
                break
            seq, elt, _ = v.origin
            # order: sorted(census items, by count, descending)
            good_order = False
            if isinstance(seq, T) and seq.op == 'call' and seq.args[0] == 'sorted' and len(seq.args[1]) == 1 and \
                    seq.args[1][0] == T('call', (f'{show(cmap)}.items', (), ())):
                kw = dict(seq.args[2])
                k = kw.get('key')
                rev = kw.get('reverse', False)
                ITEM = Sym('ITEM')
                kv = None
                if isinstance(k, T) and k.op in ('lambda', 'func'):
                    kv = Exec(eng, []).apply_closure(k.args[1], (ITEM,), ())
                elif isinstance(k, T) and k.op == 'call' and str(k.args[0]).endswith('itemgetter'):
                    kv = T('tuple', tuple(T('item', (ITEM, i)) for i in k.args[1])) if len(k.args[1]) > 1 else T('item', (ITEM, k.args[1][0]))
                first = kv.args[0] if isinstance(kv, T) and kv.op == 'tuple' and kv.args else kv
                if first == T('item', (ITEM, 1)) and rev is True:
                    good_order = True
                if first == T('neg', (T('item', (ITEM, 1)),)) and rev is False:
                    good_order = True
            if not good_order:
                ok = False
                res.fail(construct, 'siblings:order', f'currency columns must be ordered by decreasing frequency (census items sorted by '
                         f'count, descending); the converters are built over `{show(seq)[:140]}`', loc(census))
                break
            currency = T('elem', (seq, (0,)))
            # the element: XConverter('name (CUR)', index, currency)
            good_elt = isinstance(elt, T) and elt.op == 'call' and str(elt.args[0]).split('.')[-1] == convname and len(elt.args[1]) == 3 \
                and elt.args[1][1] == INDEX and elt.args[1][2] == currency
            if not good_elt:
                ok = False
                res.fail(construct, 'siblings:converter', f'convert_col_{name} must build {convname}(column name, column index, currency) for '
                         f'every currency; builds `{show(elt)[:140]}`', loc(census))
                break
            nm = elt.args[1][0]
            tmpl = None
            if isinstance(nm, T) and nm.op == 'call' and str(nm.args[0]).endswith('.format') and not nm.args[2]:
                fmt = str(nm.args[0])[:-len('.format')]
                try:
                    import ast as _ast
                    f = _ast.literal_eval(fmt)
                    parts = f.split('{}')
                    if len(parts) == len(nm.args[1]) + 1:
                        tmpl = []
                        for i, part in enumerate(parts):
                            if part:
                                tmpl.append(part)
                            if i < len(nm.args[1]):
                                tmpl.append(nm.args[1][i])
                except (ValueError, SyntaxError):
                    tmpl = None
            elif isinstance(nm, T) and nm.op == 'fstr':
                tmpl = list(nm.args)
            if tmpl != [NAME, ' (', currency, ')']:
                ok = False
                res.fail(construct, 'siblings:name', f'columns must be named "name (CUR)"; convert_col_{name} names them `{show(nm)[:100]}`', loc(census))
                break
        if not ok:
            break
    if ok:
        res.ok({'census': f'convert_col_{name}', 'counts': 'every currency of a non-NULL cell once per row', 'order': 'count, descending',
                'converter': f'{convname}("name (CUR)", index, currency)'})


def rule_siblings(P) -> RuleResult:
    res = RuleResult('R-SIBLINGS')
    res.exhaustive = True
    m = P.module(NU)
    for name in FAMILY:
        conv = m.classes.get(f'{name}Converter')
        census = m.toplevel_funcs.get(f'convert_col_{name}')
        if conv is None or not census:
            raise AnalysisError(f'anchor vanished: numberify family {name}')
        _converter_cases(P, res, name, conv)
        _census_cases(P, res, name, census[-1], f'{name}Converter')
    return res


def rule_identity(P) -> RuleResult:
    res = RuleResult('R-IDENTITY')
    res.exhaustive = True
    m = P.module(NU)
    reg = registry.get(P)
    fn = m.toplevel_funcs.get('numberify_results')
    if not fn:
        raise AnalysisError('anchor vanished: numberify_results')
    fi = fn[-1]
    n0 = len(res.findings)
    for t, fname in reg.converting_types.items():
        if fname != f'convert_col_{t.__name__}':
            res.fail(f'{NU}:CONVERTING_TYPES', f'identity:map:{t.__name__}', f'{t.__name__} columns are converted by {fname}')
        else:
            res.ok({'type': t.__name__, 'factory': fname})
    if set(reg.converting_types) != {amount.Amount, position.Position, inventory.Inventory}:
        res.fail(f'{NU}:CONVERTING_TYPES', 'identity:types', 'exactly Amount, Position and Inventory columns are numberified')
    # numberify_results on an abstract result: plain, amount-like, plain
    COLS = [Sym('COLUMN0'), Sym('COLUMN1'), Sym('COLUMN2')]
    DT = {COLS[0]: Sym('PLAIN_TYPE0'), COLS[1]: Sym('AMOUNT_TYPE'), COLS[2]: Sym('PLAIN_TYPE2')}
    CONV = [Sym('CURRENCY_CONVERTER_A'), Sym('CURRENCY_CONVERTER_B')]
    FACTORY = Sym('FACTORY')
    drows = SList(origin=(Sym('RESULT'), Sym('R'), ()))
    for CONVS in (CONV, []):
        factory_args = []

        def on_call(fname, fval, recv, args, kwargs, ex, node):
            f = str(fname)
            if f.endswith('CONVERTING_TYPES.get') and args:
                return FACTORY if args[0] == DT[COLS[1]] else (args[1] if len(args) > 1 else None)
            if fval == FACTORY:
                factory_args.append(args)
                return SList(list(CONVS))
            if f.split('.')[-1] == 'IdentityConverter':
                return T('new', ('IdentityConverter', args))
            return NotImplemented

        def on_item(base, idx, ex):
            if isinstance(base, T) and base.op == 'global' and base.args[0].endswith('CONVERTING_TYPES'):
                if idx == DT[COLS[1]]:
                    return FACTORY
                from ..symex import Raise
                raise Raise('KeyError', (idx,))
            return NotImplemented

        def on_attr(base, attr, ex):
            if base in DT and attr == 'datatype':
                return DT[base]
            return NotImplemented

        def oracle(term, ex):
            if isinstance(term, T) and term.op == 'cmp' and term.args[0] in ('in', 'not in') and isinstance(term.args[2], T) \
                    and term.args[2].op == 'global' and str(term.args[2].args[0]).endswith('CONVERTING_TYPES'):
                r = term.args[1] == DT[COLS[1]]
                return r if term.args[0] == 'in' else not r
            return None
        eng = Engine(P, on_call=on_call, on_item=on_item, on_attr=on_attr, oracle=oracle)
        construct = fi.fq
        for p in eng.paths(fi, {fi.params[0]: SList(list(COLS)), fi.params[1]: drows, fi.params[2]: DFORMAT}):
            if p.outcome != 'return' or not (isinstance(p.value, T) and p.value.op == 'tuple' and len(p.value.args) == 2):
                res.fail(construct, 'identity:shape', f'numberify_results must return (columns, rows); {p.outcome} `{show(p.value)[:80]}`', loc(fi))
                continue
            otypes, orows = p.value.args
            ident = [T('new', ('IdentityConverter', (_a(c, 'name'), DT[c], i))) for i, c in enumerate(COLS)]
            want_convs = [ident[0]] + list(CONVS) + [ident[2]]
            if not factory_args or factory_args[-1] != (_a(COLS[1], 'name'), drows, 1):
                res.fail(construct, 'identity:factory-args', f'converter factories must receive the column name, the rows and the column index; '
                         f'got ({", ".join(map(show, factory_args[-1])) if factory_args else "no call"})', loc(fi))
                continue
            want_types = T('tuple', tuple(T('call', ('Column', (_a(c, 'name'), _a(c, 'dtype')), ())) for c in want_convs))
            if canon(otypes) != canon(want_types):
                # tell the identity-argument defect from an ordering defect
                got = canon(otypes)
                detail = 'identity:args' if 'IdentityConverter' in repr(got) and repr(canon(want_types)).count('IdentityConverter') == repr(got).count('IdentityConverter') else 'identity:order'
                res.fail(construct, detail, f'the output columns must be: the other columns copied unchanged (IdentityConverter(name, datatype, '
                         f'own index)) and, in place of an amount-like column, its currency columns in census order' + ('' if CONVS else ' (none when no currency occurs in it: the column disappears)') + f'; got `{show(otypes)[:300]}`', loc(fi))
                continue
            # rows: one per input row, every converter applied to (row, dformat) in column order
            rowval = None
            if isinstance(orows, SList) and orows.origin is not None:
                seq, elt, conds = orows.origin
                if seq is drows and not conds:
                    rowval = elt
            elif isinstance(orows, SList):
                inner = loop_events(p, drows)
                prods = [e for d, e in (inner or []) if e[0] == 'produce' and d == 0 and e[1] == orows.id]
                if len(prods) == 1:
                    rowval = prods[0][2]
            if early_exits(p, drows):
                res.fail(construct, 'identity:rows', 'the conversion stops before the last input row', loc(fi))
                continue
            drow = T('elem', (drows,))
            want_row = ('L', tuple(canon(T('call', (show(c), (drow, DFORMAT), ()))) for c in want_convs))
            got_row = canon(rowval) if rowval is not None else None
            if isinstance(got_row, tuple) and got_row and got_row[0] == 'call' and got_row[1] in ('list', 'tuple') and len(got_row[2]) == 1:
                got_row = got_row[2][0]
            if got_row != want_row:
                res.fail(construct, 'identity:rows', f'every input row must yield one output row built by applying all converters, in column '
                         f'order, to (row, formatter); got `{show(rowval)[:200]}`', loc(fi))
                continue
            muts = [e for e in p.events if e[0] == 'mutate' and isinstance(orows, SList) and e[1] == orows.id]
            if muts:
                res.fail(construct, 'identity:rows', f'the output rows are reordered ({muts[0][2]})', loc(fi))
    # two amount-like columns published under the same name with the same type: each is decomposed on its own cells
    # description entries compare equal when name and type agree (Column.__eq__): the two are the same term, as they are equal objects -
    # whatever finds a column's position by equality finds the first of them
    TW = [T('new', ('Column', ('total', Sym('AMOUNT_TYPE'))))] * 2
    calls2 = []

    def on_call_tw(fname, fval, recv, args, kwargs, ex, node):
        f = str(fname)
        if f.endswith('CONVERTING_TYPES.get') and args:
            return FACTORY
        if fval == FACTORY:
            calls2.append(args)
            return SList([T('new', ('CurrencyConverter', (args[2] if len(args) > 2 else None,)))])
        if f.split('.')[-1] == 'IdentityConverter':
            return T('new', ('IdentityConverter', args))
        return NotImplemented

    def on_item_tw(base, idx, ex):
        if isinstance(base, T) and base.op == 'global' and base.args[0].endswith('CONVERTING_TYPES'):
            return FACTORY
        return NotImplemented

    def on_attr_tw(base, attr, ex):
        if base in TW and attr == 'datatype':
            return Sym('AMOUNT_TYPE')
        if base in TW and attr == 'name':
            return 'total'
        return NotImplemented

    def oracle_tw(term, ex):
        if isinstance(term, T) and term.op == 'cmp' and term.args[0] in ('in', 'not in') and isinstance(term.args[2], T) \
                and term.args[2].op == 'global' and str(term.args[2].args[0]).endswith('CONVERTING_TYPES'):
            return term.args[0] == 'in'
        return None
    for p in Engine(P, on_call=on_call_tw, on_item=on_item_tw, on_attr=on_attr_tw, oracle=oracle_tw).paths(
            fi, {fi.params[0]: SList(list(TW)), fi.params[1]: drows, fi.params[2]: DFORMAT}):
        if p.outcome != 'return' or not (isinstance(p.value, T) and p.value.op == 'tuple' and len(p.value.args) == 2):
            continue
        want_types = T('tuple', tuple(T('call', ('Column', (_a(T('new', ('CurrencyConverter', (i,))), 'name'), _a(T('new', ('CurrencyConverter', (i,))), 'dtype')), ()))
                                      for i in (0, 1)))
        if canon(p.value.args[0]) != canon(want_types):
            res.fail(construct, 'identity:twins', f'two amount-like columns with the same name and type are each decomposed from their own '
                     f'cells (converters built for column index 0 and for column index 1); got `{show(p.value.args[0])[:200]}`'
                     + (f' under the assumption {[show(t)[:40] for t, _ in p.decisions][:2]}' if p.decisions else ''), loc(fi))
            break
    # IdentityConverter: copies the cell at its index, keeps name and datatype
    ident = m.classes.get('IdentityConverter')
    c = ident.methods.get('__call__') if ident else None
    init = ident.methods.get('__init__') if ident else None
    if c is None or init is None:
        raise AnalysisError('anchor vanished: IdentityConverter')
    for p in Engine(P).paths(c, {'self': SELF, c.params[1]: DROW}):
        if p.outcome != 'return' or p.value != T('item', (DROW, _a(SELF, 'index'))):
            res.fail(f'{NU}:IdentityConverter', 'identity:copy', f'IdentityConverter must return the cell at its index; returns `{show(p.value)}`', loc(c))
    for p in Engine(P).paths(init, {'self': SELF}):
        want = {_a(SELF, 'name'): Sym(init.params[1]), _a(SELF, 'dtype'): Sym(init.params[2]), _a(SELF, 'index'): Sym(init.params[3])}
        for k, v in want.items():
            if p.heap.get(k) != v:
                res.fail(f'{NU}:IdentityConverter', 'identity:init', f'IdentityConverter must keep its {k.args[1]}; stores `{show(p.heap.get(k))}`', loc(init))
    if len(res.findings) == n0:
        res.ok({'function': fi.fq, 'identity': 'name, datatype, index', 'rows': 'one per input row, converters in column order',
                'columns': 'converters in column order'})
    return res


# ----------------------------------------------------------------------
# R-RUNQUERY (C17): run_query(numberify=True) numberifies the API result with the ledger's display precision

def rule_runquery(P) -> RuleResult:
    """query.run_query on terms: the statement is executed once through a connection over the given entries and options; with
    numberify the description and rows of that result go to numberify_results together with the formatter built by the ledger's
    display context with its default (most common) precision - "quantized to the currency's display precision"; without it the
    result is returned as it is."""
    res = RuleResult('R-RUNQUERY')
    res.exhaustive = True
    m = P.modules.get('beanquery.query')
    fs = m.toplevel_funcs.get('run_query') if m else None
    if not fs:
        raise AnalysisError('anchor vanished: query.run_query')
    fi = fs[-1]
    ENTRIES, OPTIONS, QUERY = Sym('ENTRIES'), Sym('OPTIONS'), Sym('QUERY')
    CONN, CURS, ROWS = Sym('CONNECTION'), Sym('CURSOR'), Sym('ROWS')
    DESC = T('attr', (CURS, 'description'))
    NDESC, NROWS = Sym('NUMBERIFIED_DESCRIPTION'), Sym('NUMBERIFIED_ROWS')
    DCTX = T('item', (OPTIONS, 'dcontext'))
    for numberify in (True, False):
        seen = {}

        def on_call(fn, fv, rc, args, kw, ex, node):
            name = str(fn)
            last = name.split('.')[-1]
            if last == 'connect':
                seen.setdefault('connect', []).append((args, dict(kw)))
                return CONN
            if rc == CONN and last == 'execute':
                seen.setdefault('execute', []).append(args)
                return CURS
            if rc == CURS and last == 'fetchall':
                return ROWS
            if last == 'format' and rc == QUERY:
                return T('call', ('QUERY.format', args, kw))
            if last == 'numberify_results':
                seen.setdefault('numberify', []).append((args, kw))
                return T('tuple', (NDESC, NROWS))
            return NotImplemented
        env = dict(zip(fi.params[:3], (ENTRIES, OPTIONS, QUERY)))
        env['numberify'] = numberify
        a = fi.node.args
        if a.vararg:
            env[a.vararg.arg] = T('tuple', ())
        n = 0
        good = True
        for p in Engine(P, on_call=on_call, max_depth=0).paths(fi, env):
            n += 1
            label = f'numberify={numberify}'
            if p.decisions or p.outcome != 'return':
                raise AnalysisError(f'{fi.fq}: {label}: {p.outcome}, undecided {[show(t)[:40] for t, _ in p.decisions]}')
            con = seen.get('connect', [])
            if len(con) != 1 or con[0][1].get('entries') != ENTRIES or con[0][1].get('options') != OPTIONS or len(seen.get('execute', [])) != 1:
                good = False
                res.fail(fi.fq, 'runquery:execute', f'{label}: the statement must be executed once on a connection over the given entries and '
                         f'options', loc(fi))
                continue
            # the text executed is query.format(*args) for every args, the empty tuple included: the documented contract is new-style
            # formatting, so `{{3}}` in the text given always means `{3}` in the statement
            ex_args = seen['execute'][0]
            if a.vararg and not (len(ex_args) >= 1 and isinstance(ex_args[0], T) and ex_args[0].op == 'call' and ex_args[0].args[0] == 'QUERY.format'
                                 and tuple(ex_args[0].args[1]) in ((), (T('star', (T('tuple', ()),)),))):
                good = False
                res.fail(fi.fq, 'runquery:format', f'{label}: called without formatting arguments run_query must still execute query.format(): '
                         f'doubled braces in the text (`[A-Z]{{{{3}}}}` in an account pattern) stand for single ones; it executes '
                         f'`{show(ex_args[0])[:60] if ex_args else "nothing"}`', loc(fi))
                continue
            if numberify:
                nb = seen.get('numberify', [])
                fmt = T('call', (f'{show(DCTX)}.build', (), ()))
                if len(nb) != 1 or nb[0][0][:2] != (DESC, ROWS):
                    good = False
                    res.fail(fi.fq, 'runquery:numberify', f'{label}: numberify_results must receive the description and rows of the result', loc(fi))
                elif len(nb[0][0]) + len(nb[0][1]) != 3 or (nb[0][0][2] if len(nb[0][0]) > 2 else dict(nb[0][1]).get('dformat')) != fmt:
                    got = nb[0][0][2] if len(nb[0][0]) > 2 else dict(nb[0][1]).get('dformat')
                    good = False
                    res.fail(fi.fq, 'runquery:precision', f'{label}: cells are quantized to the display precision of their currency: the '
                             f'formatter is options["dcontext"].build() with its default (most common) precision; found `{show(got)[:100]}`', loc(fi))
                elif p.value != T('tuple', (NDESC, NROWS)):
                    good = False
                    res.fail(fi.fq, 'runquery:result', f'{label}: the numberified description and rows must be returned; returns `{show(p.value)[:80]}`', loc(fi))
            else:
                if seen.get('numberify') or p.value != T('tuple', (DESC, ROWS)):
                    good = False
                    res.fail(fi.fq, 'runquery:result', f'{label}: the description and rows of the result must be returned unchanged; returns '
                             f'`{show(p.value)[:80]}`', loc(fi))
        if n == 0:
            raise AnalysisError(f'{fi.fq}: no path interpreted')
        if good:
            res.ok({'function': fi.fq, 'numberify': numberify, 'paths': n})
    return res
