"""R-LOOKUP (C04, C05): the overload-resolution primitives of beanquery.types behave as the registry model assumes:
`Any` equals every class and nothing else (not the `*` pseudo-type), `_bases` gives the strict linearisation, and
`function_lookup` returns the first overload along it, or None."""
from __future__ import annotations

from ..symex import Sym, T, SList, Engine, show, gname
from ..loader import AnalysisError, loc
from ..report import RuleResult

TY = 'beanquery.types'


def rule_lookup(P) -> RuleResult:
    res = RuleResult('R-LOOKUP')
    res.exhaustive = True
    m = P.module(TY)
    anyt = m.classes.get('AnyType')
    eq = anyt.methods.get('__eq__') if anyt else None
    if eq is None:
        raise AnalysisError('anchor vanished: types.AnyType.__eq__')
    # Any == other
    for other_is_class, label in ((True, 'a class (int, str, Inventory, object, ...)'), (False, 'the `*` pseudo-type (not a class)')):
        OTHER = Sym('OTHER')

        def on_isinstance(v, c, ex):
            if v == OTHER and gname(c) == 'type':
                return other_is_class
            return NotImplemented
        for p in Engine(P, on_isinstance=on_isinstance).paths(eq, {'self': Sym('ANY'), eq.params[1]: OTHER}):
            if p.decisions or p.outcome != 'return' or p.value is not other_is_class:
                res.fail(eq.fq, f'lookup:any:{"class" if other_is_class else "asterisk"}', f'`Any == other` with other {label} gives '
                         f'`{show(p.value)}`' + (f' under `{show(p.decisions[0][0])}`' if p.decisions else '') + f'; it must be {other_is_class}: '
                         + ('an `Any` parameter accepts every data type' if other_is_class else
                            'otherwise `*` is accepted by every function that takes any type (str(*), min(*), ...) and evaluates as NULL'), loc(eq))
            else:
                res.ok({'primitive': 'Any.__eq__', 'other': label, 'result': other_is_class})
    # the `*` pseudo-type is not a class: that is the only thing that keeps it out of `Any` parameters
    import ast as _ast
    ast_def = m.assigns.get('Asterisk')
    is_class = 'Asterisk' in m.classes or (isinstance(ast_def, _ast.Call) and _ast.unparse(ast_def.func) in ('type', 'types.new_class', 'new_class'))
    is_newtype = isinstance(ast_def, _ast.Call) and _ast.unparse(ast_def.func).split('.')[-1] == 'NewType'
    if is_class:
        res.fail(f'{TY}:Asterisk', 'lookup:any:asterisk', 'types.Asterisk is defined as a class: `Any == Asterisk` is then True and `*` is '
                 'accepted by every function that takes any type (str(*), min(*), first(*) ...) and evaluates as NULL', loc(eq))
    elif is_newtype:
        res.ok({'primitive': 'Asterisk', 'defined_as': 'typing.NewType: not a class, so Any does not equal it'})
    else:
        raise AnalysisError('types.Asterisk: definition not understood (neither a class nor a typing.NewType)')
    # _bases
    bases = m.toplevel_funcs.get('_bases')
    if not bases:
        raise AnalysisError('anchor vanished: types._bases')
    bf = bases[-1]
    NONE_T = T('global', ('NoneType',))
    cases = [
        ('NULL type', NONE_T, None, ('object',)),
        ('object (untyped)', Sym('object'), ('object',), ('object',)),
        ('a strict type int', Sym('int'), ('int', 'object'), ('int',)),
        ('bool (derives from int)', Sym('bool'), ('bool', 'int', 'object'), ('bool', 'int')),
        ('the `*` pseudo-type', Sym('Asterisk'), ('Asterisk',), ('Asterisk',)),
    ]
    for label, t, mro, want in cases:
        def on_attr(base, attr, ex):
            if base == t and attr == '__mro__' and mro is not None:
                return T('tuple', tuple(Sym(x) for x in mro))
            return NotImplemented
        for p in Engine(P, on_attr=on_attr, globals_={'object': Sym('object'), 'NoneType': NONE_T}).paths(bf, {bf.params[0]: t}):
            v = p.value
            got = tuple(x.name for x in v.args) if isinstance(v, T) and v.op == 'tuple' and all(isinstance(x, Sym) for x in v.args) else \
                tuple(x.name for x in v.items) if isinstance(v, SList) and all(isinstance(x, Sym) for x in v.items) else show(v)
            if p.decisions or got != want:
                res.fail(bf.fq, f'lookup:bases:{label.split()[0]}', f'_bases({label}) gives {got}; overloads must be tried along {want} '
                         f'(the type, then its bases; `object` only for untyped values)', loc(bf))
            else:
                res.ok({'primitive': '_bases', 'type': label, 'linearisation': list(want)})
    # function_lookup: first overload along the product of the operands' linearisations
    fls = m.toplevel_funcs.get('function_lookup')
    if not fls:
        raise AnalysisError('anchor vanished: types.function_lookup')
    fl = fls[-1]
    F_INT, F_OBJ, F_BOOLSTR = Sym('F[int]'), Sym('F[object]'), Sym('F[bool,str]')
    INTYPES = {F_INT: [Sym('int')], F_OBJ: [Sym('object')], F_BOOLSTR: [Sym('bool'), Sym('str')]}
    MRO = {'bool': ('bool', 'int'), 'int': ('int',), 'str': ('str',), 'object': ('object',), 'date': ('date',)}
    lookups = [
        ('f(bool) with overloads f(object), f(int)', [F_OBJ, F_INT], ['bool'], F_INT),
        ('f(int) with overloads f(object), f(int)', [F_OBJ, F_INT], ['int'], F_INT),
        ('f(date) with overloads f(object), f(int)', [F_OBJ, F_INT], ['date'], None),
        ('f(object) with overloads f(int), f(object)', [F_INT, F_OBJ], ['object'], F_OBJ),
        ('f(bool, str) with overloads f(int), f(bool, str)', [F_INT, F_BOOLSTR], ['bool', 'str'], F_BOOLSTR),
        ('f(int, str) with overloads f(int), f(bool, str)', [F_INT, F_BOOLSTR], ['int', 'str'], None),
    ]
    for label, overloads, optypes, want in lookups:
        OPS = [Sym(f'OPERAND{i}') for i in range(len(optypes))]

        def on_attr(base, attr, ex):
            if base in OPS and attr == 'dtype':
                return Sym(optypes[OPS.index(base)])
            if base in INTYPES and attr == '__intypes__':
                return SList(list(INTYPES[base]))
            return NotImplemented

        def on_call(fname, fval, recv, args, kwargs, ex, node):
            f = str(fname).split('.')[-1]
            if f == '_bases' and len(args) == 1 and isinstance(args[0], Sym):
                return T('tuple', tuple(Sym(x) for x in MRO[args[0].name]))
            if f == 'product':
                import itertools
                seqs = [ex.iterate(a) for a in args]
                if all(s is not None for s in seqs):
                    return SList([T('tuple', tuple(c)) for c in itertools.product(*seqs)])
            return NotImplemented

        def on_item(base, idx, ex):
            if base == Sym('FUNCTIONS') and idx == 'f':
                return SList(list(overloads))
            return NotImplemented

        def oracle(term, ex):
            # intypes == list(signature): structural equality of two enumerated sequences of type symbols
            if isinstance(term, T) and term.op == 'cmp' and term.args[0] in ('==', '!='):
                a, b = (ex.iterate(x) if not isinstance(x, list) else x for x in term.args[1:3])
                a = a if a is not None else (ex.iterate(term.args[1].args[1][0]) if isinstance(term.args[1], T) and term.args[1].op == 'call' else None)
                b = b if b is not None else (ex.iterate(term.args[2].args[1][0]) if isinstance(term.args[2], T) and term.args[2].op == 'call' else None)
                if a is not None and b is not None:
                    return (list(a) == list(b)) == (term.args[0] == '==')
            return None
        for p in Engine(P, on_attr=on_attr, on_call=on_call, on_item=on_item, oracle=oracle).paths(
                fl, {fl.params[0]: Sym('FUNCTIONS'), fl.params[1]: 'f', fl.params[2]: SList(list(OPS))}):
            if p.decisions or p.outcome != 'return' or p.value != want:
                res.fail(fl.fq, 'lookup:resolution', f'{label}: function_lookup gives `{show(p.value)}`'
                         + (f' under `{show(p.decisions[0][0])[:60]}`' if p.decisions else '') + f'; the registry model (and every type rule built '
                         f'on it) assumes `{show(want)}`: the first overload along the linearisation of the operand types, else None', loc(fl))
            else:
                res.ok({'primitive': 'function_lookup', 'case': label, 'result': show(want)})
    return res
