"""R-BINFLOOR (C18): date_bin(stride, source, origin) returns the start of the stride-aligned bin that contains the source:
start <= source < start + stride, start = origin + k * stride.

Two abstract interpretations of the function, neither of which evaluates a date:

* month / year strides (search loops): the function is interpreted over terms with the loops unrolled; for every returning
  path the comparisons taken along it must entail `result <= source` and `source < result + stride`, where terms are read as
  origin + k * stride (an order-entailment over the finite set of comparisons of the path, no solver);
* strides in days (arithmetic): with D = source - origin and S = the stride in seconds (> 0) the straight-line arithmetic is
  interpreted exactly over linear forms in D, S and S * floor(D / S), separately for the five sign / divisibility cases of D
  (D > 0 or D < 0, multiple of S or not, D = 0), in which `%`, `//`, `int()`, `floor()`, `ceil()` are exact; the offset added
  to the origin must be the form S * floor(D / S) in every case.
"""
from __future__ import annotations

import ast
from fractions import Fraction

from ..symex import Sym, T, Engine, show
from ..loader import AnalysisError, loc
from ..report import RuleResult

QE = 'beanquery.query_env'
STRIDE, SOURCE, ORIGIN = Sym('stride'), Sym('source'), Sym('origin')


# ---------------------------------------------------------------------- month / year strides
def _lin(t):
    """term -> (base term, k) reading `x + stride` / `x - stride` chains as base + k * stride; None if not of that form"""
    k = 0
    while isinstance(t, T) and t.op == 'bin' and t.args[0] in ('+', '-') and (t.args[2] == STRIDE or (t.args[1] == STRIDE and t.args[0] == '+')):
        if t.args[2] == STRIDE:
            k += 1 if t.args[0] == '+' else -1
            t = t.args[1]
        else:
            k += 1
            t = t.args[2]
    return (t, k)


def _facts(decisions):
    """[(a, b, strict)] meaning a < b (strict) or a <= b, over linear readings"""
    out = []
    for t, outcome in decisions:
        if not (isinstance(t, T) and t.op == 'cmp' and t.args[0] in ('<', '<=', '>', '>=')):
            continue
        op, a, b = t.args
        if op in ('>', '>='):
            a, b = b, a
            op = '<' if op == '>' else '<='
        # now a op b
        if outcome:
            out.append((_lin(a), _lin(b), op == '<'))
        else:
            # not (a < b) -> b <= a ; not (a <= b) -> b < a
            out.append((_lin(b), _lin(a), op == '<='))
    return out


def _entails(facts, a, b, strict):
    """a < b / a <= b from one fact, allowing equal shifts of both sides by multiples of the stride"""
    (ba, ka), (bb, kb) = a, b
    if not strict and ba == bb and ka == kb:
        return True
    for (fa, fka), (fb, fkb), fstrict in facts:
        if fa == ba and fb == bb and (fka - ka) == (fkb - kb) and (fstrict or not strict):
            return True
    return False


def _month_cases(P, fi, res):
    n_paths = 0
    ok = True
    for forward in (True, False):
        def oracle(term, ex):
            if isinstance(term, T) and term.op == 'attr' and term.args[0] == STRIDE and term.args[1] in ('months', 'years'):
                return term.args[1] == 'months'
            if isinstance(term, T) and term.op == 'cmp' and {repr(term.args[1]), repr(term.args[2])} == {repr(ORIGIN), repr(T('bin', ('+', ORIGIN, STRIDE)))}:
                # origin + stride <= origin: the stride is positive
                op, a, b = term.args
                return {'<=': a == ORIGIN, '<': a == ORIGIN, '>=': a != ORIGIN, '>': a != ORIGIN}[op]
            if isinstance(term, T) and term.op == 'cmp' and {repr(term.args[1]), repr(term.args[2])} == {repr(SOURCE), repr(ORIGIN)}:
                op, a, b = term.args
                # forward: source >= origin (the equal case belongs to the forward search)
                ge = forward
                if a == SOURCE:
                    return {'>=': ge, '>': ge, '<': not ge, '<=': not ge}[op] if op in ('>=', '<') else None
                return {'<=': ge, '<': ge, '>': not ge, '>=': not ge}[op] if op in ('<=', '>') else None
            return None
        eng = Engine(P, oracle=oracle, max_unroll=3)
        for p in eng.paths(fi, {fi.params[0]: STRIDE, fi.params[1]: SOURCE, fi.params[2]: ORIGIN}):
            if p.outcome != 'return' or any(e[0] == 'loop-cut' for e in p.events):
                continue
            n_paths += 1
            facts = _facts(p.decisions)
            facts.append(((ORIGIN, 0), (SOURCE, 0), False) if forward else ((SOURCE, 0), (ORIGIN, 0), True))
            r = _lin(p.value)
            lower = _entails(facts, r, (SOURCE, 0), False)
            upper = _entails(facts, (SOURCE, 0), (r[0], r[1] + 1), True)
            if not (lower and upper):
                ok = False
                known = '; '.join(f'{show(a[0])}{a[1]:+d}s {"<" if s else "<="} {show(b[0])}{b[1]:+d}s' for a, b, s in facts)
                res.fail(f'function:date_bin(month stride)', 'binfloor:months',
                         f'date_bin with a month/year stride, source {"on or after" if forward else "before"} the origin: the path returning '
                         f'`{show(p.value)}` does not establish ' + ('`result <= source`' if not lower else '`source < result + stride`')
                         + f' (known along the path, s = stride: {known}): a source that falls exactly on a bin boundary is put into the '
                         f'neighbouring bin', loc(fi))
                break
        if not ok:
            break
    if ok and n_paths >= 4:
        res.ok({'function': 'date_bin', 'stride': 'months / years', 'returning_paths': n_paths,
                'entailed': 'result <= source < result + stride on every path'})
    elif ok:
        raise AnalysisError(f'{fi.fq}: only {n_paths} returning paths found in the month-stride search loops')


# ---------------------------------------------------------------------- day strides: exact case analysis over linear forms
CASES = (('D > 0, a multiple of the stride', 1, True), ('D > 0, not a multiple', 1, False), ('D = 0', 0, True),
         ('D < 0, a multiple of the stride', -1, True), ('D < 0, not a multiple', -1, False))


class Form:
    """aD * D + aZ * (S * floor(D / S)) + aS * S + a1   (seconds)  or, dimensionless,  bZ * floor(D / S) + b1."""

    def __init__(self, kind, d=0, z=0, s=0, one=0):
        self.kind, self.d, self.z, self.s, self.one = kind, Fraction(d), Fraction(z), Fraction(s), Fraction(one)

    def __repr__(self):
        names = ('D', 'S*floor(D/S)', 'S', '1') if self.kind == 'sec' else ('q', 'floor(D/S)', '?', '1')
        parts = [f'{c}*{n}' if c != 1 else n for c, n in zip((self.d, self.z, self.s, self.one), names) if c]
        return ' + '.join(parts) or '0'

    def key(self):
        return (self.kind, self.d, self.z, self.s, self.one)


class Quot:
    """D / S as a real number: only int(), floor(), ceil() and // consume it"""


class DayMachine:
    def __init__(self, fi, case):
        self.fi = fi
        self.label, self.sign, self.integral = case
        self.env = {}
        self.offset = None      # accumulated seconds added to the origin in the returned date

    def fail(self, what):
        raise AnalysisError(f'{self.fi.fq}: day-stride arithmetic not understood: {what}')

    # sign of a form: -1, 0, 1 or None (unknown)
    def sgn(self, f):
        if isinstance(f, (int, Fraction)):
            return (f > 0) - (f < 0)
        if not isinstance(f, Form):
            return None
        if f.kind == 'num':
            if f.z == 0:
                return (f.one > 0) - (f.one < 0)
            return None
        if self.sign == 0:       # D = 0, Z = 0
            return (f.s > 0) - (f.s < 0) if f.one == 0 else None if f.s else (f.one > 0) - (f.one < 0)
        if f.z == 0 and f.s == 0 and f.one == 0:
            return self.sign * ((f.d > 0) - (f.d < 0))
        if f.one == 0 and f.d == -f.z:
            # S * (a * frac + c), frac = D/S - floor(D/S): 0 when D is a multiple of S, else anywhere in (0, 1)
            a, c = f.d, f.s
            if self.integral:
                return (c > 0) - (c < 0)
            lo, hi = min(c, a + c), max(c, a + c)      # the open interval (lo, hi)
            if lo >= 0:
                return 1 if hi > 0 else 0
            if hi <= 0:
                return -1
            return None
        if f.d == 0 and f.z == 0 and f.one == 0:
            return (f.s > 0) - (f.s < 0)
        return None

    def ev(self, e):
        if isinstance(e, ast.Constant) and isinstance(e.value, (int, float)):
            return Fraction(e.value)
        if isinstance(e, ast.Name):
            if e.id in self.env:
                return self.env[e.id]
            self.fail(f'unknown name {e.id}')
        if isinstance(e, ast.UnaryOp) and isinstance(e.op, ast.USub):
            return self.neg(self.ev(e.operand))
        if isinstance(e, ast.BinOp):
            l, r = self.ev(e.left), self.ev(e.right)
            return self.binop(type(e.op), l, r, e)
        if isinstance(e, ast.Call):
            f = ast.unparse(e.func)
            if f.endswith('total_seconds') and not e.args:
                v = self.ev(e.func.value)
                if v == 'DATEDIFF':
                    return Form('sec', d=1)
                self.fail(f'total_seconds() of {ast.unparse(e.func.value)}')
            if f in ('int', 'math.floor', 'math.ceil', 'math.trunc', 'floor', 'ceil') and len(e.args) == 1:
                v = self.ev(e.args[0])
                if isinstance(v, Quot):
                    kind = f.split('.')[-1]
                    if kind == 'floor':
                        return Form('num', z=1)
                    if kind == 'ceil':
                        return Form('num', z=1, one=0 if self.integral else 1)
                    # int / trunc: toward zero
                    if self.sign >= 0 or self.integral:
                        return Form('num', z=1)
                    return Form('num', z=1, one=1)
                if isinstance(v, Form) and v.kind == 'num':
                    return v
                self.fail(f'{f}() of {ast.unparse(e.args[0])}')
            if f.endswith('timedelta'):
                kw = {k.arg: self.ev(k.value) for k in e.keywords}
                if e.args or set(kw) - {'seconds', 'days'}:
                    self.fail(f'timedelta with {ast.unparse(e)}')
                out = Form('sec')
                for k, v in kw.items():
                    v = v if isinstance(v, Form) else Form('sec', one=v)
                    if v.kind != 'sec':
                        self.fail(f'timedelta({k}=) of a dimensionless number')
                    out = self.add(out, v if k == 'seconds' else self.scale(v, 86400))
                return ('TD', out)
            if f == 'divmod' and len(e.args) == 2:
                l, r = self.ev(e.args[0]), self.ev(e.args[1])
                return ('PAIR', self.binop(ast.FloorDiv, l, r, e), self.binop(ast.Mod, l, r, e))
            self.fail(f'call {ast.unparse(e)[:60]}')
        if isinstance(e, ast.Attribute):
            if isinstance(e.value, ast.Name) and self.env.get(e.value.id) == 'STRIDE':
                # a stride in days: no calendar units; its length S is carried by the `days` field
                if e.attr in ('months', 'years', 'hours', 'minutes', 'seconds', 'microseconds', 'weeks'):
                    return Fraction(0)
                if e.attr == 'days':
                    return Form('sec', s=Fraction(1, 86400))
            self.fail(f'attribute {ast.unparse(e)}')
        if isinstance(e, ast.BoolOp):
            v = None
            for x in e.values:
                v = self.ev(x)
                t = self.sgn(v)
                if t is None:
                    self.fail(f'truth of {ast.unparse(x)}')
                if isinstance(e.op, ast.Or) and t != 0:
                    return v
                if isinstance(e.op, ast.And) and t == 0:
                    return v
            return v
        self.fail(f'expression {ast.unparse(e)[:60]}')

    def neg(self, v):
        if isinstance(v, Fraction):
            return -v
        if isinstance(v, Form):
            return Form(v.kind, -v.d, -v.z, -v.s, -v.one)
        self.fail('negation')

    def add(self, a, b, sign=1):
        if isinstance(a, Fraction) and isinstance(b, Fraction):
            return a + sign * b
        if isinstance(a, Fraction):
            a = Form(b.kind, one=a)
        if isinstance(b, Fraction):
            b = Form(a.kind, one=b)
        if isinstance(a, Form) and isinstance(b, Form) and a.kind == b.kind:
            return Form(a.kind, a.d + sign * b.d, a.z + sign * b.z, a.s + sign * b.s, a.one + sign * b.one)
        self.fail('sum of incompatible quantities')

    def scale(self, v, c):
        if isinstance(v, Fraction):
            return v * c
        return Form(v.kind, v.d * c, v.z * c, v.s * c, v.one * c)

    def is_S(self, v):
        return isinstance(v, Form) and v.kind == 'sec' and v.key() == ('sec', 0, 0, 1, 0)

    def binop(self, op, l, r, e):
        if isinstance(l, tuple) and l[0] == 'DATE' and isinstance(r, tuple) and r[0] == 'DATE' and op is ast.Sub:
            if (l[1], r[1]) == ('source', 'origin') and l[2].key() == r[2].key() == ('sec', 0, 0, 0, 0):
                return 'DATEDIFF'
            self.fail('difference of dates other than source - origin')
        if isinstance(l, tuple) and l[0] == 'DATE' and isinstance(r, tuple) and r[0] == 'TD' and op in (ast.Add, ast.Sub):
            return ('DATE', l[1], self.add(l[2], r[1], 1 if op is ast.Add else -1))
        if isinstance(l, tuple) and l[0] == 'TD' and isinstance(r, tuple) and r[0] == 'DATE' and op is ast.Add:
            return ('DATE', r[1], self.add(r[2], l[1]))
        if isinstance(l, tuple) and l[0] == 'TD' and isinstance(r, tuple) and r[0] == 'TD' and op in (ast.Add, ast.Sub):
            return ('TD', self.add(l[1], r[1], 1 if op is ast.Add else -1))
        if isinstance(l, tuple) and l[0] == 'TD' and isinstance(r, (Fraction, Form)) and op is ast.Mult:
            return ('TD', self.binop(ast.Mult, l[1], r, e))
        if isinstance(r, tuple) and r[0] == 'TD' and isinstance(l, (Fraction, Form)) and op is ast.Mult:
            return ('TD', self.binop(ast.Mult, r[1], l, e))
        if op in (ast.Add, ast.Sub):
            return self.add(l, r, 1 if op is ast.Add else -1)
        if op is ast.Mult:
            if isinstance(l, Fraction) or isinstance(r, Fraction):
                return self.scale(r if isinstance(l, Fraction) else l, l if isinstance(l, Fraction) else r)
            for a, b in ((l, r), (r, l)):
                if isinstance(a, Form) and a.kind == 'num' and self.is_S(b):
                    return Form('sec', z=a.z, s=a.one)
            self.fail(f'product {ast.unparse(e)[:50]}')
        is_D = lambda v: isinstance(v, Form) and v.key() == ('sec', 1, 0, 0, 0)
        if op is ast.Mod and is_D(l) and self.is_S(r):
            return Form('sec', d=1, z=-1)
        if op is ast.FloorDiv and is_D(l) and self.is_S(r):
            return Form('num', z=1)
        if op is ast.Div and is_D(l) and self.is_S(r):
            return Quot()
        if op is ast.Div and isinstance(l, Form) and l.kind == 'sec' and self.is_S(r) and l.d == 0 and l.one == 0:
            return Form('num', z=l.z, one=l.s)
        self.fail(f'operation {ast.unparse(e)[:50]}')

    def test(self, t):
        if isinstance(t, ast.UnaryOp) and isinstance(t.op, ast.Not):
            return not self.test(t.operand)
        if isinstance(t, ast.BoolOp):
            vals = [self.test(v) for v in t.values]
            return all(vals) if isinstance(t.op, ast.And) else any(vals)
        if isinstance(t, ast.Compare) and len(t.ops) == 1:
            l, r = self.ev(t.left), self.ev(t.comparators[0])
            if isinstance(l, tuple) or isinstance(r, tuple):
                self.fail(f'comparison of dates {ast.unparse(t)}')
            s = self.sgn(self.add(l, r, -1))
            if s is None:
                self.fail(f'cannot decide `{ast.unparse(t)}` when {self.label}')
            return {ast.Lt: s < 0, ast.LtE: s <= 0, ast.Gt: s > 0, ast.GtE: s >= 0, ast.Eq: s == 0, ast.NotEq: s != 0}[type(t.ops[0])]
        v = self.ev(t)
        if isinstance(v, tuple):
            return True       # dates and timedeltas with a positive length
        s = self.sgn(v)
        if s is None:
            self.fail(f'cannot decide the truth of `{ast.unparse(t)}` when {self.label}')
        return s != 0

    def run(self, body):
        for st in body:
            if isinstance(st, ast.Assign) and len(st.targets) == 1:
                v = self.ev(st.value)
                tg = st.targets[0]
                if isinstance(tg, ast.Name):
                    self.env[tg.id] = v
                elif isinstance(tg, ast.Tuple) and isinstance(v, tuple) and v[0] == 'PAIR' and len(tg.elts) == 2:
                    self.env[tg.elts[0].id], self.env[tg.elts[1].id] = v[1], v[2]
                else:
                    self.fail(f'assignment {ast.unparse(st)[:50]}')
            elif isinstance(st, ast.AugAssign) and isinstance(st.target, ast.Name):
                self.env[st.target.id] = self.binop(type(st.op), self.ev(st.target), self.ev(st.value), st.value)
            elif isinstance(st, ast.If):
                r = self.run(st.body if self.test(st.test) else st.orelse)
                if r is not None:
                    return r
            elif isinstance(st, ast.Return):
                if st.value is None or (isinstance(st.value, ast.Constant) and st.value.value is None):
                    return ('NULL',)
                return ('RET', self.ev(st.value))
            elif isinstance(st, ast.Expr) and isinstance(st.value, ast.Constant):
                continue
            elif isinstance(st, ast.Pass):
                continue
            else:
                self.fail(f'statement {ast.unparse(st)[:60]}')
        return None


def _day_cases(P, fi, res):
    ok = True
    for case in CASES:
        m = DayMachine(fi, case)
        p_stride, p_source, p_origin = fi.params[:3]
        m.env[p_stride] = 'STRIDE'
        m.env[p_source] = ('DATE', 'source', Form('sec'))
        m.env[p_origin] = ('DATE', 'origin', Form('sec'))
        from ..loader import body_without_docstring
        r = m.run(body_without_docstring(fi.node))
        if r is None or r[0] != 'RET' or not (isinstance(r[1], tuple) and r[1][0] == 'DATE' and r[1][1] == 'origin'):
            ok = False
            res.fail('function:date_bin(day stride)', 'binfloor:days', f'date_bin with a stride in days, {case[0]} (D = source - origin): the '
                     f'function returns `{r[1] if r and len(r) > 1 else None}`, not the origin plus an offset', loc(fi))
            break
        off = r[1][2]
        if m.sign == 0:
            good = off.s == 0 and off.one == 0      # D = 0 and floor(D/S) = 0: nothing may remain
        else:
            good = off.key() == ('sec', 0, 1, 0, 0)
        if not good:
            ok = False
            res.fail('function:date_bin(day stride)', 'binfloor:days', f'date_bin with a stride in days, {case[0]} (D = source - origin, S = '
                     f'stride): the result is origin + ({off}); the start of the bin containing the source is origin + S*floor(D/S)', loc(fi))
            break
    if ok:
        res.ok({'function': 'date_bin', 'stride': 'days', 'cases': [c[0] for c in CASES], 'offset': 'S * floor(D / S) in every case'})


def rule_binfloor(P) -> RuleResult:
    res = RuleResult('R-BINFLOOR')
    res.exhaustive = True
    m = P.module(QE)
    fs = [f for f in m.toplevel_funcs.get('date_bin', []) if len(f.params) == 3]
    if not fs:
        raise AnalysisError('anchor vanished: query_env.date_bin')
    fi = fs[0]
    _month_cases(P, fi, res)
    _day_cases(P, fi, res)
    return res


# ---------------------------------------------------------------------- R-TRUNCLAW: date_trunc / date_part / quarter against the calendar
# Integer arithmetic over the fields of a date, normalised exactly: atoms y, m, d and F(var, a, p) = floor((var - a) / p), with
# (var - a) % p = (var - a) - p * F(var, a, p) and (var - a) // p = F(var, a, p).  The first day of a unit that starts at years
# (or months) congruent to a modulo p is a + p * F(var, a, p); the number of the unit is F(var, a, p) (+ 1 for one-based counts).

def _lf_add(a, b, sign=1):
    out = dict(a)
    for k, v in b.items():
        out[k] = out.get(k, 0) + sign * v
        if out[k] == 0:
            del out[k]
    return out


def _lf_scale(a, c):
    return {k: v * c for k, v in a.items() if v * c != 0}


def _lf(t, X):
    """term -> linear form {atom: coefficient} or None"""
    if type(t) is int:
        return {('1',): Fraction(t)} if t else {}
    if isinstance(t, T) and t.op == 'attr' and t.args[0] == X and t.args[1] in ('year', 'month', 'day'):
        return {(t.args[1][0],): Fraction(1)}
    if isinstance(t, T) and t.op == 'neg':
        a = _lf(t.args[0], X)
        return None if a is None else _lf_scale(a, -1)
    if isinstance(t, T) and t.op == 'bin':
        op, l, r = t.args
        a, b = _lf(l, X), _lf(r, X)
        if a is None or b is None:
            return None
        if op in ('+', '-'):
            return _lf_add(a, b, 1 if op == '+' else -1)
        const = lambda f: f.get(('1',), 0) if set(f) <= {('1',)} else None
        if op == '*':
            if const(a) is not None:
                return _lf_scale(b, const(a))
            if const(b) is not None:
                return _lf_scale(a, const(b))
            return None
        if op in ('%', '//') and const(b) is not None and const(b) > 0:
            p = const(b)
            vars_ = [k for k in a if k != ('1',)]
            if len(vars_) == 1 and a[vars_[0]] == 1 and len(vars_[0]) == 1 and p.denominator == 1:
                var = vars_[0][0]
                off = -a.get(('1',), 0)          # a = var - off
                atom = ('F', var, int(off), int(p))
                if op == '//':
                    return {atom: Fraction(1)}
                return _lf_add(a, {atom: Fraction(p)}, -1)
            return None
    return None


def _show_lf(f):
    if f is None:
        return 'not integer arithmetic over the date fields'
    names = {('y',): 'year', ('m',): 'month', ('d',): 'day', ('1',): '1'}
    parts = []
    for k, v in sorted(f.items(), key=repr):
        n = names.get(k) or f'floor(({ {"y": "year", "m": "month", "d": "day"}[k[1]] } - {k[2]}) / {k[3]})'
        parts.append(n if v == 1 and n != '1' else f'{v}' if n == '1' else f'{v}*{n}')
    return ' + '.join(parts) or '0'


def _F(var, a, p, coef=1, const=0):
    f = {('F', var, a, p): Fraction(coef)}
    if const:
        f[('1',)] = Fraction(const)
    return f


TRUNC_SPEC = {
    'month': ({('y',): 1}, {('m',): 1}, {('1',): 1}),
    'quarter': ({('y',): 1}, _F('m', 1, 3, 3, 1), {('1',): 1}),
    'year': ({('y',): 1}, {('1',): 1}, {('1',): 1}),
    'decade': (_F('y', 0, 10, 10), {('1',): 1}, {('1',): 1}),
    'century': (_F('y', 1, 100, 100, 1), {('1',): 1}, {('1',): 1}),
    'millennium': (_F('y', 1, 1000, 1000, 1), {('1',): 1}, {('1',): 1}),
}
PART_SPEC = {
    'year': {('y',): 1}, 'month': {('m',): 1}, 'quarter': _F('m', 1, 3, 1, 1), 'decade': _F('y', 0, 10),
    'century': _F('y', 1, 100, 1, 1), 'millennium': _F('y', 1, 1000, 1, 1),
}


def _norm(f):
    return {k: Fraction(v) for k, v in f.items() if v}


def rule_trunclaw(P) -> RuleResult:
    res = RuleResult('R-TRUNCLAW')
    res.exhaustive = True
    m = P.module(QE)
    X = Sym('DATE')
    tr = m.toplevel_funcs.get('date_trunc')
    pa = m.toplevel_funcs.get('date_part')
    qu = m.toplevel_funcs.get('quarter')
    if not tr or not pa:
        raise AnalysisError('anchor vanished: query_env.date_trunc / date_part')
    tr, pa = tr[-1], pa[-1]
    for unit, want in TRUNC_SPEC.items():
        construct = f'function:date_trunc[{unit}]'
        paths = Engine(P).paths(tr, {tr.params[0]: unit, tr.params[1]: X})
        if len(paths) != 1 or paths[0].decisions:
            raise AnalysisError(f'{tr.fq}: the branch for unit {unit!r} is not selected by comparisons with constants')
        v = paths[0].value
        got = None
        if isinstance(v, T) and v.op == 'call' and str(v.args[0]).split('.')[-1] == 'date' and len(v.args[1]) == 3 and not v.args[2]:
            got = tuple(_lf(a, X) for a in v.args[1])
        elif isinstance(v, T) and v.op == 'call' and str(v.args[0]).endswith('.replace') and str(v.args[0]).startswith('DATE.'):
            kw = dict(v.args[2])
            got = tuple(_lf(kw[k], X) if k in kw else {(k[0],): Fraction(1)} for k in ('year', 'month', 'day'))
        if got is None or any(g is None for g in got) or tuple(_norm(g) for g in got) != tuple(_norm(w) for w in want):
            shown = ', '.join(_show_lf(g) for g in got) if got else show(v)[:100]
            res.fail(construct, f'trunclaw:trunc:{unit}', f"date_trunc('{unit}', d) must be the first day of d's {unit}: "
                     f'date({", ".join(_show_lf(_norm(w)) for w in want)}); the implementation gives date({shown})', loc(tr))
        else:
            res.ok({'function': 'date_trunc', 'unit': unit, 'value': f'date({", ".join(_show_lf(_norm(w)) for w in want)})'})
    # week: the Monday on or before d
    paths = Engine(P).paths(tr, {tr.params[0]: 'week', tr.params[1]: X})
    v = paths[0].value if len(paths) == 1 else None
    monday_rd = isinstance(v, T) and v.op == 'bin' and v.args[0] == '-' and v.args[1] == X and isinstance(v.args[2], T) and v.args[2].op == 'call' \
        and str(v.args[2].args[0]).endswith('relativedelta') and dict(v.args[2].args[2]).get('weekday') == T('call', ('weekday', (0, -1), ()))
    monday_td = isinstance(v, T) and v.op == 'bin' and v.args[0] == '-' and v.args[1] == X and isinstance(v.args[2], T) and v.args[2].op == 'call' \
        and str(v.args[2].args[0]).endswith('timedelta') and dict(v.args[2].args[2]).get('days') == T('call', ('DATE.weekday', (), ()))
    if monday_rd or monday_td:
        res.ok({'function': 'date_trunc', 'unit': 'week', 'value': 'the Monday on or before d'})
    else:
        res.fail('function:date_trunc[week]', 'trunclaw:trunc:week', f"date_trunc('week', d) must be the Monday on or before d (d - "
                 f"relativedelta(weekday=MO(-1)) or d - timedelta(days=d.weekday())); the implementation gives `{show(v)[:100]}`", loc(tr))
    for unit, want in PART_SPEC.items():
        paths = Engine(P).paths(pa, {pa.params[0]: unit, pa.params[1]: X})
        if len(paths) != 1 or paths[0].decisions:
            raise AnalysisError(f'{pa.fq}: the branch for unit {unit!r} is not selected by comparisons with constants')
        got = _lf(paths[0].value, X)
        if got is None or _norm(got) != _norm(want):
            res.fail(f'function:date_part[{unit}]', f'trunclaw:part:{unit}', f"date_part('{unit}', d) must be {_show_lf(_norm(want))}; the "
                     f'implementation gives {_show_lf(got) if got is not None else show(paths[0].value)[:80]}', loc(pa))
        else:
            res.ok({'function': 'date_part', 'unit': unit, 'value': _show_lf(_norm(want))})
    # the units that are fields of the ISO calendar / the weekday: the calendar method of the date, nothing else
    iso = T('call', ('DATE.isocalendar', (), ()))
    CAL_SPEC = {
        'weekday': [T('call', ('DATE.weekday', (), ()))], 'dow': [T('call', ('DATE.weekday', (), ()))],
        'isoweekday': [T('call', ('DATE.isoweekday', (), ())), T('item', (iso, 2)), T('attr', (iso, 'weekday'))],
        'isodow': [T('call', ('DATE.isoweekday', (), ())), T('item', (iso, 2)), T('attr', (iso, 'weekday'))],
        'week': [T('item', (iso, 1)), T('attr', (iso, 'week'))],
        'isoyear': [T('item', (iso, 0)), T('attr', (iso, 'year'))],
    }
    for unit, accepted in CAL_SPEC.items():
        paths = Engine(P).paths(pa, {pa.params[0]: unit, pa.params[1]: X})
        if len(paths) != 1 or paths[0].decisions:
            raise AnalysisError(f'{pa.fq}: the branch for unit {unit!r} is not selected by comparisons with constants')
        if paths[0].value in accepted:
            res.ok({'function': 'date_part', 'unit': unit, 'value': show(accepted[0])})
        else:
            res.fail(f'function:date_part[{unit}]', f'trunclaw:part:{unit}', f"date_part('{unit}', d) must be {show(accepted[0])} (the "
                     f'{"ISO week-numbering year, which differs from the calendar year around New Year" if unit == "isoyear" else "calendar field of that name"}); '
                     f'the implementation gives `{show(paths[0].value)[:80]}`', loc(pa))
    if qu:
        q = qu[-1]
        for p in Engine(P).paths(q, {q.params[0]: X}):
            v = p.value
            # 'YYYY-Qn': the year and the one-based quarter, formatted
            vals = [x.args[0] if isinstance(x, T) and x.op == 'fmt' else x for x in (v.args if isinstance(v, T) and v.op == 'fstr' else ())
                    if not isinstance(x, str)]
            lits = [x for x in (v.args if isinstance(v, T) and v.op == 'fstr' else ()) if isinstance(x, str)]
            got = [_lf(x, X) for x in vals]
            if len(got) == 2 and None not in got and _norm(got[0]) == {('y',): 1} and _norm(got[1]) == _norm(PART_SPEC['quarter']) and lits == ['-Q']:
                res.ok({'function': 'quarter', 'value': f"year '-Q' {_show_lf(_norm(PART_SPEC['quarter']))}"})
            else:
                res.fail('function:quarter', 'trunclaw:quarter', f"quarter(d) must be '<year>-Q<{_show_lf(_norm(PART_SPEC['quarter']))}>'; the "
                         f'implementation gives `{show(v)[:100]}`', loc(q))
    return res
