"""R-GUARDS and R-TARGETCHK on the term interpreter.

Every acceptance rule of the compiler is decided by interpreting the handler on an input that violates the rule (it must end
in a ProgrammingError: CompilationError) and on one that satisfies it (it must not).  Expression trees are small abstract
trees of opaque nodes (aggregate / column / operator / constant) whose children the hooks enumerate; where the check lives -
in the handler, in a helper, as a guard clause or a nested if - does not matter."""
from __future__ import annotations

from ..symex import Sym, T, SList, Engine, Raise, show, gname
from ..loader import AnalysisError, loc, ClassInfo
from ..report import RuleResult

CO = 'beanquery.compiler'
SELF = Sym('COMPILER')


def _method(P, name):
    return P.func(CO, f'Compiler.{name}')


def _attr(b, n):
    return T('attr', (b, n))


# ---------------------------------------------------------------------- abstract expression trees
class Trees:
    def __init__(self):
        self.kind = {}
        self.children = {}

    def node(self, name, kind, *children):
        s = Sym(name)
        self.kind[s] = kind
        self.children[s] = list(children)
        return s

    def isinstance_(self, v, c):
        if v not in self.kind:
            return NotImplemented
        if isinstance(c, T) and c.op == 'tuple':
            return any(self.isinstance_(v, x) is True for x in c.args)
        cn = gname(c).split('.')[-1]
        k = self.kind[v]
        return {'EvalAggregator': k == 'agg', 'EvalColumn': k == 'col', 'EvalConstant': k == 'const', 'EvalQuery': False,
                'EvalGetter': k == 'getter', 'EvalGetItem': k == 'getitem', 'EvalNode': True}.get(cn, False)

    def call(self, fname, recv):
        if recv in self.kind and str(fname).endswith('.childnodes'):
            return SList(list(self.children[recv]))
        return NotImplemented


def standard_trees():
    t = Trees()
    col = lambda n: t.node(n, 'col')
    out = {
        'a plain column expression': (t.node('OP_plain', 'op', col('COL1'), t.node('CONST1', 'const')), None),
        'an aggregate': (t.node('AGG_simple', 'agg', col('COL2')), None),
        'an expression over aggregates only': (t.node('OP_aggs', 'op', t.node('AGG_a', 'agg', col('COL3')), t.node('AGG_b', 'agg', col('COL4'))), None),
        'a constant': (t.node('CONST2', 'const'), None),
        'a column mixed with an aggregate': (t.node('OP_mixed', 'op', col('COL5'), t.node('AGG_m', 'agg', col('COL6'))), 'mixed'),
        'an aggregate of an aggregate': (t.node('AGG_outer', 'agg', t.node('AGG_inner', 'agg', col('COL7'))), 'nested'),
        'an aggregate of an expression over an aggregate': (t.node('AGG_outer2', 'agg', t.node('OP_between', 'op', t.node('AGG_inner2', 'agg', col('COL8')))), 'nested'),
    }
    return t, out


def _is_programming_error(P, name):
    m = P.module(CO)
    import ast
    d = m.dotted(ast.Name(id=name.split('.')[-1], ctx=ast.Load()))
    tgt = P.lookup(d) if d else None
    return isinstance(tgt, ClassInfo) and P.is_subclass(tgt, 'beanquery.errors:ProgrammingError')


class Judge:
    def __init__(self, P, res):
        self.P, self.res = P, res

    def run(self, gid, clause, fi, paths, must_reject, what):
        construct = f'{CO}:{fi.qualname}:guard[{gid}]'
        ok = True
        for p in paths:
            if any(e[0] == 'loop-cut' for e in p.events):
                continue
            rejected = p.outcome == 'raise'
            if rejected and not _is_programming_error(self.P, p.value[0]):
                if must_reject:
                    self.res.fail(construct, 'guards:class', f'"{clause}": {what} is rejected with {p.value[0]}, not a ProgrammingError', loc(fi))
                else:
                    self.res.fail(construct, 'guards:rejects-valid', f'"{clause}": {what} raises {p.value[0]}', loc(fi))
                ok = False
            elif rejected and len(p.value[1]) > 1 and isinstance(p.value[1][1], (int, str, bool)):
                # CompilationError(message, node): the second argument is the syntax node the error is located at (its parse info
                # is read); a position number or a name is not a node
                self.res.fail(construct, 'guards:location', f'"{clause}": {what} is rejected, but the error is located at `{p.value[1][1]!r}`, '
                              f'which is not a syntax node: building the CompilationError fails with AttributeError', loc(fi))
                ok = False
            elif must_reject and not rejected:
                self.res.fail(construct, 'guards:missing', f'acceptance rule "{clause}" is not enforced: {what} is accepted '
                              f'(`{show(p.value)[:60]}`); it must be rejected with a CompilationError', loc(fi))
                ok = False
            elif not must_reject and rejected:
                self.res.fail(construct, 'guards:rejects-valid', f'"{clause}": {what} is rejected ({p.value[0]}), although the statement is valid',
                              loc(fi))
                ok = False
        return ok


def rule_guards(P) -> RuleResult:
    res = RuleResult('R-GUARDS')
    res.exhaustive = True
    J = Judge(P, res)
    trees, cases = standard_trees()
    n_ok = 0

    def done(gid, clause, ok):
        nonlocal n_ok
        if ok:
            n_ok += 1
            res.ok({'guard': gid, 'clause': clause, 'decided_on': 'a violating and a satisfying input'})

    # ---- mixed / nested aggregates: _check_aggregates on the standard trees
    fi = _method(P, '_check_aggregates')
    okm = okn = True
    for label, (root, bad) in cases.items():
        eng = Engine(P, on_isinstance=lambda v, c, ex: trees.isinstance_(v, c), on_call=lambda fn, fv, rc, a, k, ex, nd: trees.call(fn, rc), max_depth=16)
        paths = eng.paths(fi, {'self': SELF, fi.params[1]: root})
        if bad == 'mixed' or bad is None:
            okm &= J.run('mixed-aggregates', 'no expression mixing aggregates and columns', fi, paths, bad == 'mixed', label)
        if bad == 'nested' or bad is None:
            okn &= J.run('nested-aggregates', 'no aggregate of an aggregate', fi, paths, bad == 'nested', label)
    done('mixed-aggregates', 'no expression mixing aggregates and columns', okm)
    done('nested-aggregates', 'no aggregate of an aggregate', okn)

    # ---- resolution failures in the expression handlers
    NODE = Sym('AST_NODE')
    OPND = Sym('C_OPERAND')

    def handler_case(gid, clause, meth, fails, what_bad, what_good, extra_attr=None, extra_call=None, extra_item=None, extra_isinst=None, oracle=None):
        fi = _method(P, meth)
        ok = True
        for bad in (True, False):
            def on_attr(base, attr, ex, _b=bad):
                if extra_attr is not None:
                    r = extra_attr(base, attr, _b)
                    if r is not NotImplemented:
                        return r
                if base == OPND and attr == 'dtype':
                    return Sym('DTYPE')
                return NotImplemented

            def on_call(fn, fv, rc, a, k, ex, nd, _b=bad):
                f = str(fn).split('.')[-1]
                if extra_call is not None:
                    r = extra_call(str(fn), f, fv, rc, a, k, _b)
                    if r is not NotImplemented:
                        return r
                if f == '_compile':
                    return OPND
                if f == 'type':
                    return Sym('NODETYPE')
                return NotImplemented

            def on_item(base, idx, ex, _b=bad):
                if extra_item is not None:
                    return extra_item(base, idx, _b)
                return NotImplemented

            def on_isinstance(v, c, ex, _b=bad):
                if extra_isinst is not None:
                    return extra_isinst(v, c, _b)
                return False
            orc = (lambda term, ex, _b=bad: oracle(term, _b)) if oracle else None
            paths = Engine(P, on_attr=on_attr, on_call=on_call, on_item=on_item, on_isinstance=on_isinstance, oracle=orc,
                           globals_={'OPERATORS': T('global', ('OPERATORS',)), 'FUNCTIONS': T('global', ('FUNCTIONS',))}).paths(
                fi, {'self': SELF, fi.params[1]: NODE})
            ok &= J.run(gid, clause, fi, paths, bad, what_bad if bad else what_good)
        done(gid, clause, ok)

    handler_case('unknown-column', 'column name resolves', '_column', True, 'a name that is not a column of the table', 'a column of the table',
                 extra_call=lambda full, f, fv, rc, a, k, b: (None if b else Sym('COLUMN')) if full.endswith('columns.get') else NotImplemented)
    handler_case('not-subscriptable', 'subscriptable operand', '_subscript', True, 'a subscript on a value that is not a dict', 'a subscript on a dict',
                 extra_call=lambda full, f, fv, rc, a, k, b: (not b) if f == 'issubclass' else T('new', ('EvalGetItem', a)) if f == 'EvalGetItem' else NotImplemented)
    handler_case('not-structured', 'structured operand', '_attribute', True, 'an attribute of a value that is not structured', 'an attribute of a structured value',
                 extra_call=lambda full, f, fv, rc, a, k, b: (not b) if f == 'issubclass' else Sym('GETTER') if full.endswith('columns.get') else
                 Sym('DTYPE') if full.endswith('ALIASES.get') else T('new', ('EvalGetter', a)) if f == 'EvalGetter' else NotImplemented)
    handler_case('unknown-attribute', 'attribute resolves', '_attribute', True, 'an attribute the structured type does not have', 'an attribute of the structured type',
                 extra_call=lambda full, f, fv, rc, a, k, b: True if f == 'issubclass' else (None if b else Sym('GETTER')) if full.endswith('columns.get') else
                 Sym('DTYPE') if full.endswith('ALIASES.get') else T('new', ('EvalGetter', a)) if f == 'EvalGetter' else NotImplemented)
    handler_case('unknown-unaryop', 'unary operator overload resolves', '_unaryop', True, 'a unary operator without an overload for the operand type',
                 'a unary operator with an overload',
                 extra_call=lambda full, f, fv, rc, a, k, b: (None if b else Sym('OVERLOAD')) if f == 'function_lookup' else
                 T('new', ('EVALUATOR',)) if fv == Sym('OVERLOAD') else 'x' if f in ('name', 'lower') else NotImplemented)
    handler_case('unknown-function', 'function overload resolves', '_function', True, 'a function call without a matching overload', 'a function call with an overload',
                 extra_attr=lambda base, attr, b: 'some_function' if (base, attr) == (NODE, 'fname') else SList([Sym('AST_ARG')]) if (base, attr) == (NODE, 'operands') else
                 False if attr == 'pure' else NotImplemented,
                 extra_call=lambda full, f, fv, rc, a, k, b: (None if b else Sym('OVERLOAD')) if f == 'function_lookup' else
                 T('new', ('EVALUATOR',)) if fv == Sym('OVERLOAD') else 'x' if f in ('join', 'lower', 'format') else NotImplemented)
    # the metadata accessors are rewritten into subscripts; their signature (exactly one key) is checked like any other function's
    for special in ('meta', 'entry_meta', 'any_meta'):
        for nargs in (0, 2):
            handler_case(f'signature-{special}-{nargs}', f'{special}() takes exactly one key', '_function', True,
                         f'{special}() called with {nargs} arguments (no overload matches)', f'{special}(key)',
                         extra_attr=lambda base, attr, b, _s=special, _n=nargs: _s if (base, attr) == (NODE, 'fname') else
                         SList([Sym(f'AST_ARG{i}') for i in range(_n if b else 1)]) if (base, attr) == (NODE, 'operands') else
                         None if (base, attr) == (NODE, 'parseinfo') else False if attr == 'pure' else NotImplemented,
                         extra_call=lambda full, f, fv, rc, a, k, b: (None if b else Sym('OVERLOAD')) if f == 'function_lookup' else
                         T('new', ('EVALUATOR',)) if fv == Sym('OVERLOAD') else 'x' if f in ('join', 'lower', 'format') else
                         T('new', (f, tuple(a))) if f in ('Function', 'Column', 'Attribute') else NotImplemented)
    CAND = Sym('CANDIDATE')
    handler_case('unknown-between', 'BETWEEN overload resolves', '_between', True, 'BETWEEN on operand types without an overload', 'BETWEEN with an overload',
                 extra_item=lambda base, idx, b: SList([CAND]) if isinstance(base, T) and base.op == 'global' and base.args[0].endswith('OPERATORS') else NotImplemented,
                 extra_call=lambda full, f, fv, rc, a, k, b: T('new', ('EVALUATOR',)) if fv == CAND else 'x' if f in ('name', 'lower') else NotImplemented,
                 oracle=lambda term, b: (not b) if isinstance(term, T) and term.op == 'cmp' and term.args[0] == '==' and isinstance(term.args[2], SList) else
                 b if isinstance(term, T) and term.op == 'cmp' and term.args[0] == '!=' and isinstance(term.args[2], SList) else None)

    # ---- SELECT level: aggregates in WHERE, coverage of non-aggregates by GROUP BY
    fi = _method(P, '_compile_select')
    SEL = Sym('SELECT_NODE')
    T1, T2 = Sym('TARGET_plain'), Sym('TARGET_aggregate')

    def select_paths(where_aggregate, group_indexes):
        def on_attr(base, attr, ex):
            if base == T1 and attr == 'is_aggregate':
                return False
            if base == T2 and attr == 'is_aggregate':
                return True
            if base in (T1, T2) and attr == 'name':
                return 'x'
            return NotImplemented

        def on_call(fn, fv, rc, a, k, ex, nd):
            f = str(fn).split('.')[-1]
            if f == '_compile_from':
                return None
            if f == '_compile_targets':
                return SList([T1, T2])
            if f == '_compile':
                return Sym('C_WHERE')
            if f == 'is_aggregate':
                return where_aggregate
            if f == '_compile_group_by':
                return T('tuple', (SList(), None if group_indexes is None else SList(list(group_indexes)), None))
            if f == '_compile_order_by':
                return T('tuple', (SList(), None))
            if f == '_compile_pivot_by':
                return None
            if f == 'EvalQuery':
                return T('new', ('EvalQuery', a))
            if f in ('format', 'join'):
                return 'x'
            return NotImplemented
        return Engine(P, on_attr=on_attr, on_call=on_call).paths(fi, {'self': SELF, fi.params[1]: SEL})
    ok = J.run('where-aggregate', 'no aggregate in WHERE', fi, select_paths(True, None), True, 'a WHERE condition that is an aggregate')
    ok &= J.run('where-aggregate', 'no aggregate in WHERE', fi, select_paths(False, None), False, 'a WHERE condition without aggregates')
    done('where-aggregate', 'no aggregate in WHERE', ok)
    ok = J.run('coverage', 'every non-aggregate target covered by GROUP BY', fi, select_paths(False, []), True,
               'an aggregate query with a plain target that GROUP BY does not cover')
    ok &= J.run('coverage', 'every non-aggregate target covered by GROUP BY', fi, select_paths(False, [0]), False,
                'an aggregate query whose plain target is grouped')
    done('coverage', 'every non-aggregate target covered by GROUP BY', ok)

    # ---- GROUP BY / HAVING
    fi = _method(P, '_compile_group_by')
    GB = Sym('GROUP_BY')

    def group_paths(column, *, new_is_agg=False, target_is_agg=False, hashable=True, having=None, having_is_agg=True):
        tg = [Sym('TARGET0'), Sym('TARGET1')]
        CE = {tg[0]: Sym('EXPR0'), tg[1]: Sym('EXPR1')}
        NEW, HAV = Sym('C_NEW_EXPR'), Sym('C_HAVING')

        def on_attr(base, attr, ex):
            if base == GB and attr == 'columns':
                return SList([column])
            if base == GB and attr == 'having':
                return having
            if base in CE and attr == 'c_expr':
                return CE[base]
            if base in CE and attr == 'name':
                return 'abc'[tg.index(base)]
            if base in CE and attr == 'is_aggregate':
                return False
            if attr == 'dtype':
                return Sym('DTYPE')
            return NotImplemented

        def on_isinstance(v, c, ex):
            cn = gname(c)
            if cn.endswith('int'):
                return type(v) is int
            return False

        def on_call(fn, fv, rc, a, k, ex, nd):
            f = str(fn).split('.')[-1]
            if f == '_compile':
                return HAV if a and a[0] == having and having is not None else NEW
            if f == 'is_aggregate':
                x = a[0] if a else None
                return new_is_agg if x == NEW else having_is_agg if x == HAV else target_is_agg if x in CE.values() else False
            if f == '_check_aggregates':
                return None
            if f == 'issubclass':
                return hashable
            if f == 'index' and isinstance(rc, SList):
                raise Raise('ValueError', ())
            if f == 'EvalTarget':
                return T('new', ('EvalTarget', a))
            return NotImplemented
        return Engine(P, on_attr=on_attr, on_isinstance=on_isinstance, on_call=on_call).paths(fi, {'self': SELF, fi.params[1]: GB, fi.params[2]: SList(tg)})
    EXPR = Sym('AST_EXPR')
    for gid, clause, bad_kw, good_kw, col, what in (
            ('group-new-aggregate', 'GROUP BY key is not an aggregate', {'new_is_agg': True}, {}, EXPR, 'a GROUP BY expression that is an aggregate'),
            ('group-ref-aggregate', 'GROUP BY does not reference an aggregate target', {'target_is_agg': True}, {}, 1, 'a GROUP BY position that names an aggregate target'),
            ('group-hashable', 'grouping keys hashable', {'hashable': False}, {}, 1, 'a GROUP BY key of a type that cannot be hashed'),
            ('having-aggregate', 'HAVING is an aggregate expression', {'having': Sym('AST_HAVING'), 'having_is_agg': False},
             {'having': Sym('AST_HAVING'), 'having_is_agg': True}, 1, 'a HAVING condition that is not an aggregate')):
        ok = J.run(gid, clause, fi, group_paths(col, **bad_kw), True, what)
        ok &= J.run(gid, clause, fi, group_paths(col, **good_kw), False, 'the valid counterpart of ' + what)
        done(gid, clause, ok)

    # ---- PIVOT BY: decided where the statement is compiled (_compile_select with the pivot step interpreted in place), so that the
    #      rules hold however the checks are split between the two functions
    fi = _method(P, '_compile_select')
    pv = _method(P, '_compile_pivot_by')
    PB = Sym('PIVOT_BY')

    def pivot_paths(columns, group_indexes, known_names=('a', 'b', 'c')):
        tg = [Sym(f'TARGET{i}') for i in range(3)]
        COLS = {c: c for c in columns if isinstance(c, Sym)}

        def on_attr(base, attr, ex):
            if base == SEL and attr == 'pivot_by':
                return PB
            if base == PB and attr == 'columns':
                return SList(list(columns))
            if base in tg and attr == 'name':
                return 'abc'[tg.index(base)]
            if base in tg and attr == 'is_aggregate':
                # consistent with the grouping: in an aggregate query the targets that are not grouped are aggregates
                return group_indexes is not None and tg.index(base) not in group_indexes
            if base in COLS and attr == 'name':
                return base.name.split('_')[-1]
            return NotImplemented

        def on_isinstance(v, c, ex):
            cn = gname(c)
            if cn.endswith('int'):
                return type(v) is int
            if cn.endswith('Column'):
                return isinstance(v, Sym) and v.name.startswith('COLREF')
            return False

        def on_call(fn, fv, rc, a, k, ex, nd):
            f = str(fn).split('.')[-1]
            if f == '_compile_from':
                return None
            if f == '_compile_targets':
                return SList(list(tg))
            if f == '_compile':
                return Sym('C_WHERE')
            if f == 'is_aggregate':
                return False
            if f == '_compile_group_by':
                return T('tuple', (SList(), None if group_indexes is None else SList(list(group_indexes)), None))
            if f == '_compile_order_by':
                return T('tuple', (SList(), None))
            if f in ('EvalQuery', 'EvalPivot'):
                return T('new', (f, a))
            if f in ('format', 'join'):
                return 'x'
            return NotImplemented

        def resolve(node, fname, fval, recv, ex, env):
            if str(fname).split('.')[-1] == '_compile_pivot_by':
                return pv
            return ex.engine.default_resolve(node, fname, fval, recv, ex, env)      # helpers the two functions are split into
        return Engine(P, on_attr=on_attr, on_isinstance=on_isinstance, on_call=on_call, resolve=resolve).paths(fi, {'self': SELF, fi.params[1]: SEL})
    ok = J.run('pivot-name', 'PIVOT BY name resolves', fi, pivot_paths([Sym('COLREF_zzz'), 2], [0, 1, 2]), True, 'a PIVOT BY name that is not a target')
    ok &= J.run('pivot-name', 'PIVOT BY name resolves', fi, pivot_paths([Sym('COLREF_a'), 2], [0, 1, 2]), False, 'a PIVOT BY name of a target')
    done('pivot-name', 'PIVOT BY name resolves', ok)
    ok = J.run('pivot-distinct', 'PIVOT columns distinct', fi, pivot_paths([Sym('COLREF_b'), 2], [0, 1, 2]), True,
               'PIVOT BY naming the same target by name and by position')
    ok &= J.run('pivot-distinct', 'PIVOT columns distinct', fi, pivot_paths([2, 2], [0, 1, 2]), True, 'PIVOT BY naming the same position twice')
    ok &= J.run('pivot-distinct', 'PIVOT columns distinct', fi, pivot_paths([1, 2], [0, 1, 2]), False, 'PIVOT BY two different targets')
    done('pivot-distinct', 'PIVOT columns distinct', ok)
    ok = J.run('pivot-grouped', 'second PIVOT column grouped', fi, pivot_paths([1, 2], [0]), True, 'a second PIVOT BY column that is not a GROUP BY column')
    ok &= J.run('pivot-grouped', 'second PIVOT column grouped', fi, pivot_paths([1, 2], None), True, 'PIVOT BY on a query that does not group')
    ok &= J.run('pivot-grouped', 'second PIVOT column grouped', fi, pivot_paths([1, 2], [1]), False, 'a second PIVOT BY column that is grouped')
    done('pivot-grouped', 'second PIVOT column grouped', ok)
    if n_ok < 16 and not res.findings:
        raise AnalysisError(f'only {n_ok} acceptance rules decided')
    return res


# ---------------------------------------------------------------------- R-TARGETCHK
def rule_targetchk(P) -> RuleResult:
    """Every expression that becomes a target - SELECT list, new ORDER BY expression, HAVING - is rejected when it mixes aggregates
    with columns or nests aggregates; a new GROUP BY expression is rejected when it is an aggregate.  Decided by feeding each
    site the bad trees."""
    res = RuleResult('R-TARGETCHK')
    res.exhaustive = True
    trees, cases = standard_trees()
    bad_trees = [(label, root, why) for label, (root, why) in cases.items() if why]
    good_trees = [(label, root) for label, (root, why) in cases.items() if not why]

    def tree_hooks(compiled_for):
        def on_isinstance(v, c, ex):
            r = trees.isinstance_(v, c)
            if r is not NotImplemented:
                return r
            cn = gname(c)
            if cn.endswith('int'):
                return type(v) is int
            return False

        def on_call(fn, fv, rc, a, k, ex, nd):
            f = str(fn).split('.')[-1]
            r = trees.call(fn, rc)
            if r is not NotImplemented:
                return r
            if f == '_compile':
                return compiled_for(a[0] if a else None)
            if f == 'issubclass':
                return True
            if f == 'index' and isinstance(rc, SList):
                raise Raise('ValueError', ())
            if f == 'EvalTarget':
                return T('new', ('EvalTarget', a))
            if f == 'get_target_name':
                return 'name'
            return NotImplemented
        return on_isinstance, on_call

    def judge(site, fi, clause, paths, must_reject, label):
        construct = f'{fi.fq}:EvalTarget[{clause}]'
        ok = True
        for p in paths:
            rejected = p.outcome == 'raise' and p.value[0].split('.')[-1] == 'CompilationError'
            if must_reject and not rejected:
                res.fail(construct, 'targetchk:unchecked', f'{clause}: {label} becomes a target without being rejected '
                         f'({p.outcome} `{show(p.value)[:50]}`): mixed aggregates and aggregates of aggregates have no defined evaluation', loc(fi))
                ok = False
            if not must_reject and p.outcome == 'raise':
                res.fail(construct, 'targetchk:rejects-valid', f'{clause}: {label} is rejected ({p.value[0]})', loc(fi))
                ok = False
        return ok
    # SELECT list
    fi = _method(P, '_compile_targets')
    TG = Sym('AST_TARGET')
    ok = True
    for label, root, why in bad_trees:
        oi, oc = tree_hooks(lambda x, _r=root: _r)
        paths = Engine(P, on_isinstance=oi, on_call=oc, max_depth=16).paths(fi, {'self': SELF, fi.params[1]: SList([TG])})
        ok &= judge('select', fi, 'SELECT', paths, True, label)
    for label, root in good_trees:
        oi, oc = tree_hooks(lambda x, _r=root: _r)
        paths = Engine(P, on_isinstance=oi, on_call=oc, max_depth=16).paths(fi, {'self': SELF, fi.params[1]: SList([TG])})
        ok &= judge('select', fi, 'SELECT', paths, False, label)
    # ... whichever place the bad expression has in the list: first of two targets, the other one fine
    if good_trees:
        TG2 = Sym('AST_TARGET_2')
        fine = good_trees[0][1]
        for label, root, why in bad_trees:
            for bad_first in (True, False):
                bad_t, good_t = (TG, TG2) if bad_first else (TG2, TG)
                oi, oc = tree_hooks(lambda x, _r=root, _b=bad_t: _r if x == T('attr', (_b, 'expression')) else fine)
                paths = Engine(P, on_isinstance=oi, on_call=oc, max_depth=16).paths(fi, {'self': SELF, fi.params[1]: SList([TG, TG2])})
                ok &= judge('select', fi, 'SELECT', paths, True, f'{label} ({"first" if bad_first else "second"} of two targets)')
    if ok:
        res.ok({'site': 'SELECT targets', 'bad_trees_rejected': len(bad_trees), 'good_trees_accepted': len(good_trees),
                'positions': 'alone, first of two, second of two'})
    # ORDER BY new expression
    fi = _method(P, '_compile_order_by')
    SPEC = Sym('SPEC')
    targets = [Sym('TARGET0')]
    ok = True
    for group, must in ((bad_trees, True), ([(l, r, None) for l, r in good_trees], False)):
        for label, root, _ in group:
            oi, oc = tree_hooks(lambda x, _r=root: _r)

            def on_attr(base, attr, ex):
                if base == SPEC and attr == 'column':
                    return Sym('AST_EXPR')
                if base == SPEC and attr == 'ordering':
                    return False
                if base == targets[0]:
                    return {'name': 'a', 'c_expr': Sym('EXPR0'), 'is_aggregate': False}.get(attr, NotImplemented)
                return NotImplemented
            paths = Engine(P, on_attr=on_attr, on_isinstance=oi, on_call=oc, max_depth=16).paths(
                fi, {'self': SELF, fi.params[1]: SList([SPEC]), fi.params[2]: SList(list(targets))})
            ok &= judge('order', fi, 'ORDER BY', paths, must, label)
    if ok:
        res.ok({'site': 'ORDER BY expressions', 'bad_trees_rejected': len(bad_trees), 'good_trees_accepted': len(good_trees)})
    # HAVING, and new GROUP BY expressions
    fi = _method(P, '_compile_group_by')
    GB = Sym('GROUP_BY')
    HAVING_AST = Sym('AST_HAVING')
    ok = True
    agg_trees = [(l, r) for l, r in good_trees if trees.kind[r] == 'agg' or (trees.kind[r] == 'op' and all(trees.kind[c] == 'agg' for c in trees.children[r]))]
    for group, must in (([(l, r) for l, r, w in bad_trees], True), (agg_trees, False)):
        for label, root in group:
            oi, oc = tree_hooks(lambda x, _r=root: _r if x == HAVING_AST else Sym('C_KEY'))

            def on_attr(base, attr, ex):
                if base == GB and attr == 'columns':
                    return SList([1])
                if base == GB and attr == 'having':
                    return HAVING_AST
                if base == targets[0]:
                    return {'name': 'a', 'c_expr': Sym('EXPR0'), 'is_aggregate': False}.get(attr, NotImplemented)
                if attr == 'dtype':
                    return Sym('DTYPE')
                return NotImplemented
            paths = Engine(P, on_attr=on_attr, on_isinstance=oi, on_call=oc, max_depth=16).paths(
                fi, {'self': SELF, fi.params[1]: GB, fi.params[2]: SList(list(targets))})
            ok &= judge('having', fi, 'HAVING', paths, must, label)
    if ok:
        res.ok({'site': 'HAVING expression', 'bad_trees_rejected': len(bad_trees), 'aggregate_trees_accepted': len(agg_trees)})
    ok = True
    for label, root in agg_trees:
        oi, oc = tree_hooks(lambda x, _r=root: _r)

        def on_attr2(base, attr, ex):
            if base == GB and attr == 'columns':
                return SList([Sym('AST_EXPR')])
            if base == GB and attr == 'having':
                return None
            if base == targets[0]:
                return {'name': 'a', 'c_expr': Sym('EXPR0'), 'is_aggregate': False}.get(attr, NotImplemented)
            if attr == 'dtype':
                return Sym('DTYPE')
            return NotImplemented
        paths = Engine(P, on_attr=on_attr2, on_isinstance=oi, on_call=oc, max_depth=16).paths(
            fi, {'self': SELF, fi.params[1]: GB, fi.params[2]: SList(list(targets))})
        ok &= judge('group', fi, 'GROUP BY', paths, True, label + ' as a GROUP BY expression')
    if ok:
        res.ok({'site': 'new GROUP BY expressions', 'aggregate_trees_rejected': len(agg_trees)})
    return res


# ----------------------------------------------------------------------
# R-AGGCOLLECT (C02): every aggregate node of a target expression is found - it is what gets allocated, updated and finalized

def rule_aggcollect(P) -> RuleResult:
    """get_columns_and_aggregates on abstract trees: the aggregates returned are *all* the aggregate nodes of the expression, one
    entry per occurrence (two equal calls in one expression are two nodes with their own state: each must be allocated, updated and
    finalized, or it evaluates to NULL), in left-to-right order; the columns are the column nodes not below an aggregate."""
    res = RuleResult('R-AGGCOLLECT')
    res.exhaustive = True
    fi = P.func(CO, 'get_columns_and_aggregates')
    t = Trees()
    col = lambda n: t.node(n, 'col')
    agg = t.node('AGG_same', 'agg', col('COL_below'))          # the same call written twice: equal nodes
    other = t.node('AGG_other', 'agg', t.node('OP_below', 'op', col('COL_below2')))
    c1, c2 = col('COL_a'), col('COL_b')
    cases = {
        'one aggregate': (t.node('ROOT1', 'op', other, t.node('CONST', 'const')), [], [other]),
        'the same aggregate call twice': (t.node('ROOT2', 'op', agg, t.node('OP_inner', 'op', agg, t.node('CONST_b', 'const'))), [], [agg, agg]),
        'two aggregates and the same twice': (t.node('ROOT3', 'op', other, agg, other), [], [other, agg, other]),
        'columns only, one twice': (t.node('ROOT4', 'op', c1, t.node('OP_c', 'op', c2, c1)), [c1, c2, c1], []),
        'a bare aggregate': (agg, [], [agg]),
        'a bare column': (c1, [c1], []),
    }

    def on_isinstance(v, c, ex):
        r = t.isinstance_(v, c)
        return r if r is not NotImplemented else False

    def on_call(fn, fv, rc, a, k, ex, nd):
        return t.call(fn, rc)
    for label, (root, want_cols, want_aggs) in cases.items():
        for p in Engine(P, on_isinstance=on_isinstance, on_call=on_call).paths(fi, {fi.params[0]: root}):
            got = None
            if p.outcome == 'return' and isinstance(p.value, T) and p.value.op == 'tuple' and len(p.value.args) == 2:
                cs, ags = p.value.args
                if all(isinstance(x, SList) and not x.opaque_tail for x in (cs, ags)):
                    got = (list(cs.items), list(ags.items))
            if p.decisions or got is None:
                raise AnalysisError(f'{fi.fq}: {label}: result not concrete on terms: {p.outcome} {show(p.value)[:80]}')
            if got[1] != want_aggs:
                res.fail(fi.fq, 'aggcollect:aggregates', f'{label}: the aggregate nodes found must be every aggregate node of the expression, one '
                         f'per occurrence, left to right: {[show(x) for x in want_aggs]}; found {[show(x) for x in got[1]]}. A node that is '
                         f'left out is never allocated, updated or finalized and evaluates to NULL', loc(fi))
            elif sorted(map(show, got[0])) != sorted(map(show, want_cols)):
                res.fail(fi.fq, 'aggcollect:columns', f'{label}: the columns found must be the column nodes outside aggregates '
                         f'{[show(x) for x in want_cols]}; found {[show(x) for x in got[0]]}', loc(fi))
            else:
                res.ok({'function': fi.fq, 'tree': label, 'aggregates': [show(x) for x in got[1]], 'columns': [show(x) for x in got[0]]})
    # is_aggregate: true exactly for the expressions that hold an aggregate node anywhere - also below x.attr and x['key']
    ia = P.func(CO, 'is_aggregate')
    below = t.node('AGG_dict', 'agg', col('COL_meta'))
    more = {
        "a subscript on an aggregate (first(meta)['k'])": (t.node('GETITEM', 'getitem', below), True),
        'an attribute of an aggregate (last(entry).date)': (t.node('GETTER', 'getter', t.node('AGG_entry', 'agg', col('COL_entry'))), True),
        'a function of a subscript on an aggregate': (t.node('OP_over', 'op', t.node('GETITEM2', 'getitem', below), t.node('CONST_c', 'const')), True),
        'a subscript on a column': (t.node('GETITEM3', 'getitem', col('COL_meta2')), False),
    }
    more.update({label: (root, bool(want_aggs)) for label, (root, _c, want_aggs) in cases.items()})
    for label, (root, want) in more.items():
        for p in Engine(P, on_isinstance=on_isinstance, on_call=on_call).paths(ia, {ia.params[0]: root}):
            if p.outcome != 'return' or p.decisions or p.value not in (True, False):
                raise AnalysisError(f'{ia.fq}: {label}: result not concrete on terms: {p.outcome} {show(p.value)[:80]}')
            if p.value is not want:
                res.fail(ia.fq, 'aggcollect:is-aggregate', f'{label}: is_aggregate must be {want}; it is {p.value}. A target taken for a '
                         f'non-aggregate is evaluated per row and used as a grouping key, so the aggregate below it is never folded '
                         f'(NULL in every row)', loc(ia))
            else:
                res.ok({'function': ia.fq, 'tree': label, 'is_aggregate': want})
    return res


# ----------------------------------------------------------------------
# R-OPRESOLVE (C04, C05): an operator whose operand types match no registered overload is rejected

def rule_opresolve(P) -> RuleResult:
    """Every operator handler of the compiler, fed operands whose types match none of the registered overloads (the lookup finds
    nothing; every candidate's __intypes__ differs; no implicit cast applies): the statement must be rejected with a
    CompilationError.  A handler that builds the node regardless accepts ill-typed operands, which then fail during execution."""
    import ast as _ast
    res = RuleResult('R-OPRESOLVE')
    comp = P.cls(CO, 'Compiler')
    handlers = []
    for name, fi in comp.methods.items():
        regs = [_ast.unparse(d) for d in fi.node.decorator_list if _ast.unparse(d).startswith('_compile.register')]
        if not regs:
            continue
        ann = _ast.unparse(fi.node.args.args[1].annotation) if len(fi.node.args.args) > 1 and fi.node.args.args[1].annotation else ''
        keys = ' '.join(regs) + ' ' + ann
        import re as _re
        if _re.search(r'ast\.(UnaryOp|BinaryOp|Between|In|NotIn)\b', keys):
            handlers.append(fi)
    if len(handlers) < 4:
        raise AnalysisError(f'only {len(handlers)} operator handlers found')
    NODE = Sym('AST_NODE')
    CAND = Sym('CANDIDATE_OVERLOAD')
    for fi in handlers:
        compiled = {}

        def on_attr(base, attr, ex):
            if attr == 'dtype' and base in compiled.values():
                return Sym('DTYPE_' + base.name)
            if base == CAND and attr == '__intypes__':
                return SList([Sym('OTHER_TYPE_A'), Sym('OTHER_TYPE_B'), Sym('OTHER_TYPE_C')][:max(1, len(compiled))])
            return NotImplemented

        def on_call(fn, fv, rc, a, k, ex, nd):
            f = str(fn).split('.')[-1]
            if f == '_compile' and a:
                return compiled.setdefault(repr(a[0]), Sym(f'C_OPERAND{len(compiled)}'))
            if f == 'function_lookup':
                return None
            if f == 'type':
                return Sym('NODETYPE')
            if fv == CAND:
                return T('new', ('OPERATOR_NODE', a))
            if f in ('name', 'lower', 'format', 'join'):
                return 'x'
            if f == 'get' and str(fn).endswith('MAP.get'):
                return None
            if f == 'EvalConstantSubquery1D':
                return T('new', ('EvalConstantSubquery1D', a))
            return NotImplemented

        def on_item(base, idx, ex):
            if isinstance(base, T) and base.op == 'global' and base.args[0].endswith('OPERATORS'):
                return SList([CAND])
            return NotImplemented

        def on_isinstance(v, c, ex):
            return False
        compiled.clear()
        paths = Engine(P, on_attr=on_attr, on_call=on_call, on_item=on_item, on_isinstance=on_isinstance,
                       globals_={'OPERATORS': T('global', ('OPERATORS',)), 'FUNCTIONS': T('global', ('FUNCTIONS',))}).paths(
            fi, {'self': SELF, fi.params[1]: NODE})
        accepted = [p for p in paths if p.outcome != 'raise']
        wrong = [p for p in paths if p.outcome == 'raise' and not _is_programming_error(P, p.value[0])]
        if accepted:
            res.fail(fi.fq, 'opresolve:unchecked',
                     f'{fi.qualname} builds the operator node without matching the operand dtypes against the registered '
                     f'overloads: ill-typed operands are accepted (`{show(accepted[0].value)[:60]}`) and fail during execution', loc(fi))
        elif wrong:
            res.fail(fi.fq, 'opresolve:class', f'{fi.qualname}: operands that match no overload raise {wrong[0].value[0]}, not a CompilationError', loc(fi))
        else:
            res.ok({'handler': fi.fq, 'resolution': 'by operand dtypes, CompilationError otherwise', 'paths': len(paths)})
    return res


# ---------------------------------------------------------------------- R-OPNODE
def rule_opnode(P) -> RuleResult:
    """The operator handlers with well-typed operands, on terms, whatever the syntax of the operands is (every isinstance / type test
    on the syntax tree is explored both ways): the node returned is the overload registered for *this* operator - OPERATORS[type(node)]
    resp. the lookup keyed by type(node) - applied to the compiled operands of this node in their order.  There is no rewriting of
    one operator into another: NOT (a < b) is not a >= b, because NOT NULL is TRUE and a comparison with NULL is NULL."""
    res = RuleResult('R-OPNODE')
    res.exhaustive = True
    NODE = Sym('AST_NODE')
    OVER = Sym('OVERLOAD')
    cases = (('_unaryop', ('operand',)), ('_binaryop', ('left', 'right')), ('_between', ('operand', 'lower', 'upper')))
    for meth, fields in cases:
        fi = _method(P, meth)
        ASTS = {f: Sym('AST_' + f.upper()) for f in fields}
        COMP = {ASTS[f]: Sym('C_' + f.upper()) for f in fields}

        def on_attr(base, attr, ex):
            if base == NODE and attr in ASTS:
                return ASTS[attr]
            if base in COMP.values() and attr == 'dtype':
                return Sym('DTYPE_' + base.name)
            if base == OVER and attr == '__intypes__':
                return SList([Sym('DTYPE_' + c.name) for c in COMP.values()])
            if attr == 'pure':
                return False
            return NotImplemented

        def on_call(fn, fv, rc, a, k, ex, nd):
            f = str(fn).split('.')[-1]
            if f == '_compile' and a:
                return COMP.get(a[0], T('call', ('_compile', tuple(a), ())))
            if f == 'function_lookup':
                key_ok = len(a) >= 2 and a[1] == T('call', ('type', (NODE,), ()))
                return OVER if key_ok else T('call', ('function_lookup', tuple(a), ()))
            if f == 'type' and tuple(a) == (NODE,):
                return T('call', ('type', (NODE,), ()))
            if fv == OVER:
                return T('new', ('OPERATOR_NODE', tuple(a)))
            if f in ('name', 'lower', 'format', 'join'):
                return 'x'
            return NotImplemented

        def on_item(base, idx, ex):
            if isinstance(base, T) and base.op == 'global' and base.args[0].endswith('OPERATORS'):
                return SList([OVER]) if idx == T('call', ('type', (NODE,), ())) else SList([Sym('OVERLOAD_OF_ANOTHER_OPERATOR')])
            return NotImplemented
        want = T('new', ('OPERATOR_NODE', tuple(COMP[ASTS[f]] for f in fields)))
        n = 0
        bad = None
        # syntax tests are undecided: both branches of each are followed; tests on the *compiled* operands (constant folding) are false
        def on_isinstance(v, c, ex):
            if v in COMP.values():
                return False
            return NotImplemented
        for p in Engine(P, on_attr=on_attr, on_call=on_call, on_item=on_item, on_isinstance=on_isinstance,
                        globals_={'OPERATORS': T('global', ('OPERATORS',)), 'FUNCTIONS': T('global', ('FUNCTIONS',))}).paths(
                fi, {'self': SELF, fi.params[1]: NODE}):
            n += 1
            if p.outcome == 'return' and p.value == want:
                continue
            bad = p
            break
        if n == 0:
            raise AnalysisError(f'{fi.fq}: no path on terms')
        if bad is not None:
            cond = f' when {" and ".join(show(t)[:60] + " is " + str(o) for t, o in bad.decisions)}' if bad.decisions else ''
            res.fail(fi.fq, 'opnode:rewrite', f'{fi.qualname} with well-typed operands must return the overload of this very operator applied to '
                     f'the compiled {", ".join(fields)}; it {"returns `" + show(bad.value)[:80] + "`" if bad.outcome == "return" else "raises " + str(bad.value[0])}'
                     f'{cond}', loc(fi))
        else:
            res.ok({'handler': fi.fq, 'node': f'OPERATORS[type(node)] overload({", ".join(fields)})', 'paths': n})
    return res
